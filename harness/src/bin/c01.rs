//! C01 harness: real engine ticks over generated graphs and data-driven rewrite programs.
//!
//! case:   g=<graph> r=<programs> enq=<rule.warp.node;...> perms=<k> seed=<n>   (see ../tick.rs for the syntax)
//! output: tbl=<candidate table> order=<row idx> dec=<bits> blk=<..> merged=<content ids|Err> res=<commit line|Err> oracle=<ok|FAIL:..> runs=<n>
#[path = "../tick.rs"]
mod tick;

use echo_verif_harness::*;
use tick::*;
use warp_core::SchedulerKind;

fn main() {
    // expected panics (footprint violations, scripted executor panics) are caught; keep stderr quiet
    std::panic::set_hook(Box::new(|_| {}));
    for line in read_cases() {
        let m = kv(&line);
        USE_DESCENT_STACK.store(m.get("descent").map(String::as_str) == Some("1"), std::sync::atomic::Ordering::Relaxed);
        let g = build_graph(m.get("g").map(String::as_str).unwrap_or("-"));
        // rule 7 is a pure reader (node record, node attachment, edge existence and edge attachments): a warm tick made of
        // it leaves the state untouched but exercises every read-mark of the scheduler (history-independence oracle below)
        let spec = format!("{};7:rn.s,ra.s,he.20,he.21,he.22,he.23,he.30,he.31,he.40,re.20,re.21,re.30", m.get("r").map(String::as_str).unwrap_or("-"));
        install(parse_programs(spec.trim_start_matches("-;")), m.get("omit").map(String::as_str).unwrap_or("-"));
        let enq = parse_enq(m.get("enq").map(String::as_str).unwrap_or("-"));
        let seed: u64 = m.get("seed").and_then(|s| s.parse().ok()).unwrap_or(1);
        let perms: usize = m.get("perms").and_then(|s| s.parse().ok()).unwrap_or(0);
        let rows = table(&g, &enq);
        let base = run_tick(&g, SchedulerKind::Radix, 1, &enq, None);
        let mut oracle: Vec<String> = Vec::new();
        let mut runs = 1usize;

        let order: Vec<Option<usize>> = base.receipt.iter().map(|e| row_index(&rows, &e.0, &e.1)).collect();
        if order.iter().any(Option::is_none) {
            oracle.push("receipt-entry-not-a-candidate".into());
        }
        let order: Vec<usize> = order.into_iter().flatten().collect();
        // canonical consideration order: ascending (scope hash, rule id), one entry per candidate
        let mut keys: Vec<([u8; 32], u32)> = order.iter().map(|&i| (rows[i].scope_hash, rows[i].compact)).collect();
        let sorted = keys.windows(2).all(|w| w[0] < w[1]);
        if base.result.is_ok() && !sorted {
            oracle.push("receipt-not-in-ascending-scope-rule-order".into());
        }
        keys.sort();
        keys.dedup();
        if base.result.is_ok() && keys.len() != rows.len() {
            oracle.push("receipt-does-not-cover-candidate-set".into());
        }
        let accepted: Vec<&Row> = base.receipt.iter().zip(order.iter()).filter(|(e, _)| e.2).map(|(_, &i)| &rows[i]).collect();
        let merged = reference_merge(&accepted);
        let merged_s = match &merged {
            Ok(ops) => content_ids(&rows, ops),
            Err(e) => e.clone(),
        };
        let mops = match &merged {
            Ok(ops) if !ops.is_empty() => render_ops(ops),
            _ => "-".to_string(),
        };
        let pre_dump = dump_state(&g.state, &g.warps);
        if let (Ok(line), Ok(ops)) = (&base.result, &merged) {
            // post-state = pre-state + effects of every accepted rewrite (computed against the pre-state), nothing else
            let mut expect = g.state.clone();
            match warp_core::verif_hooks::apply_ops_to_state(&mut expect, ops) {
                Ok(()) => {
                    if dump_state(&expect, &g.warps) != base.post_dump {
                        oracle.push("post-state-is-not-pre-plus-accepted-effects".into());
                    }
                }
                Err(_) => oracle.push("accepted-effects-do-not-apply".into()),
            }
            if line.contains("replay=false") {
                oracle.push("patch-does-not-replay-to-post-state".into());
            }
        }
        // NOTE: Engine::commit_with_receipt is not atomic when op application fails half-way (the ops of an
        // honest but invalid program, e.g. deleting a missing edge): the engine keeps the partially applied
        // state. C01 quantifies over committed ticks, so this is recorded as information, not as a violation
        // (the coordinator path, commit_with_state, restores state through RuntimeCommitStateGuard: C09).
        let partial = base.result.is_err() && base.post_dump != dump_state(&g.state, &g.warps);
        let same = |o: &TickOutcome| -> bool { o.result == base.result && o.receipt == base.receipt && o.post_dump == base.post_dump && o.post_root == base.post_root };
        // arrival order and multiplicity
        let mut rng = Rng(seed);
        for _ in 0..perms {
            let mut e2 = enq.clone();
            for _ in 0..rng.below(3) {
                if !e2.is_empty() {
                    let d = e2[rng.below(e2.len())];
                    e2.push(d);
                }
            }
            rng.shuffle(&mut e2);
            let o = run_tick(&g, SchedulerKind::Radix, 1, &e2, None);
            runs += 1;
            if !same(&o) {
                oracle.push("outcome-depends-on-enqueue-order-or-multiplicity".into());
                break;
            }
        }
        // the other scheduler implementation and other worker counts
        let o = run_tick(&g, SchedulerKind::Legacy, 1, &enq, None);
        runs += 1;
        if !same(&o) {
            oracle.push("legacy-scheduler-commits-differently".into());
        }
        for w in [2usize, 5] {
            let o = run_tick(&g, SchedulerKind::Radix, w, &enq, None);
            runs += 1;
            if !same(&o) {
                oracle.push(format!("workers-{w}-commit-differently"));
            }
        }
        // history independence: the same tick on a long-lived engine that already committed a tick (first the read-heavy
        // prefix of this very candidate set, then the set itself) vs a fresh engine on the same pre-tick state
        let mut readers: Vec<Req> = Vec::new();
        for w in &g.warps {
            if let Some(store) = g.state.store(&wid(*w)) {
                let mut ids: Vec<u64> = store.iter_nodes().map(|(id, _)| u64::from_be_bytes(id.0[24..].try_into().unwrap())).collect();
                ids.sort_unstable();
                readers.extend(ids.into_iter().map(|n| (7usize, *w, n)));
            }
        }
        for warm in [&enq[..enq.len() / 2], &enq[..], &readers[..]] {
            if warm.is_empty() || enq.is_empty() {
                continue;
            }
            for kind in [SchedulerKind::Radix, SchedulerKind::Legacy] {
                if let Some((long_lived, fresh)) = run_warm_then(&g, kind, 1, warm, &enq) {
                    runs += 3;
                    if sans_commit(&long_lived.result) != sans_commit(&fresh.result)
                        || long_lived.receipt != fresh.receipt
                        || long_lived.post_dump != fresh.post_dump
                        || long_lived.post_root != fresh.post_root
                    {
                        oracle.push(format!("outcome-depends-on-earlier-ticks-of-the-engine:{kind:?}"));
                    }
                }
            }
        }
        let blk: Vec<String> = base.receipt.iter().map(|e| if e.3.is_empty() { "-".to_string() } else { e.3.iter().map(|x| x.to_string()).collect::<Vec<_>>().join("+") }).collect();
        let res = match &base.result {
            Ok(l) => l.replace(' ', ","),
            Err(e) => format!("Err:{e}"),
        };
        let tbl = render_table(&rows);
        let enq_idx: Vec<String> = enq
            .iter()
            .filter_map(|r| rows.iter().position(|row| row.req == *r).map(|i| i.to_string()))
            .collect();
        println!(
            "tbl={} enq={} order={} dec={} blk={} merged={} res={} oracle={} runs={} partial={} mops={} pre={} post={}",
            if tbl.is_empty() { "-".into() } else { tbl },
            if enq_idx.is_empty() { "-".to_string() } else { enq_idx.join(",") },
            if order.is_empty() { "-".to_string() } else { order.iter().map(|i| i.to_string()).collect::<Vec<_>>().join(",") },
            if base.receipt.is_empty() { "-".to_string() } else { base.receipt.iter().map(|e| if e.2 { '1' } else { '0' }).collect::<String>() },
            if blk.is_empty() { "-".to_string() } else { blk.join(",") },
            if merged_s.is_empty() { "-".to_string() } else { merged_s },
            res,
            if oracle.is_empty() { "ok".to_string() } else { format!("FAIL:{}", oracle.join(",")) },
            runs,
            partial,
            mops,
            pre_dump,
            base.post_dump
        );
    }
}
