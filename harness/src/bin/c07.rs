//! C07 harness: replay / seek path independence on REAL histories.
//!
//! A case builds a real history by driving a `WorldlineRuntime` through `SchedulerCoordinator::super_tick`
//! with generated intents (interpreted by one registered rule), records the LIVE worldline state after every
//! committed tick, and then runs scenarios with real `PlaybackCursor`s, real checkpoints and real forks.
//!
//! case:   id=<n> wls=<1|2> prog=<tick>/<tick>/...   (tick = `-` or `<wl>.<hex program>,<wl>.<hex>`)
//!         scen=<scenario>|<scenario>|...
//!   scenario `O:<wl>:<role R|W>:<pin>:<cps>:<tamper>:<ops>`   explicit op list
//!            `S:<wl>:<tamper>`                                exhaustive (checkpoint subset, start, target) sweep
//!            `F:<wl>:<cps>`                                   forks at every tick
//!   cps    = `-` or `t<src>,...` (src: L live state, R replay_worldline_state_at, C cursor materialization)
//!   tamper = `-` or `<kind>@<pos>`
//!   ops    = `s<t>` seek, `x` step, `mP mL mF mB mS<t>p mS<t>q` mode, `p<n>` pin, `rR rW` role, `c` checkpoint
//!            from the cursor, `a<t>.<src>` foreign checkpoint labelled tick t holding the live state of tick src
//! output: `id=<n> facts=<wl facts>|.. out=<scenario result>|... oracle=<ok|FAIL:sig,...>`
use echo_verif_harness::*;
use std::collections::BTreeMap;
use warp_core::strand::make_strand_id;
use warp_core::{
    ActorId, AuthorityBinding, AuthorityDomainId, AuthorityDomainRef, CausalAuthority, CausalPosture, ForkStrandRequest,
    OriginId, PostureDerivation, RetentionContractId, RetentionPosture, SealStrength,
    compute_commit_hash_v2, make_edge_id, make_head_id, make_intent_kind, make_node_id, make_type_id,
    AtomPayload, AttachmentKey, AttachmentValue, CheckpointRef, ConflictPolicy, CursorId, CursorRole, EdgeId,
    EdgeKey, EdgeRecord, Engine, EngineBuilder, Footprint, GraphStore, GraphView, Hash, HistoryError,
    InboxPolicy, IngressEnvelope, IngressTarget, LocalProvenanceStore, NodeId, NodeKey, NodeRecord,
    PatternGraph, PlaybackCursor, PlaybackMode, ProvenanceEntry, ProvenanceRef, ProvenanceService,
    ProvenanceStore, ReplayCheckpoint, ReplayError, RewriteRule, SchedulerCoordinator, SchedulerKind, SeekError,
    SeekThen, SlotId, StepResult, TickDelta, TickReceipt, TxId, WarpId, WarpOp, WorldlineId, WorldlineRuntime,
    WorldlineState, WorldlineTick, WriterHead, WriterHeadKey,
};

const NK: u8 = 8;

fn wl(n: u8) -> WorldlineId {
    WorldlineId::from_bytes([n; 32])
}
fn wt(t: u64) -> WorldlineTick {
    WorldlineTick::from_raw(t)
}
fn root_id() -> NodeId {
    make_node_id("root")
}
fn node_k(k: u8) -> NodeId {
    make_node_id(&format!("vf/n{k}"))
}
/// slot 255 = the root node
fn node_of(k: u8) -> NodeId {
    if k == 255 {
        root_id()
    } else {
        node_k(k)
    }
}
fn edge_ab(a: u8, b: u8) -> EdgeId {
    make_edge_id(&format!("vf/e/{a}/{b}"))
}
fn h8(h: &[u8; 32]) -> String {
    hex::encode(&h[..6])
}

// ------------------------------------------------------------------------------------------- the rule

fn program<'a>(view: GraphView<'a>, scope: &NodeId) -> Option<&'a [u8]> {
    match view.node_attachment(scope) {
        Some(AttachmentValue::Atom(p)) if p.bytes.len() >= 2 && &p.bytes[..2] == b"VF" => Some(&p.bytes[2..]),
        _ => None,
    }
}

#[derive(Clone, Debug)]
enum MiniOp {
    Nop,
    Node(u8, u8),
    SetAtt(u8, Vec<u8>),
    ClrAtt(u8),
    Edge(u8, u8),
    DelEdge(u8, u8),
    DelNode(u8),
}

fn decode(prog: &[u8]) -> Vec<MiniOp> {
    let mut out = Vec::new();
    let mut i = 0usize;
    let nk = |b: u8| if b == 255 { 255 } else { b % NK };
    while i < prog.len() {
        let op = prog[i];
        let arg = |j: usize| prog.get(i + j).copied().unwrap_or(0);
        match op {
            0 => {
                out.push(MiniOp::Nop);
                i += 2;
            }
            1 => {
                out.push(MiniOp::Node(arg(1) % NK, arg(2)));
                i += 3;
            }
            2 => {
                let n = (arg(2) as usize).min(16);
                let data = prog.get(i + 3..(i + 3 + n).min(prog.len())).unwrap_or(&[]).to_vec();
                out.push(MiniOp::SetAtt(nk(arg(1)), data));
                i += 3 + n;
            }
            3 => {
                out.push(MiniOp::ClrAtt(nk(arg(1))));
                i += 2;
            }
            4 => {
                out.push(MiniOp::Edge(arg(1) % NK, arg(2) % NK));
                i += 3;
            }
            5 => {
                out.push(MiniOp::DelEdge(arg(1) % NK, arg(2) % NK));
                i += 3;
            }
            6 => {
                out.push(MiniOp::DelNode(arg(1) % NK));
                i += 2;
            }
            _ => {
                i += 1;
            }
        }
    }
    out
}

fn interp_matches(view: GraphView<'_>, scope: &NodeId) -> bool {
    program(view, scope).is_some()
}

fn interp_footprint(view: GraphView<'_>, scope: &NodeId) -> Footprint {
    let warp = view.warp_id();
    let mut fp = Footprint::default();
    fp.n_read.insert_with_warp(warp, *scope);
    fp.a_read.insert(AttachmentKey::node_alpha(NodeKey { warp_id: warp, local_id: *scope }));
    let Some(prog) = program(view, scope) else {
        return fp;
    };
    let node = |fp: &mut Footprint, k: u8| {
        let id = node_of(k);
        fp.n_read.insert_with_warp(warp, id);
        fp.n_write.insert_with_warp(warp, id);
        let key = AttachmentKey::node_alpha(NodeKey { warp_id: warp, local_id: id });
        fp.a_read.insert(key);
        fp.a_write.insert(key);
    };
    let edge = |fp: &mut Footprint, a: u8, b: u8| {
        let id = edge_ab(a, b);
        fp.e_read.insert_with_warp(warp, id);
        fp.e_write.insert_with_warp(warp, id);
        let key = AttachmentKey::edge_beta(EdgeKey { warp_id: warp, local_id: id });
        fp.a_read.insert(key);
        fp.a_write.insert(key);
    };
    for op in decode(prog) {
        match op {
            MiniOp::Nop => {}
            MiniOp::Node(k, _) => {
                node(&mut fp, k);
                node(&mut fp, 255);
                edge(&mut fp, 255, k);
            }
            MiniOp::SetAtt(k, _) | MiniOp::ClrAtt(k) => node(&mut fp, k),
            MiniOp::Edge(a, b) | MiniOp::DelEdge(a, b) => {
                node(&mut fp, a);
                node(&mut fp, b);
                edge(&mut fp, a, b);
            }
            MiniOp::DelNode(k) => {
                node(&mut fp, k);
                node(&mut fp, 255);
                edge(&mut fp, 255, k);
                for a in 0..NK {
                    node(&mut fp, a);
                    edge(&mut fp, a, k);
                    edge(&mut fp, k, a);
                }
            }
        }
    }
    fp
}

fn interp_executor(view: GraphView<'_>, scope: &NodeId, delta: &mut TickDelta) {
    let warp = view.warp_id();
    let Some(prog) = program(view, scope) else {
        return;
    };
    let nkey = |k: u8| NodeKey { warp_id: warp, local_id: node_of(k) };
    for op in decode(prog) {
        match op {
            MiniOp::Nop => {}
            MiniOp::Node(k, ty) => {
                delta.push(WarpOp::UpsertNode {
                    node: nkey(k),
                    record: NodeRecord { ty: make_type_id(&format!("vf/ty{ty}")) },
                });
                if !view.has_edge(&edge_ab(255, k)) {
                    delta.push(WarpOp::UpsertEdge {
                        warp_id: warp,
                        record: EdgeRecord {
                            id: edge_ab(255, k),
                            from: root_id(),
                            to: node_k(k),
                            ty: make_type_id("vf/child"),
                        },
                    });
                }
            }
            MiniOp::SetAtt(k, data) => {
                if view.node(&node_of(k)).is_some() {
                    delta.push(WarpOp::SetAttachment {
                        key: AttachmentKey::node_alpha(nkey(k)),
                        value: Some(AttachmentValue::Atom(AtomPayload::new(make_type_id("vf/att"), data.into()))),
                    });
                }
            }
            MiniOp::ClrAtt(k) => {
                if view.node(&node_of(k)).is_some() && view.node_attachment(&node_of(k)).is_some() {
                    delta.push(WarpOp::SetAttachment { key: AttachmentKey::node_alpha(nkey(k)), value: None });
                }
            }
            MiniOp::Edge(a, b) => {
                if a != b && view.node(&node_k(a)).is_some() && view.node(&node_k(b)).is_some() {
                    delta.push(WarpOp::UpsertEdge {
                        warp_id: warp,
                        record: EdgeRecord {
                            id: edge_ab(a, b),
                            from: node_k(a),
                            to: node_k(b),
                            ty: make_type_id("vf/link"),
                        },
                    });
                }
            }
            MiniOp::DelEdge(a, b) => {
                if view.has_edge(&edge_ab(a, b)) {
                    delta.push(WarpOp::DeleteEdge { warp_id: warp, from: node_k(a), edge_id: edge_ab(a, b) });
                }
            }
            MiniOp::DelNode(k) => {
                if view.node(&node_k(k)).is_some() {
                    if view.has_edge(&edge_ab(255, k)) {
                        delta.push(WarpOp::DeleteEdge { warp_id: warp, from: root_id(), edge_id: edge_ab(255, k) });
                    }
                    for a in 0..NK {
                        if view.has_edge(&edge_ab(a, k)) {
                            delta.push(WarpOp::DeleteEdge { warp_id: warp, from: node_k(a), edge_id: edge_ab(a, k) });
                        }
                        if a != k && view.has_edge(&edge_ab(k, a)) {
                            delta.push(WarpOp::DeleteEdge { warp_id: warp, from: node_k(k), edge_id: edge_ab(k, a) });
                        }
                    }
                    delta.push(WarpOp::DeleteNode { node: nkey(k) });
                }
            }
        }
    }
}

fn interp_rule() -> RewriteRule {
    RewriteRule {
        id: make_type_id("rule:cmd/vf-interp").0,
        name: "cmd/vf-interp",
        left: PatternGraph { nodes: vec![] },
        matcher: interp_matches,
        executor: interp_executor,
        compute_footprint: interp_footprint,
        factor_mask: 0,
        conflict_policy: ConflictPolicy::Abort,
        join_fn: None,
    }
}

// ------------------------------------------------------------------------------------------- world

struct World {
    runtime: WorldlineRuntime,
    engine: Engine,
    provenance: ProvenanceService,
    wls: Vec<WorldlineId>,
    /// live[w][t] = worldline state the runtime held at worldline tick t (t = 0 is the registered base)
    live: Vec<Vec<WorldlineState>>,
    flags: Vec<String>,
}

fn new_engine() -> Engine {
    let mut store = GraphStore::default();
    let root = root_id();
    store.insert_node(root, NodeRecord { ty: make_type_id("world") });
    let mut engine = EngineBuilder::new(store, root).scheduler(SchedulerKind::Radix).workers(1).build();
    engine.register_rule(interp_rule()).expect("register rule");
    engine
}

/// Channel outputs recorded for the commit with worldline tick `i` under the case's `outs` mask (bit i mod 16).
fn outputs_for(mask: u64, i: u64) -> Vec<(warp_core::TypeId, Vec<u8>)> {
    if (mask >> (i % 16)) & 1 == 1 {
        vec![(warp_core::materialization::make_channel_id(&format!("vf/ch{}", i % 2)), vec![0xA0, i as u8])]
    } else {
        Vec::new()
    }
}

fn mat_str(state: &WorldlineState) -> String {
    let v: Vec<String> = state
        .last_materialization()
        .iter()
        .map(|c| format!("{}:{}", hex::encode(c.channel.0), tohex(&c.data)))
        .collect();
    format!("{};errs={}", v.join(","), state.last_materialization_errors().len())
}

/// `outs != 0`: the rules of this engine cannot emit, so recorded outputs are added to the REAL entries while they
/// are re-appended (append_local_commit validates them) into a second ProvenanceService: emitting and silent ticks
/// as the mask says.  The recorded truth for tick t then is the live state of tick t with last_materialization =
/// the outputs recorded by entry t-1.
fn build_world(nwl: usize, prog: &str, outs: u64) -> World {
    let mut world = build_world_live(nwl, prog);
    if outs == 0 {
        return world;
    }
    let mut prov = ProvenanceService::new();
    for (w, id) in world.wls.iter().enumerate() {
        prov.register_worldline(*id, &world.live[w][0]).expect("register mirror");
    }
    for (w, id) in world.wls.iter().enumerate() {
        let n = world.live[w].len() - 1;
        for t in 0..n {
            let mut e = world.provenance.entry(*id, wt(t as u64)).expect("entry");
            e.outputs = outputs_for(outs, t as u64);
            if let Err(err) = prov.append_local_commit(e) {
                world.flags.push(format!("outputs-mirror-append-rejected@{t}:{}", hist_err(&err)));
            }
        }
    }
    for (w, id) in world.wls.iter().enumerate() {
        let base = world.live[w][0].clone();
        let n = world.live[w].len() - 1;
        for t in 1..=n {
            match prov.replay_worldline_state_at(*id, &base, wt(t as u64)) {
                Ok(d) => {
                    let lv = &world.live[w][t];
                    if d.state_root() != lv.state_root() || graph_fp(&d) != graph_fp(lv) || hist_str(&d) != hist_str(lv) {
                        world.flags.push(format!("direct-replay-differs-from-live@{t}"));
                    }
                    // independent of finalize_replay_metadata: the outputs the entry itself records
                    let want: Vec<String> = outputs_for(outs, t as u64 - 1)
                        .iter()
                        .map(|(c, data)| format!("{}:{}", hex::encode(c.0), tohex(data)))
                        .collect();
                    if mat_str(&d) != format!("{};errs=0", want.join(",")) {
                        world.flags.push(format!("direct-replay-materialization-differs-from-recorded-outputs@{t}"));
                    }
                    world.live[w][t] = d;
                }
                Err(e) => world.flags.push(format!("direct-replay-failed@{t}:{}", replay_err(&e))),
            }
        }
    }
    world.provenance = prov;
    world
}

fn build_world_live(nwl: usize, prog: &str) -> World {
    let mut runtime = WorldlineRuntime::new();
    let mut engine = new_engine();
    let mut wls = Vec::new();
    let mut live = Vec::new();
    let mut flags = Vec::new();
    for i in 0..nwl {
        let id = wl(i as u8 + 1);
        let base = WorldlineState::empty();
        runtime.register_worldline(id, base.clone()).expect("register worldline");
        runtime
            .register_writer_head(WriterHead::with_routing(
                WriterHeadKey { worldline_id: id, head_id: make_head_id("default") },
                PlaybackMode::Play,
                InboxPolicy::AcceptAll,
                None,
                true,
            ))
            .expect("register head");
        wls.push(id);
        live.push(vec![base]);
    }
    let mut provenance = ProvenanceService::new();
    for (id, frontier) in runtime.worldlines().iter() {
        provenance.register_worldline(*id, frontier.state()).expect("register provenance");
    }
    for tick in prog.split('/') {
        if tick == "-" || tick.is_empty() {
            continue;
        }
        for intent in tick.split(',') {
            let (w, hexprog) = intent.split_once('.').expect("intent");
            let w: usize = w.parse().expect("wl index");
            if w >= nwl {
                continue;
            }
            let mut bytes = b"VF".to_vec();
            bytes.extend(unhex(hexprog));
            let env = IngressEnvelope::local_intent(
                IngressTarget::DefaultWriter { worldline_id: wls[w] },
                make_intent_kind("vf/prog"),
                bytes,
            );
            let _ = runtime.ingest(env);
        }
        match SchedulerCoordinator::super_tick(&mut runtime, &mut provenance, &mut engine) {
            Ok(records) => {
                for rec in records {
                    let w = wls.iter().position(|x| *x == rec.head_key.worldline_id).expect("wl");
                    let st = runtime.worldlines().get(&wls[w]).expect("frontier").state().clone();
                    if st.state_root() != rec.state_root {
                        flags.push(format!("live-root-differs-from-step-record@{}", live[w].len()));
                    }
                    if st.current_tick() != rec.worldline_tick_after
                        || rec.worldline_tick_after.as_u64() as usize != live[w].len()
                    {
                        flags.push(format!("live-tick-bookkeeping@{}", live[w].len()));
                    }
                    live[w].push(st);
                }
            }
            Err(e) => {
                // a faulted pass commits nothing (C09's subject); stop feeding this history
                flags.push(format!("NOTE-super-tick-error:{}", format!("{e:?}").chars().take(40).collect::<String>()));
                break;
            }
        }
    }
    World { runtime, engine, provenance, wls, live, flags }
}

// ------------------------------------------------------------------------------------------- dumps

/// Canonical dump of the root warp store: sorted `key=value` lines (ids abbreviated to 6 bytes).
fn dump_store(state: &WorldlineState) -> Vec<(String, String)> {
    let warp = state.root().warp_id;
    let mut out = Vec::new();
    if let Some(store) = state.store(&warp) {
        for (id, rec) in store.iter_nodes() {
            out.push((format!("n{}", h8(&id.0)), h8(&rec.ty.0)));
        }
        for (from, edges) in store.iter_edges() {
            for e in edges {
                out.push((format!("e{}", h8(&e.id.0)), format!("{}.{}.{}", h8(&from.0), h8(&e.to.0), h8(&e.ty.0))));
            }
        }
        let att = |v: &AttachmentValue| match v {
            AttachmentValue::Atom(p) => format!("{}.{}", h8(&p.type_id.0), tohex(&blake3::hash(&p.bytes).as_bytes()[..6])),
            AttachmentValue::Descend(w) => format!("d{}", h8(&w.0)),
        };
        for (id, v) in store.iter_node_attachments() {
            out.push((format!("a{}", h8(&id.0)), att(v)));
        }
        for (id, v) in store.iter_edge_attachments() {
            out.push((format!("b{}", h8(&id.0)), att(v)));
        }
    }
    out.sort();
    out
}

fn dump_str(d: &[(String, String)]) -> String {
    if d.is_empty() {
        "-".into()
    } else {
        d.iter().map(|(k, v)| format!("{k}={v}")).collect::<Vec<_>>().join(",")
    }
}

fn graph_fp(state: &WorldlineState) -> String {
    let d = dump_str(&dump_store(state));
    hex::encode(&blake3::hash(d.as_bytes()).as_bytes()[..8])
}

/// Everything replay is supposed to reconstruct besides the graph: tick history artifacts, last snapshot,
/// last materialization.
fn hist_str(state: &WorldlineState) -> String {
    let mut s = String::new();
    for (snap, receipt, patch) in state.tick_history() {
        s.push_str(&format!(
            "[{} {} {} {} {} {} {} {} {:?} r{} {} p{}]",
            hex::encode(snap.hash),
            hex::encode(snap.state_root),
            hex::encode(snap.patch_digest),
            hex::encode(snap.plan_digest),
            hex::encode(snap.decision_digest),
            hex::encode(snap.rewrites_digest),
            snap.tx.value(),
            snap.policy_id,
            snap.parents.iter().map(hex::encode).collect::<Vec<_>>(),
            receipt.tx().value(),
            hex::encode(receipt.digest()),
            hex::encode(patch.digest()),
        ));
    }
    s.push_str(&format!(" last={:?}", state.last_snapshot().map(|x| hex::encode(x.hash))));
    s
}

fn meta_str(state: &WorldlineState) -> String {
    format!("{} mat={}", hist_str(state), mat_str(state))
}

// ------------------------------------------------------------------------------------------- tampering store

#[derive(Clone, Debug)]
struct Tamper {
    kind: String,
    pos: u64,
}

/// A `ProvenanceStore` that serves the real store's data with one entry altered on read.
struct TamperStore<'a> {
    inner: &'a ProvenanceService,
    tamper: Option<Tamper>,
}

fn tamper_x() -> NodeId {
    make_node_id("vf/tamper-x")
}
fn tamper_missing() -> NodeId {
    make_node_id("vf/tamper-missing")
}
fn flip(h: &Hash) -> Hash {
    let mut x = *h;
    x[31] ^= 1;
    x
}

impl TamperStore<'_> {
    fn edit(&self, w: WorldlineId, mut e: ProvenanceEntry) -> ProvenanceEntry {
        let Some(t) = &self.tamper else {
            return e;
        };
        if e.worldline_tick.as_u64() != t.pos {
            return e;
        }
        let warp = self.inner.u0(w).expect("u0");
        match t.kind.as_str() {
            "root" => e.expected.state_root = flip(&e.expected.state_root),
            "commit" => e.expected.commit_hash = flip(&e.expected.commit_hash),
            "pdig" => {
                e.expected.patch_digest = flip(&e.expected.patch_digest);
                let parents: Vec<Hash> = e.parents.iter().map(|p| p.commit_hash).collect();
                let policy = e.patch.as_ref().map(|p| p.policy_id()).unwrap_or(0);
                e.expected.commit_hash =
                    compute_commit_hash_v2(&e.expected.state_root, &parents, &e.expected.patch_digest, policy);
            }
            "pfield" => {
                if let Some(p) = e.patch.as_mut() {
                    p.patch_digest = flip(&p.patch_digest);
                }
            }
            "pcalc" => {
                if let Some(p) = e.patch.as_mut() {
                    p.in_slots.push(SlotId::Node(NodeKey { warp_id: warp, local_id: tamper_x() }));
                }
            }
            "nopatch" => e.patch = None,
            "empty" => {
                if let Some(p) = e.patch.as_mut() {
                    p.ops.clear();
                }
            }
            "applyfail" => {
                if let Some(p) = e.patch.as_mut() {
                    p.ops = vec![
                        WarpOp::UpsertNode {
                            node: NodeKey { warp_id: warp, local_id: tamper_x() },
                            record: NodeRecord { ty: make_type_id("vf/tamper") },
                        },
                        WarpOp::DeleteNode { node: NodeKey { warp_id: warp, local_id: tamper_missing() } },
                    ];
                }
            }
            "rcpttx" => {
                if let Some(r) = &e.tick_receipt {
                    let blocked: Vec<Vec<u32>> = (0..r.entries().len()).map(|i| r.blocked_by(i).to_vec()).collect();
                    e.tick_receipt =
                        TickReceipt::try_from_retained_parts(TxId::from_raw(t.pos + 2), r.entries().to_vec(), blocked).ok();
                }
            }
            // /repo 90bd2fa: the served entry must be the requested coordinate and link to the previous commit
            "tickgap" => e.worldline_tick = wt(t.pos + 1),
            "noparent" => e.parents.clear(),
            "rcptdig" => {
                e.tick_receipt = TickReceipt::try_from_retained_parts(TxId::from_raw(t.pos + 1), vec![], vec![]).ok();
            }
            _ => {}
        }
        e
    }
}

impl ProvenanceStore for TamperStore<'_> {
    fn u0(&self, w: WorldlineId) -> Result<WarpId, HistoryError> {
        self.inner.u0(w)
    }
    fn initial_boundary_hash(&self, w: WorldlineId) -> Result<Hash, HistoryError> {
        ProvenanceStore::initial_boundary_hash(self.inner, w)
    }
    fn len(&self, w: WorldlineId) -> Result<u64, HistoryError> {
        self.inner.len(w)
    }
    fn entry(&self, w: WorldlineId, tick: WorldlineTick) -> Result<ProvenanceEntry, HistoryError> {
        self.inner.entry(w, tick).map(|e| self.edit(w, e))
    }
    fn parents(&self, w: WorldlineId, tick: WorldlineTick) -> Result<Vec<ProvenanceRef>, HistoryError> {
        self.inner.parents(w, tick)
    }
    fn append_local_commit(&mut self, _entry: ProvenanceEntry) -> Result<(), HistoryError> {
        Err(HistoryError::HistoryUnavailable { tick: wt(0) })
    }
    fn append_recorded_event(&mut self, _entry: ProvenanceEntry) -> Result<(), HistoryError> {
        Err(HistoryError::HistoryUnavailable { tick: wt(0) })
    }
    fn checkpoint_before(&self, w: WorldlineId, tick: WorldlineTick) -> Option<CheckpointRef> {
        ProvenanceStore::checkpoint_before(self.inner, w, tick)
    }
    fn checkpoint_state_before(&self, w: WorldlineId, tick: WorldlineTick) -> Option<ReplayCheckpoint> {
        ProvenanceStore::checkpoint_state_before(self.inner, w, tick)
    }
}

// ------------------------------------------------------------------------------------------- rendering

fn seek_err(e: &SeekError) -> String {
    match e {
        SeekError::HistoryUnavailable { tick } => format!("EHist@{}", tick.as_u64()),
        SeekError::StateRootMismatch { tick } => format!("ERoot@{}", tick.as_u64()),
        SeekError::PatchDigestMismatch { tick } => format!("EPDig@{}", tick.as_u64()),
        SeekError::CommitHashMismatch { tick } => format!("ECommit@{}", tick.as_u64()),
        SeekError::ReceiptMismatch { tick } => format!("ERcpt@{}", tick.as_u64()),
        SeekError::ApplyError { tick, .. } => format!("EApply@{}", tick.as_u64()),
        SeekError::PinnedFrontierExceeded { target, pin } => format!("EPin@{}@{}", target.as_u64(), pin.as_u64()),
        SeekError::CheckpointStateRootMismatch { tick } => format!("ECpRoot@{}", tick.as_u64()),
        SeekError::ReplayBaseWarpMismatch { .. } => "EBaseWarp".into(),
        SeekError::InitialBoundaryHashMismatch { .. } => "EBaseBnd".into(),
    }
}

fn hist_err(e: &HistoryError) -> String {
    match e {
        HistoryError::HistoryUnavailable { tick } => format!("HUnavail@{}", tick.as_u64()),
        HistoryError::CheckpointRootWarpMismatch { .. } => "HRootWarp".into(),
        HistoryError::CheckpointInitialBoundaryHashMismatch { .. } => "HInitBnd".into(),
        HistoryError::CheckpointStateRootMismatch { tick, .. } => format!("HRoot@{}", tick.as_u64()),
        HistoryError::CheckpointReplayMetadataMismatch { tick, field } => {
            let f = match *field {
                "tick_history_len" => 1,
                "tx_counter" => 2,
                "committed_ingress" => 3,
                "last_materialization_errors" => 4,
                "last_snapshot" => 5,
                "last_materialization" => 6,
                "tick_history.patch" => 7,
                "tick_history.replay_artifacts" => 8,
                "tick_history.snapshot" => 9,
                "tick_history.receipt" => 9,
                _ => 0,
            };
            format!("HMeta@{}@{}", tick.as_u64(), f)
        }
        HistoryError::WorldlineAlreadyExists(_) => "HExists".into(),
        other => format!("HOther:{}", format!("{other:?}").chars().take(24).collect::<String>().replace(' ', "_")),
    }
}

fn mode_str(m: PlaybackMode) -> String {
    match m {
        PlaybackMode::Paused => "P".into(),
        PlaybackMode::Play => "L".into(),
        PlaybackMode::StepForward => "F".into(),
        PlaybackMode::StepBack => "B".into(),
        PlaybackMode::Seek { target, then } => {
            format!("S{}{}", target.as_u64(), if then == SeekThen::Play { "p" } else { "q" })
        }
    }
}

struct Ctx<'a> {
    w: usize,
    world: &'a World,
    /// graph fingerprint -> first live tick with that graph
    fps: BTreeMap<String, usize>,
    commits: Vec<Hash>,
    unknown: BTreeMap<String, String>,
    /// fresh direct replay of ticks 0..t from U0 on the untampered, checkpoint-free store
    direct: Vec<Option<WorldlineState>>,
    /// scratch copy of the untampered store: every reached state must be acceptable as a checkpoint of its tick
    scratch: std::cell::RefCell<ProvenanceService>,
}

impl<'a> Ctx<'a> {
    fn new(world: &'a World, w: usize) -> Self {
        let mut fps = BTreeMap::new();
        for (t, st) in world.live[w].iter().enumerate() {
            fps.entry(graph_fp(st)).or_insert(t);
        }
        let n = world.live[w].len() - 1;
        let commits = (0..n)
            .map(|t| world.provenance.entry(world.wls[w], wt(t as u64)).expect("entry").expected.commit_hash)
            .collect();
        let direct = (0..=n)
            .map(|t| world.provenance.replay_worldline_state_at(world.wls[w], &world.live[w][0], wt(t as u64)).ok())
            .collect();
        Ctx { w, world, fps, commits, unknown: BTreeMap::new(), direct, scratch: std::cell::RefCell::new(world.provenance.clone()) }
    }
    fn n(&self) -> usize {
        self.world.live[self.w].len() - 1
    }
    fn live(&self, t: usize) -> &WorldlineState {
        &self.world.live[self.w][t]
    }
    fn wl(&self) -> WorldlineId {
        self.world.wls[self.w]
    }
    /// graph id: live tick index, or `u<fp>` for a graph that is no live state
    fn sid(&mut self, st: &WorldlineState) -> String {
        let fp = graph_fp(st);
        match self.fps.get(&fp) {
            Some(t) => format!("{t}"),
            None => {
                self.unknown.entry(fp.clone()).or_insert_with(|| dump_str(&dump_store(st)));
                format!("u{fp}")
            }
        }
    }
    /// last snapshot label: 0 = none, i+1 = commit hash of entry i, x = anything else
    fn last_label(&self, st: &WorldlineState) -> String {
        match st.last_snapshot() {
            None => "0".into(),
            Some(s) => match self.commits.iter().position(|c| *c == s.hash) {
                Some(i) => format!("{}", i + 1),
                None => "x".into(),
            },
        }
    }
    /// last materialization label: 0 = empty, i+1 = exactly the outputs recorded by entry i, x = anything else
    fn mat_label(&self, st: &WorldlineState) -> String {
        if st.last_materialization().is_empty() {
            return "0".into();
        }
        let have: Vec<(warp_core::TypeId, Vec<u8>)> =
            st.last_materialization().iter().map(|c| (c.channel, c.data.clone())).collect();
        for i in 0..self.n() {
            if let Ok(e) = self.world.provenance.entry(self.wl(), wt(i as u64)) {
                if !e.outputs.is_empty() && e.outputs == have {
                    return format!("{}", i + 1);
                }
            }
        }
        "x".into()
    }
    fn cursor_str(&mut self, c: &PlaybackCursor) -> String {
        let st = c.materialized_state().clone();
        format!(
            "t{},s{},h{},l{},o{},m{}",
            c.current_tick().as_u64(),
            self.sid(&st),
            st.tick_history().len(),
            self.last_label(&st),
            self.mat_label(&st),
            mode_str(c.mode)
        )
    }
    /// P5 oracle for one cursor position reached by an Ok operation on an untampered store
    fn oracle_state(&self, what: &str, tick: u64, st: &WorldlineState, flags: &mut Vec<String>) {
        let t = tick as usize;
        if t > self.n() {
            flags.push(format!("{what}:tick-beyond-history"));
            return;
        }
        let lv = self.live(t);
        if st.state_root() != lv.state_root() {
            flags.push(format!("{what}:state-root-differs-from-live"));
        } else if graph_fp(st) != graph_fp(lv) {
            flags.push(format!("{what}:graph-differs-from-live-same-root"));
        }
        if hist_str(st) != hist_str(lv) {
            flags.push(format!("{what}:replay-metadata-differs-from-live"));
        }
        if mat_str(st) != mat_str(lv) {
            flags.push(format!("{what}:last-materialization-differs-from-recorded"));
        }
        if st.current_tick().as_u64() != tick {
            flags.push(format!("{what}:state-tick-differs-from-cursor-tick"));
        }
        // path independence proper: equal to a fresh direct replay of ticks 0..t from U0 (untampered store)
        match &self.direct[t] {
            Some(d) => {
                if st.state_root() != d.state_root() || graph_fp(st) != graph_fp(d) {
                    flags.push(format!("{what}:state-differs-from-direct-replay"));
                }
                if hist_str(st) != hist_str(d) {
                    flags.push(format!("{what}:replay-metadata-differs-from-direct-replay"));
                }
                if mat_str(st) != mat_str(d) {
                    flags.push(format!("{what}:last-materialization-differs-from-direct-replay"));
                }
            }
            None => flags.push(format!("{what}:direct-replay-unavailable")),
        }
        // tx counter, tick history, last snapshot and last materialization as add_checkpoint reads them
        if let Err(e) = self.scratch.borrow_mut().add_checkpoint(self.wl(), ReplayCheckpoint::from_state(st)) {
            flags.push(format!("{what}:reached-state-rejected-as-checkpoint:{}", hist_err(&e)));
        }
    }
}

fn checkpoint_of(ctx: &Ctx, store: &ProvenanceService, t: u64, src: char) -> Option<ReplayCheckpoint> {
    let base = ctx.live(0);
    match src {
        'L' => Some(ReplayCheckpoint::from_state(ctx.live(t as usize))),
        'R' => store.replay_worldline_state_at(ctx.wl(), base, wt(t)).ok().map(|s| ReplayCheckpoint::from_state(&s)),
        _ => {
            let mut c = PlaybackCursor::new(CursorId([9; 32]), ctx.wl(), base.root().warp_id, CursorRole::Reader, base, wt(u64::MAX));
            c.seek_to(wt(t), store, base).ok()?;
            Some(ReplayCheckpoint::from_state(c.materialized_state()))
        }
    }
}

fn place_cps(ctx: &Ctx, store: &mut ProvenanceService, cps: &str, res: &mut Vec<String>) {
    for it in items_c(cps) {
        let src = it.chars().last().unwrap_or('L');
        let t: u64 = it[..it.len() - 1].parse().unwrap_or(0);
        if t as usize > ctx.n() {
            res.push("skip".into());
            continue;
        }
        match checkpoint_of(ctx, store, t, src) {
            Some(cp) => match store.add_checkpoint(ctx.wl(), cp) {
                Ok(()) => res.push("ok".into()),
                Err(e) => res.push(hist_err(&e)),
            },
            None => res.push("nosrc".into()),
        }
    }
}

fn items_c(s: &str) -> Vec<&str> {
    if s.is_empty() || s == "-" {
        Vec::new()
    } else {
        s.split(',').collect()
    }
}

fn parse_tamper(s: &str) -> Option<Tamper> {
    if s == "-" || s.is_empty() {
        return None;
    }
    let (k, p) = s.split_once('@')?;
    Some(Tamper { kind: k.to_string(), pos: p.parse().ok()? })
}

// ------------------------------------------------------------------------------------------- scenarios

fn scen_ops(world: &World, f: &[&str], flags: &mut Vec<String>) -> String {
    let w: usize = f[1].parse().unwrap_or(0);
    let mut ctx = Ctx::new(world, w);
    let role = if f[2] == "W" { CursorRole::Writer } else { CursorRole::Reader };
    let pin: u64 = f[3].parse().unwrap_or(0);
    let mut store = world.provenance.clone();
    let mut res = Vec::new();
    place_cps(&ctx, &mut store, f[4], &mut res);
    let tamper = parse_tamper(f[5]);
    let clean = tamper.is_none();
    let base = ctx.live(0).clone();
    let mut cur = PlaybackCursor::new(CursorId([7; 32]), ctx.wl(), base.root().warp_id, role, &base, wt(pin));
    let mut out = vec![format!("cp:{}", if res.is_empty() { "-".into() } else { res.join(",") })];
    for (i, op) in items_c(f[6]).iter().enumerate() {
        let kind = op.chars().next().unwrap_or(' ');
        let rest = &op[1..];
        let r = match kind {
            's' => {
                let t: u64 = rest.parse().unwrap_or(0);
                let ts = TamperStore { inner: &store, tamper: tamper.clone() };
                match catch(std::panic::AssertUnwindSafe(|| cur.seek_to(wt(t), &ts, &base)))
                    .unwrap_or(Err(SeekError::HistoryUnavailable { tick: wt(u64::MAX) }))
                {
                    Ok(()) => {
                        if clean {
                            if cur.current_tick().as_u64() != t {
                                flags.push(format!("op{i}:seek-ok-but-tick-not-target"));
                            }
                            ctx.oracle_state(&format!("op{i}:seek"), t, cur.materialized_state(), flags);
                        }
                        "ok".to_string()
                    }
                    Err(e) => seek_err(&e),
                }
            }
            'x' => {
                let ts = TamperStore { inner: &store, tamper: tamper.clone() };
                match cur.step(&ts, &base) {
                    Ok(sr) => {
                        if clean {
                            let t = cur.current_tick().as_u64();
                            ctx.oracle_state(&format!("op{i}:step"), t, cur.materialized_state(), flags);
                        }
                        match sr {
                            StepResult::NoOp => "N".into(),
                            StepResult::Advanced => "A".into(),
                            StepResult::Seeked => "S".into(),
                            StepResult::ReachedFrontier => "F".into(),
                        }
                    }
                    Err(e) => seek_err(&e),
                }
            }
            'm' => {
                cur.mode = match rest.chars().next().unwrap_or('P') {
                    'L' => PlaybackMode::Play,
                    'F' => PlaybackMode::StepForward,
                    'B' => PlaybackMode::StepBack,
                    'S' => {
                        let then = if rest.ends_with('p') { SeekThen::Play } else { SeekThen::Pause };
                        let t: u64 = rest[1..rest.len() - 1].parse().unwrap_or(0);
                        PlaybackMode::Seek { target: wt(t), then }
                    }
                    _ => PlaybackMode::Paused,
                };
                "u".into()
            }
            'p' => {
                cur.pin_max_tick = wt(rest.parse().unwrap_or(0));
                "u".into()
            }
            'r' => {
                cur.role = if rest == "W" { CursorRole::Writer } else { CursorRole::Reader };
                "u".into()
            }
            'c' => match store.checkpoint(ctx.wl(), cur.materialized_state()) {
                Ok(_) => "ok".into(),
                Err(e) => hist_err(&e),
            },
            'a' => {
                let (t, src) = rest.split_once('.').unwrap_or(("0", "0"));
                let t: u64 = t.parse().unwrap_or(0);
                let src: usize = src.parse::<usize>().unwrap_or(0).min(ctx.n());
                // the live state of tick `src` (ingress ledger cleared as from_state does) relabelled as tick `t`
                let mut cp = ReplayCheckpoint::from_state(ctx.live(src));
                cp.checkpoint = CheckpointRef { worldline_tick: wt(t), state_hash: cp.state.state_root() };
                match store.add_checkpoint(ctx.wl(), cp) {
                    Ok(()) => {
                        if src as u64 != t {
                            flags.push(format!("op{i}:foreign-checkpoint-of-tick-{src}-accepted-at-{t}"));
                        }
                        "ok".into()
                    }
                    Err(e) => hist_err(&e),
                }
            }
            _ => "?".into(),
        };
        out.push(format!("{r}/{}", ctx.cursor_str(&cur)));
        // (since /repo 7e0a2d4 a rejected seek leaves tick and state untouched, so tampered runs continue after errors)
    }
    let unk: Vec<String> = ctx.unknown.iter().map(|(k, v)| format!("{k}:{v}")).collect();
    format!("{}~{}", out.join(";"), if unk.is_empty() { "-".into() } else { unk.join("+") })
}

/// every (checkpoint subset, start tick, target tick) triple: fresh cursor, seek start, seek target
fn scen_sweep(world: &World, f: &[&str], flags: &mut Vec<String>) -> String {
    let w: usize = f[1].parse().unwrap_or(0);
    let mut ctx = Ctx::new(world, w);
    let n = ctx.n();
    if n > 6 {
        return "toolong".into();
    }
    let tamper = parse_tamper(f[2]);
    let clean = tamper.is_none();
    let base = ctx.live(0).clone();
    let mut out = Vec::new();
    let mut replays = 0usize;
    for mask in 0u32..(1u32 << (n + 1)) {
        let mut store = world.provenance.clone();
        // insertion order alternates (ascending / descending): add_checkpoint must keep the vector sorted
        let order: Vec<usize> = if mask % 2 == 0 { (0..=n).collect() } else { (0..=n).rev().collect() };
        for t in order {
            if mask & (1 << t) != 0 {
                // alternate the source of the checkpoint state
                let src = ['L', 'R', 'C'][(t + mask as usize) % 3];
                let cp = checkpoint_of(&ctx, &world.provenance, t as u64, src).expect("checkpoint source");
                if let Err(e) = store.add_checkpoint(ctx.wl(), cp) {
                    flags.push(format!("sweep:valid-checkpoint-rejected@{t}:{src}:{}", hist_err(&e)));
                }
            }
        }
        let ts = TamperStore { inner: &store, tamper: tamper.clone() };
        if clean {
            // ProvenanceService::replay_worldline_state_at through this checkpoint subset
            for t in 0..=n {
                match store.replay_worldline_state_at(ctx.wl(), &base, wt(t as u64)) {
                    Ok(st) => ctx.oracle_state(&format!("sweep:m{mask}:replay_at{t}"), t as u64, &st, flags),
                    Err(e) => flags.push(format!("sweep:m{mask}:replay_at{t}:{}", replay_err(&e))),
                }
                replays += 1;
            }
        }
        for start in 0..=n {
            for target in 0..=n {
                let mut cur =
                    PlaybackCursor::new(CursorId([7; 32]), ctx.wl(), base.root().warp_id, CursorRole::Reader, &base, wt(n as u64));
                // the cursor is positioned on the untampered store; only the second seek sees the tamper
                let r1 = match cur.seek_to(wt(start as u64), &store, &base) {
                    Ok(()) => "ok".to_string(),
                    Err(e) => seek_err(&e),
                };
                if r1 == "ok" {
                    ctx.oracle_state(&format!("sweep:m{mask}:s{start}"), start as u64, cur.materialized_state(), flags);
                } else {
                    flags.push(format!("sweep:m{mask}:s{start}:positioning-seek-failed:{r1}"));
                }
                let r2 = match catch(std::panic::AssertUnwindSafe(|| cur.seek_to(wt(target as u64), &ts, &base))) {
                    Ok(Ok(())) => "ok".to_string(),
                    Ok(Err(e)) => seek_err(&e),
                    Err(_) => "EPanic".to_string(),
                };
                if clean {
                    if r1 != "ok" || r2 != "ok" {
                        flags.push(format!("sweep:m{mask}:s{start}:t{target}:seek-failed-on-untampered-history:{r1}:{r2}"));
                    } else {
                        ctx.oracle_state(
                            &format!("sweep:m{mask}:s{start}:t{target}"),
                            target as u64,
                            cur.materialized_state(),
                            flags,
                        );
                    }
                }
                let st = cur.materialized_state().clone();
                out.push(format!(
                    "{r1},{r2},{},{},{},{},{}",
                    cur.current_tick().as_u64(),
                    ctx.sid(&st),
                    st.tick_history().len(),
                    ctx.last_label(&st),
                    ctx.mat_label(&st)
                ));
            }
        }
    }
    let unk: Vec<String> = ctx.unknown.iter().map(|(k, v)| format!("{k}:{v}")).collect();
    format!("{}~{}~{}", out.join(";"), if unk.is_empty() { "-".into() } else { unk.join("+") }, replays)
}

fn replay_err(e: &ReplayError) -> String {
    format!("{e:?}").chars().take(28).collect::<String>().replace(' ', "_")
}

/// forks at every tick, through ProvenanceService::fork and LocalProvenanceStore::fork
fn scen_fork(world: &World, f: &[&str], flags: &mut Vec<String>) -> String {
    let w: usize = f[1].parse().unwrap_or(0);
    let mut ctx = Ctx::new(world, w);
    let n = ctx.n();
    let base = ctx.live(0).clone();
    let mut store = world.provenance.clone();
    let mut res = Vec::new();
    place_cps(&ctx, &mut store, f[2], &mut res);
    let cp_ticks: Vec<u64> = (0..=n as u64)
        .filter(|t| {
            store
                .checkpoint_before(ctx.wl(), wt(t + 1))
                .is_some_and(|c| c.worldline_tick.as_u64() == *t)
        })
        .collect();
    let mut out = vec![format!("cp:{}", if res.is_empty() { "-".into() } else { res.join(",") })];
    // a mirror LocalProvenanceStore built by re-appending the real entries
    let mut local = LocalProvenanceStore::new();
    let boundary = ProvenanceStore::initial_boundary_hash(&store, ctx.wl()).expect("boundary");
    local
        .register_worldline_with_boundary(ctx.wl(), base.root().warp_id, boundary)
        .expect("register local");
    for t in 0..n {
        let e = store.entry(ctx.wl(), wt(t as u64)).expect("entry");
        if let Err(e) = local.append_local_commit(e) {
            flags.push(format!("fork:mirror-append-rejected@{t}:{}", hist_err(&e)));
        }
    }
    for t in &cp_ticks {
        if let Some(cp) = store.checkpoint_state_before(ctx.wl(), wt(t + 1)) {
            if let Err(e) = local.add_checkpoint(ctx.wl(), cp) {
                flags.push(format!("fork:mirror-checkpoint-rejected@{t}:{}", hist_err(&e)));
            }
        }
    }
    // fork tick n is out of range (entries 0..n-1)
    for k in 0..=n {
        let child = wl(100 + k as u8);
        let mut svc = store.clone();
        let r = svc.fork(ctx.wl(), wt(k as u64), child);
        let mut loc = local.clone();
        let rl = loc.fork(ctx.wl(), wt(k as u64), child);
        let tag = match (&r, &rl) {
            (Ok(()), Ok(())) => "ok".to_string(),
            (Err(e), Err(e2)) if hist_err(e) == hist_err(e2) => hist_err(e),
            _ => {
                flags.push(format!("fork@{k}:service-and-local-store-disagree"));
                "mixed".into()
            }
        };
        if k >= n {
            if r.is_ok() {
                flags.push(format!("fork@{k}:fork-beyond-history-accepted"));
            }
            out.push(format!("k{k}:{tag}"));
            continue;
        }
        if r.is_err() {
            flags.push(format!("fork@{k}:rejected:{tag}"));
            out.push(format!("k{k}:{tag}"));
            continue;
        }
        let flen = svc.len(child).unwrap_or(0);
        // copied checkpoints: exactly those with tick <= k+1
        let copied: Vec<u64> = (0..=n as u64 + 1)
            .filter(|t| svc.checkpoint_before(child, wt(t + 1)).is_some_and(|c| c.worldline_tick.as_u64() == *t))
            .collect();
        let expect: Vec<u64> = cp_ticks.iter().copied().filter(|t| *t <= k as u64 + 1).collect();
        if copied != expect {
            flags.push(format!("fork@{k}:copied-checkpoints-{copied:?}-expected-{expect:?}"));
        }
        if flen != k as u64 + 1 {
            flags.push(format!("fork@{k}:fork-length-{flen}"));
        }
        let mut line = Vec::new();
        for t in 0..=n as u64 + 1 {
            let a = svc.replay_worldline_state_at(child, &base, wt(t));
            let b = warp_core_replay_local(&loc, child, &base, t);
            match (a, b) {
                (Ok(sa), Some(sb)) => {
                    if t > k as u64 + 1 {
                        flags.push(format!("fork@{k}:replay-beyond-fork-tick-{t}-succeeded"));
                    } else {
                        ctx.oracle_state(&format!("fork@{k}:replay_at{t}"), t, &sa, flags);
                        ctx.oracle_state(&format!("fork@{k}:local-cursor{t}"), t, &sb, flags);
                    }
                    line.push(format!("{}", ctx.sid(&sa)));
                }
                (Err(_), None) => {
                    if t <= k as u64 + 1 {
                        flags.push(format!("fork@{k}:replay-at-{t}-failed-on-fork"));
                    }
                    line.push("E".into());
                }
                _ => {
                    flags.push(format!("fork@{k}:service-replay-and-local-cursor-disagree@{t}"));
                    line.push("X".into());
                }
            }
        }
        // a cursor walking the fork backward and forward through the copied checkpoints
        let mut cur = PlaybackCursor::new(CursorId([8; 32]), child, base.root().warp_id, CursorRole::Reader, &base, wt(u64::MAX));
        for t in (0..=k as u64 + 1).rev().chain(0..=k as u64 + 1) {
            match cur.seek_to(wt(t), &svc, &base) {
                Ok(()) => ctx.oracle_state(&format!("fork@{k}:cursor{t}"), t, cur.materialized_state(), flags),
                Err(e) => flags.push(format!("fork@{k}:cursor-seek-{t}-failed:{}", seek_err(&e))),
            }
        }
        out.push(format!("k{k}:{tag}:{}:{}", flen, line.join(",")));
    }
    out.join(";")
}

fn retention_posture() -> RetentionPosture {
    let origin_id = OriginId::from_bytes([0x21; 32]);
    let authority = AuthorityDomainRef::new(origin_id, AuthorityDomainId::from_bytes([0x22; 32]));
    RetentionPosture::new(
        CausalPosture::AuthorOnly,
        PostureDerivation::ExplicitIntent,
        CausalAuthority::new(
            origin_id,
            ActorId::from_bytes([0x23; 32]),
            authority,
            AuthorityBinding::LocalUnbound { origin: origin_id },
            SealStrength::Advisory,
        )
        .expect("authority"),
        RetentionContractId::from_bytes([0x24; 32]),
        None,
    )
    .expect("retention posture")
}

/// `D:<wl>:<k>:<cps>:<prog2>`: fork a strand at tick k through WorldlineRuntime::fork_strand, let child (index 9) and
/// parent (index 0) diverge by further super_ticks, then replay / seek both.  Oracle only.
fn scen_diverge(nwl: usize, prog: &str, f: &[&str], flags: &mut Vec<String>) -> String {
    let w: usize = f[1].parse().unwrap_or(0);
    let k: u64 = f[2].parse().unwrap_or(0);
    let mut world = build_world(nwl, prog, 0);
    let n = world.live[w].len() - 1;
    let base = world.live[w][0].clone();
    let parent = world.wls[w];
    {
        let ctx = Ctx::new(&world, w);
        let mut store = world.provenance.clone();
        let mut res = Vec::new();
        place_cps(&ctx, &mut store, f[3], &mut res);
        world.provenance = store;
    }
    let child = wl(50);
    let child_head = WriterHeadKey { worldline_id: child, head_id: make_head_id("child-default") };
    let request = ForkStrandRequest {
        strand_id: make_strand_id("vf-strand"),
        source_lane_id: parent,
        fork_tick: wt(k),
        child_worldline_id: child,
        writer_heads: vec![WriterHead::with_routing(child_head, PlaybackMode::Play, InboxPolicy::AcceptAll, None, true)],
        retention_posture: retention_posture(),
    };
    let r = world.runtime.fork_strand(&mut world.provenance, request);
    if k as usize >= n {
        if r.is_ok() {
            flags.push(format!("diverge:fork_strand-beyond-history-accepted@{k}"));
        }
        return format!("D:rejected:{}", r.is_err());
    }
    if let Err(e) = r {
        flags.push(format!("diverge:fork_strand-failed@{k}:{}", format!("{e:?}").chars().take(60).collect::<String>()));
        return "D:forkerr".into();
    }
    // expected states of the child: the source prefix, then whatever the child commits live
    let mut child_live: Vec<WorldlineState> = world.live[w][..=(k as usize + 1)].to_vec();
    let mut parent_live: Vec<WorldlineState> = world.live[w].clone();
    {
        let st = world.runtime.worldlines().get(&child).expect("child frontier").state();
        if st.state_root() != child_live[k as usize + 1].state_root() || graph_fp(st) != graph_fp(&child_live[k as usize + 1]) {
            flags.push(format!("diverge:child-frontier-differs-from-source-at-fork@{k}"));
        }
        if meta_str(st) != meta_str(&child_live[k as usize + 1]) {
            flags.push(format!("diverge:child-frontier-metadata-differs-from-source-at-fork@{k}"));
        }
    }
    for tick in f[4].split('/') {
        if tick == "-" || tick.is_empty() {
            continue;
        }
        for intent in tick.split(',') {
            let Some((wi, hexprog)) = intent.split_once('.') else { continue };
            let target = if wi == "9" { child } else { parent };
            let mut bytes = b"VF".to_vec();
            bytes.extend(unhex(hexprog));
            let env = IngressEnvelope::local_intent(
                IngressTarget::DefaultWriter { worldline_id: target },
                make_intent_kind("vf/prog"),
                bytes,
            );
            let _ = world.runtime.ingest(env);
        }
        match SchedulerCoordinator::super_tick(&mut world.runtime, &mut world.provenance, &mut world.engine) {
            Ok(records) => {
                for rec in records {
                    let id = rec.head_key.worldline_id;
                    let st = world.runtime.worldlines().get(&id).expect("frontier").state().clone();
                    if id == child {
                        child_live.push(st);
                    } else if id == parent {
                        parent_live.push(st);
                    }
                }
            }
            Err(_) => break,
        }
    }
    let prov = &world.provenance;
    let check = |what: &str, id: WorldlineId, lives: &[WorldlineState], flags: &mut Vec<String>| {
        let len = prov.len(id).unwrap_or(0) as usize;
        if len + 1 != lives.len() {
            flags.push(format!("diverge:{what}:history-length-{len}-live-{}", lives.len() - 1));
            return;
        }
        let cmp = |tag: &str, t: usize, st: &WorldlineState, flags: &mut Vec<String>| {
            if st.state_root() != lives[t].state_root() {
                flags.push(format!("diverge:{what}:{tag}@{t}:state-root-differs-from-live"));
            } else if graph_fp(st) != graph_fp(&lives[t]) {
                flags.push(format!("diverge:{what}:{tag}@{t}:graph-differs-from-live-same-root"));
            }
            if meta_str(st) != meta_str(&lives[t]) {
                flags.push(format!("diverge:{what}:{tag}@{t}:replay-metadata-differs-from-live"));
            }
        };
        for t in 0..=len {
            match prov.replay_worldline_state_at(id, &base, wt(t as u64)) {
                Ok(st) => cmp("replay_at", t, &st, flags),
                Err(e) => flags.push(format!("diverge:{what}:replay_at@{t}:failed:{}", replay_err(&e))),
            }
        }
        let mut cur = PlaybackCursor::new(CursorId([5; 32]), id, base.root().warp_id, CursorRole::Reader, &base, wt(u64::MAX));
        let mut order: Vec<usize> = (0..=len).rev().collect();
        order.extend(0..=len);
        order.extend((0..=len).filter(|t| t % 2 == 0));
        order.extend((0..=len).rev().filter(|t| t % 3 == 1));
        for t in order {
            match cur.seek_to(wt(t as u64), prov, &base) {
                Ok(()) => cmp("cursor", t, cur.materialized_state(), flags),
                Err(e) => flags.push(format!("diverge:{what}:cursor-seek@{t}:failed:{}", seek_err(&e))),
            }
        }
    };
    check("child", child, &child_live, flags);
    check("parent", parent, &parent_live, flags);
    // a checkpoint on the diverged child beyond the fork, then seek across it
    let clen = child_live.len() - 1;
    let mut prov2 = world.provenance.clone();
    if clen > k as usize + 1 {
        if let Err(e) = prov2.checkpoint(child, &ReplayCheckpoint::from_state(&child_live[clen]).state) {
            flags.push(format!("diverge:child-checkpoint-rejected@{clen}:{}", hist_err(&e)));
        }
        let mut cur = PlaybackCursor::new(CursorId([4; 32]), child, base.root().warp_id, CursorRole::Reader, &base, wt(u64::MAX));
        for t in [clen, 0, clen, k as usize + 1, clen] {
            match cur.seek_to(wt(t as u64), &prov2, &base) {
                Ok(()) => {
                    if cur.current_state_root() != child_live[t].state_root() || graph_fp(cur.materialized_state()) != graph_fp(&child_live[t]) {
                        flags.push(format!("diverge:child:cursor-after-checkpoint@{t}:state-differs-from-live"));
                    }
                }
                Err(e) => flags.push(format!("diverge:child:cursor-after-checkpoint@{t}:failed:{}", seek_err(&e))),
            }
        }
    }
    format!("D:ok:{}:{}", child_live.len() - 1, parent_live.len() - 1)
}

/// `G:<wl>`: adversarial probe (informational, never an oracle failure): a tick-0 checkpoint whose graph carries an
/// extra UNREACHABLE node has the same state root as U0; is it accepted, and does a restore through it surface?
fn scen_garbage(world: &World, f: &[&str]) -> String {
    let w: usize = f[1].parse().unwrap_or(0);
    let ctx = Ctx::new(world, w);
    let base = ctx.live(0).clone();
    let warp = base.root().warp_id;
    let Some(store0) = base.store(&warp) else { return "G:nostore".into() };
    let mut store = store0.clone();
    store.insert_node(make_node_id("vf/unreachable-garbage"), NodeRecord { ty: make_type_id("vf/garbage") });
    let Ok(forged) = WorldlineState::from_root_store(store, base.root().local_id) else { return "G:noforge".into() };
    if forged.state_root() != base.state_root() {
        return "G:root-differs".into();
    }
    let mut prov = world.provenance.clone();
    match prov.add_checkpoint(ctx.wl(), ReplayCheckpoint::from_state(&forged)) {
        Err(e) => format!("G:rejected:{}", hist_err(&e)),
        Ok(()) => {
            let n = ctx.n();
            let t = n.min(1) as u64;
            match prov.replay_worldline_state_at(ctx.wl(), &base, wt(t)) {
                Ok(st) => {
                    let same_root = st.state_root() == ctx.live(t as usize).state_root();
                    let same_graph = graph_fp(&st) == graph_fp(ctx.live(t as usize));
                    format!("G:accepted:replay{t}:root-{}:graph-{}", if same_root { "same" } else { "differs" }, if same_graph { "same" } else { "differs" })
                }
                Err(e) => format!("G:accepted:replay{t}:err:{}", replay_err(&e)),
            }
        }
    }
}

/// replay on a LocalProvenanceStore goes through a cursor (the replay function itself is crate-private)
fn warp_core_replay_local(store: &LocalProvenanceStore, w: WorldlineId, base: &WorldlineState, t: u64) -> Option<WorldlineState> {
    let mut c = PlaybackCursor::new(CursorId([6; 32]), w, base.root().warp_id, CursorRole::Reader, base, wt(u64::MAX));
    // force the restore path for t > 0 by first visiting the end
    let len = store.len(w).ok()?;
    let _ = c.seek_to(wt(len), store, base);
    c.seek_to(wt(t), store, base).ok()?;
    Some(c.materialized_state().clone())
}

fn facts(world: &World, w: usize) -> String {
    // per worldline: live dumps per tick, roots, tamper constants
    let dumps: Vec<String> = world.live[w].iter().map(|s| dump_str(&dump_store(s))).collect();
    let roots: Vec<String> = world.live[w].iter().map(|s| h8(&s.state_root())).collect();
    format!(
        "n={}^{}^{}^n{}={}",
        world.live[w].len() - 1,
        dumps.join("^"),
        roots.join(","),
        h8(&tamper_x().0),
        h8(&make_type_id("vf/tamper").0)
    )
}

fn main() {
    for line in read_cases() {
        let m = kv(&line);
        let id = m.get("id").cloned().unwrap_or_default();
        let nwl: usize = m.get("wls").and_then(|s| s.parse().ok()).unwrap_or(1);
        let prog = m.get("prog").cloned().unwrap_or_default();
        let scen = m.get("scen").cloned().unwrap_or_default();
        let outs: u64 = m.get("outs").and_then(|s| u64::from_str_radix(s, 16).ok()).unwrap_or(0);
        let res = catch(move || {
            let world = build_world(nwl, &prog, outs);
            let mut flags: Vec<String> = world.flags.iter().filter(|f| !f.starts_with("NOTE")).cloned().collect();
            let notes: Vec<String> = world.flags.iter().filter(|f| f.starts_with("NOTE")).cloned().collect();
            let fx: Vec<String> = (0..nwl).map(|w| facts(&world, w)).collect();
            let mut outs = Vec::new();
            for s in scen.split('|') {
                if s.is_empty() || s == "-" {
                    continue;
                }
                let f: Vec<&str> = s.split(':').collect();
                let w: usize = f.get(1).and_then(|x| x.parse().ok()).unwrap_or(0);
                if w >= nwl {
                    outs.push("nowl".to_string());
                    continue;
                }
                let mut fl = Vec::new();
                let r = match f[0] {
                    "O" if f.len() >= 7 => scen_ops(&world, &f, &mut fl),
                    "S" if f.len() >= 3 => scen_sweep(&world, &f, &mut fl),
                    "F" if f.len() >= 3 => scen_fork(&world, &f, &mut fl),
                    "D" if f.len() >= 5 => scen_diverge(nwl, &prog, &f, &mut fl),
                    "G" if f.len() >= 2 => scen_garbage(&world, &f),
                    _ => "badscen".into(),
                };
                let idx = outs.len();
                flags.extend(fl.into_iter().map(|x| format!("scen{idx}:{x}")));
                outs.push(r);
            }
            (fx, outs, flags, notes)
        });
        match res {
            Ok((fx, outs, mut flags, notes)) => {
                flags.truncate(6);
                let orc = if flags.is_empty() { "ok".to_string() } else { format!("FAIL:{}", flags.join(",").replace(' ', "_")) };
                println!(
                    "id={id} facts={} out={} notes={} oracle={orc}",
                    fx.join("|"),
                    if outs.is_empty() { "-".into() } else { outs.join("|") },
                    if notes.is_empty() { "-".into() } else { notes.join(",").replace(' ', "_") }
                );
            }
            Err(p) => println!("id={id} facts=- out=- notes=- oracle=FAIL:panic:{}", p.replace(' ', "_").chars().take(160).collect::<String>()),
        }
    }
}
