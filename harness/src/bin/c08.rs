//! C08 harness: content-addressed, idempotent, order-free ingress.
//!
//! Runs the REAL `IngressEnvelope` / `HeadInbox` / `WorldlineRuntime::ingest` /
//! `SchedulerCoordinator::super_tick` on a scripted case and prints one canonical line.
//!
//! case (space separated key=value tokens, ids in hex without leading zeros):
//!   mode=rt|ib|restart
//!   worlds=<wl>;<wl>
//!   heads=<wl>:<head>:<namehex|->:<0|1 default>:<policy>;...     policy = all | kf[.<kind>]* | b.<n>
//!   intents=<kind>:<byteshex|->:<parents|->:<target>;...
//!        parents = <p>+<p>, p = <0|1 role>.<wl>.<tick>.<gtick>.<commit>.<sub>.<ticket>.<rcd>
//!        target  = d.<wl> | n.<wl>.<namehex> | x.<wl>.<head>
//!   ops=s<i>,p,e<h>.<0|1>,q<h>.<policy>      (submit intent i / pass (ib: admit) / eligibility / set policy (ib only))
//!   perms=all|<n>   seed=<u64>
//! output:
//!   ids=<id>,.. reg=<o|w|h|d|i>.. outs=<tok>|.. pend=<head>=<id>@<target>+..;.. comm=<head>=<id>+..;..
//!   oracle=<ok|FAIL:sig,..> variants=<n> f11=<n> commits=<n>
use echo_verif_harness::*;
use std::collections::{BTreeMap, BTreeSet};
use warp_core::{
    OpticAdmissionTicket, OpticArtifactHandle, ProvenanceStore, ReceiptCorrelationPersistenceRecord,
    TicketedRuntimeIngressAuthority, TicketedRuntimeIngressDisposition, IntentSubmissionDisposition,
    OPTIC_ADMISSION_TICKET_KIND, OPTIC_ARTIFACT_HANDLE_KIND, ProvenanceEntry,
    make_node_id, make_type_id, AtomPayload, AttachmentKey, AttachmentValue, CausalTickReceiptRef,
    ConflictPolicy, Engine, EngineBuilder, Footprint, GlobalTick, GraphStore, GraphView,
    HeadEligibility, HeadId, HeadInbox, InboxAddress, InboxPolicy, IngressCausalParent,
    IngressDisposition, IngressEnvelope, IngressTarget, IntentKind, NodeId, NodeKey,
    NodeRecord, PatternGraph, PlaybackMode, ProvenanceService, RewriteRule, RuntimeError,
    SchedulerCoordinator, SchedulerKind, TickDelta, TickReceiptDisposition, WarpOp, WorldlineId,
    WorldlineRuntime, WorldlineState, WorldlineTick, WriterHead, WriterHeadKey,
};

fn sh(b: &[u8]) -> String {
    let s = hex::encode(b);
    let t = s.trim_start_matches('0');
    if t.is_empty() {
        "0".into()
    } else {
        t.to_string()
    }
}
fn u64hex(s: &str) -> u64 {
    u64::from_str_radix(s, 16).unwrap_or_else(|e| panic!("bad u64 hex {s}: {e}"))
}

#[derive(Clone, Debug)]
enum Pol {
    All,
    Kf(Vec<[u8; 32]>),
    B(u32),
}
impl Pol {
    fn parse(s: &str) -> Pol {
        let f: Vec<&str> = s.split('.').collect();
        match f[0] {
            "all" => Pol::All,
            "kf" => Pol::Kf(f[1..].iter().map(|k| hex32(k)).collect()),
            "b" => Pol::B(f[1].parse().unwrap()),
            _ => panic!("policy {s}"),
        }
    }
    fn real(&self) -> InboxPolicy {
        match self {
            Pol::All => InboxPolicy::AcceptAll,
            Pol::Kf(k) => InboxPolicy::KindFilter(k.iter().map(|h| IntentKind::from_hash(*h)).collect()),
            Pol::B(n) => InboxPolicy::Budgeted { max_per_tick: *n },
        }
    }
}

#[derive(Clone, Debug)]
struct HeadSpec {
    key: WriterHeadKey,
    name: Option<String>,
    default: bool,
    pol: Pol,
}

#[derive(Clone, Debug)]
struct IntentSpec {
    kind: [u8; 32],
    bytes: Vec<u8>,
    parents: Vec<IngressCausalParent>,
    target: IngressTarget,
}
impl IntentSpec {
    fn envelope(&self) -> IngressEnvelope {
        IngressEnvelope::local_intent_with_causal_parents(
            self.target.clone(),
            IntentKind::from_hash(self.kind),
            self.bytes.clone(),
            self.parents.clone(),
        )
    }
}

#[derive(Clone, Debug)]
enum Op {
    Submit(usize),
    Pass,
    Elig(usize, bool),
    SetPol(usize, Pol),
}

fn wlid(s: &str) -> WorldlineId {
    WorldlineId::from_bytes(hex32(s))
}
fn hkey(wl: &str, hd: &str) -> WriterHeadKey {
    WriterHeadKey { worldline_id: wlid(wl), head_id: HeadId::from_bytes(hex32(hd)) }
}
fn head_str(k: &WriterHeadKey) -> String {
    format!("{}.{}", sh(k.worldline_id.as_bytes()), sh(k.head_id.as_bytes()))
}
fn target_str(t: &IngressTarget) -> String {
    match t {
        IngressTarget::DefaultWriter { worldline_id } => format!("d.{}", sh(worldline_id.as_bytes())),
        IngressTarget::InboxAddress { worldline_id, inbox } => {
            format!("n.{}.{}", sh(worldline_id.as_bytes()), tohex(inbox.0.as_bytes()))
        }
        IngressTarget::ExactHead { key } => format!("x.{}", head_str(key)),
    }
}
fn parse_target(s: &str) -> IngressTarget {
    let f: Vec<&str> = s.split('.').collect();
    match f[0] {
        "d" => IngressTarget::DefaultWriter { worldline_id: wlid(f[1]) },
        "n" => IngressTarget::InboxAddress {
            worldline_id: wlid(f[1]),
            inbox: InboxAddress(String::from_utf8(unhex(f[2])).expect("inbox name utf8")),
        },
        "x" => IngressTarget::ExactHead { key: hkey(f[1], f[2]) },
        _ => panic!("target {s}"),
    }
}
fn parse_parent(s: &str) -> IngressCausalParent {
    let f: Vec<&str> = s.split('.').collect();
    let receipt_ref = CausalTickReceiptRef {
        worldline_id: wlid(f[1]),
        worldline_tick_after: WorldlineTick::from_raw(u64hex(f[2])),
        commit_global_tick: GlobalTick::from_raw(u64hex(f[3])),
        commit_hash: hex32(f[4]),
        submission_id: hex32(f[5]),
        ticket_digest: hex32(f[6]),
        receipt_content_digest: hex32(f[7]),
    };
    if f[0] == "1" {
        IngressCausalParent::ContractInverseTarget { receipt_ref }
    } else {
        IngressCausalParent::TickReceipt { receipt_ref }
    }
}

struct Case {
    mode: String,
    worlds: Vec<WorldlineId>,
    heads: Vec<HeadSpec>,
    intents: Vec<IntentSpec>,
    ops: Vec<Op>,
    perms: String,
    seed: u64,
    ticketed: bool,
}

fn parse_case(line: &str) -> Case {
    let m = kv(line);
    let g = |k: &str| m.get(k).cloned().unwrap_or_else(|| "-".into());
    let worlds = items(&g("worlds")).iter().map(|w| wlid(w)).collect();
    let heads = items(&g("heads"))
        .iter()
        .map(|it| {
            let f: Vec<&str> = it.split(':').collect();
            HeadSpec {
                key: hkey(f[0], f[1]),
                name: if f[2] == "-" { None } else { Some(String::from_utf8(unhex(f[2])).unwrap()) },
                default: f[3] == "1",
                pol: Pol::parse(f[4]),
            }
        })
        .collect();
    let intents = items(&g("intents"))
        .iter()
        .map(|it| {
            let f: Vec<&str> = it.split(':').collect();
            IntentSpec {
                kind: hex32(f[0]),
                bytes: unhex(f[1]),
                parents: if f[2] == "-" { vec![] } else { f[2].split('+').map(parse_parent).collect() },
                target: parse_target(f[3]),
            }
        })
        .collect();
    let opss = g("ops");
    let ops = if opss == "-" {
        vec![]
    } else {
        opss.split(',')
            .map(|t| {
                if t == "p" {
                    Op::Pass
                } else if let Some(r) = t.strip_prefix('s') {
                    Op::Submit(r.parse().unwrap())
                } else if let Some(r) = t.strip_prefix('e') {
                    let (h, b) = r.split_once('.').unwrap();
                    Op::Elig(h.parse().unwrap(), b == "1")
                } else if let Some(r) = t.strip_prefix('q') {
                    let (h, p) = r.split_once('.').unwrap();
                    Op::SetPol(h.parse().unwrap(), Pol::parse(p))
                } else {
                    panic!("op {t}")
                }
            })
            .collect()
    };
    Case {
        mode: g("mode"),
        worlds,
        heads,
        intents,
        ops,
        perms: g("perms"),
        seed: m.get("seed").and_then(|s| s.parse().ok()).unwrap_or(1),
        ticketed: m.get("tk").map(|s| s == "1").unwrap_or(true),
    }
}

// ----------------------------------------------------------------------------- engine fixture

fn c08_result_node(scope: &NodeId) -> NodeId {
    let mut h = blake3::Hasher::new();
    h.update(b"verif.c08.result.node");
    h.update(scope.as_bytes());
    NodeId(h.finalize().into())
}
fn c08_payload<'a>(view: GraphView<'a>, scope: &NodeId) -> Option<&'a [u8]> {
    match view.node_attachment(scope) {
        Some(AttachmentValue::Atom(p)) => Some(p.bytes.as_ref()),
        _ => None,
    }
}
fn c08_matches(view: GraphView<'_>, scope: &NodeId) -> bool {
    c08_payload(view, scope).is_some()
}
fn c08_exec(view: GraphView<'_>, scope: &NodeId, delta: &mut TickDelta) {
    let Some(p) = c08_payload(view, scope) else { return };
    let warp_id = view.warp_id();
    let result = c08_result_node(scope);
    let mut out: Vec<u8> = p.to_vec();
    out.reverse();
    delta.push(WarpOp::UpsertNode {
        node: NodeKey { warp_id, local_id: result },
        record: NodeRecord { ty: make_type_id("verif/c08/result") },
    });
    delta.push(WarpOp::SetAttachment {
        key: AttachmentKey::node_alpha(NodeKey { warp_id, local_id: result }),
        value: Some(AttachmentValue::Atom(AtomPayload::new(make_type_id("verif/c08/result"), out.into()))),
    });
}
fn c08_footprint(view: GraphView<'_>, scope: &NodeId) -> Footprint {
    let warp_id = view.warp_id();
    let mut fp = Footprint::default();
    fp.n_read.insert_with_warp(warp_id, *scope);
    fp.a_read.insert(AttachmentKey::node_alpha(NodeKey { warp_id, local_id: *scope }));
    let result = c08_result_node(scope);
    fp.n_write.insert_with_warp(warp_id, result);
    fp.a_write.insert(AttachmentKey::node_alpha(NodeKey { warp_id, local_id: result }));
    // intents whose payload starts with an odd byte all write one shared node: only the first
    // in canonical plan order is applied, the others are rejected (footprint conflict)
    if c08_payload(view, scope).and_then(|p| p.first().copied()).is_some_and(|b| b & 1 == 1) {
        fp.n_write.insert_with_warp(warp_id, make_node_id("verif/c08/shared"));
    }
    fp
}
fn engine() -> Engine {
    let mut store = GraphStore::default();
    let root = make_node_id("root");
    store.insert_node(root, NodeRecord { ty: make_type_id("world") });
    let mut e = EngineBuilder::new(store, root).scheduler(SchedulerKind::Radix).workers(1).build();
    e.register_rule(RewriteRule {
        id: make_type_id("rule:cmd/verif/c08").0,
        name: "cmd/verif/c08",
        left: PatternGraph { nodes: vec![] },
        matcher: c08_matches,
        executor: c08_exec,
        compute_footprint: c08_footprint,
        factor_mask: 0,
        conflict_policy: ConflictPolicy::Abort,
        join_fn: None,
    })
    .expect("register rule");
    e
}

// ----------------------------------------------------------------------------- inbox inspection

/// Pending envelopes of an inbox in map order, read through a clone (real `admit` under AcceptAll).
fn pending_of(inbox: &HeadInbox) -> Vec<IngressEnvelope> {
    let mut c = inbox.clone();
    c.set_policy(InboxPolicy::AcceptAll);
    c.admit()
}
fn pend_str(p: &[IngressEnvelope]) -> String {
    p.iter().map(|e| format!("{}@{}", sh(&e.ingress_id()), target_str(e.target()))).collect::<Vec<_>>().join("+")
}

#[derive(Default, Clone)]
struct RunOut {
    ids: Vec<String>,
    reg: String,
    outs: Vec<String>,
    pend: String,       // with retained target spelling
    pend_ids: String,   // ids only
    comm: String,
    steps: Vec<String>, // implementation-only observables per pass
    roots: String,
    retained: String,   // retained witnessed-submission envelopes (target spelling)
    flags: Vec<String>,
    commits: usize,
}

fn run_rt(c: &Case, ops: &[Op], intents: &[IntentSpec]) -> RunOut {
    let mut o = RunOut::default();
    let mut rt = WorldlineRuntime::new();
    let mut eng = engine();
    for w in &c.worlds {
        rt.register_worldline(*w, WorldlineState::empty()).expect("register worldline");
    }
    let mut live: Vec<WriterHeadKey> = Vec::new();
    for h in &c.heads {
        let r = rt.register_writer_head(WriterHead::with_routing(
            h.key,
            PlaybackMode::Play,
            h.pol.real(),
            h.name.clone().map(InboxAddress),
            h.default,
        ));
        o.reg.push(match r {
            Ok(()) => {
                live.push(h.key);
                'o'
            }
            Err(RuntimeError::UnknownWorldline(_)) => 'w',
            Err(RuntimeError::DuplicateHead(_)) => 'h',
            Err(RuntimeError::DuplicateDefaultWriter(_)) => 'd',
            Err(RuntimeError::DuplicateInboxAddress { .. }) => 'i',
            Err(e) => panic!("register_writer_head: {e:?}"),
        });
    }
    live.sort();
    let mut prov = ProvenanceService::new();
    for (w, f) in rt.worldlines().iter() {
        prov.register_worldline(*w, f.state()).expect("provenance register");
    }
    let envs: Vec<IngressEnvelope> = intents.iter().map(IntentSpec::envelope).collect();
    o.ids = envs.iter().map(|e| sh(&e.ingress_id())).collect();
    let mut log: BTreeMap<WriterHeadKey, BTreeSet<[u8; 32]>> = BTreeMap::new();
    let mut subs: BTreeMap<[u8; 32], ()> = BTreeMap::new();
    for op in ops {
        match op {
            Op::Submit(i) => {
                let tok = match rt.ingest(envs[*i].clone()) {
                    Ok(IngressDisposition::Accepted { ingress_id, head_key, submission_id, .. }) => {
                        subs.insert(submission_id, ());
                        format!("A:{}:{}", head_str(&head_key), sh(&ingress_id))
                    }
                    Ok(IngressDisposition::Duplicate { ingress_id, head_key, submission_id, .. }) => {
                        // a duplicate names the same submission identity as the accepted original
                        if rt.witnessed_submission(&submission_id).is_some_and(|r| r.ingress_id != ingress_id || r.head_key != head_key) {
                            o.flags.push("duplicate-names-foreign-submission".into());
                        }
                        format!("D:{}:{}", head_str(&head_key), sh(&ingress_id))
                    }
                    Err(RuntimeError::RejectedByPolicy(k)) => format!("R:{}", head_str(&k)),
                    Err(RuntimeError::MissingDefaultWriter(_)) => "MD".into(),
                    Err(RuntimeError::MissingInboxAddress { .. }) => "MI".into(),
                    Err(RuntimeError::UnknownHead(_)) => "UH".into(),
                    Err(e) => format!("ERR:{}", format!("{e:?}").split(|c: char| !c.is_alphanumeric()).next().unwrap_or("?")),
                };
                o.outs.push(tok);
            }
            Op::Pass => {
                // predicted batches: the real `admit` on a clone of every runnable inbox
                let order = SchedulerCoordinator::peek_order(&rt);
                let mut predicted: Vec<(WriterHeadKey, Vec<[u8; 32]>)> = Vec::new();
                let mut before: BTreeMap<WriterHeadKey, BTreeSet<[u8; 32]>> = BTreeMap::new();
                for k in &live {
                    let ib = rt.heads().get(k).unwrap().inbox();
                    before.insert(*k, pending_of(ib).iter().map(|e| e.ingress_id()).collect());
                }
                for k in &order {
                    let b: Vec<[u8; 32]> = rt.heads().get(k).unwrap().inbox().clone().admit().iter().map(|e| e.ingress_id()).collect();
                    if !b.is_empty() {
                        predicted.push((*k, b));
                    }
                }
                let recs = match SchedulerCoordinator::super_tick(&mut rt, &mut prov, &mut eng) {
                    Ok(r) => r,
                    Err(e) => {
                        o.outs.push(format!("PERR:{}", format!("{e:?}").chars().take(40).collect::<String>().replace(' ', "_")));
                        o.flags.push("super-tick-error".into());
                        continue;
                    }
                };
                // actual: what left each pending map
                let mut actual: Vec<(WriterHeadKey, BTreeSet<[u8; 32]>)> = Vec::new();
                for k in &live {
                    let ib = rt.heads().get(k).unwrap().inbox();
                    let after: BTreeSet<[u8; 32]> = pending_of(ib).iter().map(|e| e.ingress_id()).collect();
                    let gone: BTreeSet<[u8; 32]> = before[k].difference(&after).copied().collect();
                    if !after.is_subset(&before[k]) {
                        o.flags.push("pass-added-pending".into());
                    }
                    if !gone.is_empty() {
                        actual.push((*k, gone));
                    }
                }
                let pa: Vec<(WriterHeadKey, BTreeSet<[u8; 32]>)> =
                    predicted.iter().map(|(k, b)| (*k, b.iter().copied().collect())).collect();
                if pa != actual {
                    o.flags.push("batch-differs-from-admit-on-clone".into());
                }
                if recs.len() != predicted.len()
                    || recs.iter().zip(predicted.iter()).any(|(r, (k, b))| r.head_key != *k || r.admitted_count != b.len())
                {
                    o.flags.push("step-records-differ-from-batches".into());
                }
                for (k, b) in &predicted {
                    if b.windows(2).any(|w| w[0] >= w[1]) {
                        o.flags.push("batch-not-ascending".into());
                    }
                    for id in b {
                        o.commits += 1;
                        if !log.entry(*k).or_default().insert(*id) {
                            o.flags.push("committed-twice".into());
                        }
                    }
                }
                o.outs.push(format!(
                    "P[{}]",
                    predicted
                        .iter()
                        .map(|(k, b)| format!("{}={}", head_str(k), b.iter().map(|i| sh(i)).collect::<Vec<_>>().join("+")))
                        .collect::<Vec<_>>()
                        .join(";")
                ));
                // implementation-only observables of this pass
                let mut s = Vec::new();
                for r in &recs {
                    let fr = rt.worldlines().get(&r.head_key.worldline_id).unwrap();
                    let hist = fr.state().tick_history();
                    let idx = (r.worldline_tick_after.as_u64() - 1) as usize;
                    let (snap, receipt, patch) = &hist[idx];
                    let ents: Vec<String> = receipt
                        .entries()
                        .iter()
                        .map(|e| {
                            format!(
                                "{}{}",
                                sh(&e.scope.local_id.0)[..8.min(sh(&e.scope.local_id.0).len())].to_string(),
                                if e.disposition == TickReceiptDisposition::Applied { "a" } else { "r" }
                            )
                        })
                        .collect();
                    if snap.hash != r.commit_hash {
                        o.flags.push("step-record-commit-hash-differs-from-history".into());
                    }
                    s.push(format!(
                        "{}#{}@{}/{}:root={}:commit={}:receipt={}:patch={}:[{}]",
                        head_str(&r.head_key),
                        r.admitted_count,
                        r.worldline_tick_after.as_u64(),
                        r.commit_global_tick.as_u64(),
                        sh(&r.state_root),
                        sh(&r.commit_hash),
                        sh(&receipt.digest()),
                        sh(&patch.digest()),
                        ents.join(",")
                    ));
                }
                o.steps.push(s.join(";"));
            }
            Op::Elig(h, b) => {
                let r = rt.set_head_eligibility(
                    c.heads[*h].key,
                    if *b { HeadEligibility::Admitted } else { HeadEligibility::Dormant },
                );
                o.outs.push(if r.is_ok() { "U1".into() } else { "U0".into() });
            }
            Op::SetPol(h, p) => {
                // echo_verif hook: HeadInbox::set_policy on the inbox of a registered head
                let key = c.heads[*h].key;
                let ok = rt.verif_set_head_inbox_policy(&key, p.real());
                if ok {
                    let ib = rt.heads().get(&key).unwrap().inbox();
                    if pending_of(ib).iter().any(|e| !ib.would_accept(e)) {
                        o.flags.push("pending-violates-new-policy".into());
                    }
                }
                o.outs.push(if ok { "U1".into() } else { "U0".into() });
            }
        }
    }
    // final pending
    let mut pend = Vec::new();
    let mut pend_ids = Vec::new();
    let mut pending_sets: BTreeMap<WriterHeadKey, BTreeSet<[u8; 32]>> = BTreeMap::new();
    for k in &live {
        let p = pending_of(rt.heads().get(k).unwrap().inbox());
        pending_sets.insert(*k, p.iter().map(|e| e.ingress_id()).collect());
        if !p.is_empty() {
            pend.push(format!("{}={}", head_str(k), pend_str(&p)));
            pend_ids.push(format!("{}={}", head_str(k), p.iter().map(|e| sh(&e.ingress_id())).collect::<Vec<_>>().join("+")));
        }
    }
    o.pend = if pend.is_empty() { "-".into() } else { pend.join(";") };
    o.pend_ids = if pend_ids.is_empty() { "-".into() } else { pend_ids.join(";") };
    let comm: Vec<String> = log
        .iter()
        .filter(|(_, s)| !s.is_empty())
        .map(|(k, s)| format!("{}={}", head_str(k), s.iter().map(|i| sh(i)).collect::<Vec<_>>().join("+")))
        .collect();
    o.comm = if comm.is_empty() { "-".into() } else { comm.join(";") };
    // probe the real committed-ingress set: on a clone, an exact-head re-submission of every
    // known content is a Duplicate iff it is pending or committed on that head.
    let mut distinct: BTreeMap<[u8; 32], &IntentSpec> = BTreeMap::new();
    for (i, e) in envs.iter().enumerate() {
        distinct.entry(e.ingress_id()).or_insert(&intents[i]);
    }
    for k in &live {
        for (id, spec) in &distinct {
            // only probe contents the head's policy accepts (a rejection says nothing)
            let mut probe = rt.clone();
            let env = IngressEnvelope::local_intent_with_causal_parents(
                IngressTarget::ExactHead { key: *k },
                IntentKind::from_hash(spec.kind),
                spec.bytes.clone(),
                spec.parents.clone(),
            );
            let committed_per_log = log.get(k).is_some_and(|s| s.contains(id));
            let pending_now = pending_sets[k].contains(id);
            match probe.ingest(env) {
                Ok(IngressDisposition::Duplicate { .. }) => {
                    if !(committed_per_log || pending_now) {
                        o.flags.push("duplicate-without-pending-or-commit".into());
                    }
                }
                Ok(IngressDisposition::Accepted { .. }) => {
                    if committed_per_log {
                        o.flags.push("retry-after-commit-accepted".into());
                    }
                    if pending_now {
                        o.flags.push("retry-while-pending-accepted".into());
                    }
                }
                Err(RuntimeError::RejectedByPolicy(_)) => {
                    if pending_now {
                        o.flags.push("pending-but-policy-rejects".into());
                    }
                }
                Err(_) => {}
            }
        }
    }
    // state roots and frontier ticks per worldline, global tick
    let roots: Vec<String> = rt
        .worldlines()
        .iter()
        .map(|(w, f)| format!("{}:{}@{}", sh(w.as_bytes()), sh(&f.state().state_root()), f.frontier_tick().as_u64()))
        .collect();
    o.roots = format!("{}|gt={}", roots.join(";"), rt.global_tick().as_u64());
    // retained witnessed-submission envelopes (target spelling is the order-dependent part, F11)
    let ret: Vec<String> = subs
        .keys()
        .map(|s| {
            rt.witnessed_submission_envelope(s)
                .map(|e| format!("{}@{}", sh(&e.ingress_id()), target_str(e.target())))
                .unwrap_or_else(|| "missing".into())
        })
        .collect();
    o.retained = ret.join(";");
    o
}

fn run_ib(c: &Case, ops: &[Op], intents: &[IntentSpec]) -> RunOut {
    let mut o = RunOut::default();
    let h = &c.heads[0];
    o.reg = "o".into();
    let mut ib = HeadInbox::new(h.key, h.pol.real());
    let envs: Vec<IngressEnvelope> = intents.iter().map(IntentSpec::envelope).collect();
    o.ids = envs.iter().map(|e| sh(&e.ingress_id())).collect();
    for op in ops {
        match op {
            Op::Submit(i) => {
                let would = ib.would_accept(&envs[*i]);
                let r = format!("{:?}", ib.ingest(envs[*i].clone()));
                if would == (r == "Rejected") {
                    o.flags.push("would-accept-disagrees-with-ingest".into());
                }
                o.outs.push(r[..1].to_string());
            }
            Op::Pass => {
                let can = ib.can_admit();
                let before = ib.pending_count();
                let b = ib.admit();
                if can != !b.is_empty() {
                    o.flags.push("can-admit-disagrees-with-admit".into());
                }
                if b.len() + ib.pending_count() != before {
                    o.flags.push("admit-lost-or-duplicated-envelopes".into());
                }
                if b.windows(2).any(|w| w[0].ingress_id() >= w[1].ingress_id()) {
                    o.flags.push("batch-not-ascending".into());
                }
                o.commits += b.len();
                o.outs.push(format!("P[{}]", pend_str(&b)));
                o.steps.push(b.iter().map(|e| sh(&e.ingress_id())).collect::<Vec<_>>().join("+"));
            }
            Op::SetPol(_, p) => {
                ib.set_policy(p.real());
                // a stricter policy must not be bypassed by what was accepted earlier
                if pending_of(&ib).iter().any(|e| !ib.would_accept(e)) {
                    o.flags.push("pending-violates-new-policy".into());
                }
                o.outs.push("U1".into());
            }
            Op::Elig(..) => o.outs.push("U0".into()),
        }
    }
    let p = pending_of(&ib);
    if p.len() != ib.pending_count() {
        o.flags.push("pending-count-differs".into());
    }
    o.pend = if p.is_empty() { "-".into() } else { format!("{}={}", head_str(&h.key), pend_str(&p)) };
    o.pend_ids = p.iter().map(|e| sh(&e.ingress_id())).collect::<Vec<_>>().join("+");
    o.comm = "-".into();
    o
}


// ----------------------------------------------------------------------------- restart (restore_* APIs, no WAL)

fn ticket_for(submission_id: &[u8; 32]) -> OpticAdmissionTicket {
    let mut h = blake3::Hasher::new();
    h.update(b"verif.c08.ticket");
    h.update(submission_id);
    let d: [u8; 32] = h.finalize().into();
    OpticAdmissionTicket {
        kind: OPTIC_ADMISSION_TICKET_KIND.to_owned(),
        artifact_handle: OpticArtifactHandle { kind: OPTIC_ARTIFACT_HANDLE_KIND.to_owned(), id: format!("c08-{}", hex::encode(&d[..4])) },
        artifact_hash: "artifact".into(),
        operation_id: "operation".into(),
        requirements_digest: "requirements".into(),
        canonical_variables_digest: d[..4].to_vec(),
        basis_request_digest: d,
        aperture_request_digest: d,
        budget_request_digest: d,
        law_witness_digest: d,
        ticket_digest: d,
    }
}

struct Live {
    rt: WorldlineRuntime,
    live: Vec<WriterHeadKey>,
    reg: String,
}

fn build_runtime(c: &Case) -> Live {
    let mut rt = WorldlineRuntime::new();
    for w in &c.worlds {
        rt.register_worldline(*w, WorldlineState::empty()).expect("register worldline");
    }
    let mut live = Vec::new();
    let mut reg = String::new();
    for h in &c.heads {
        let r = rt.register_writer_head(WriterHead::with_routing(
            h.key,
            PlaybackMode::Play,
            h.pol.real(),
            h.name.clone().map(InboxAddress),
            h.default,
        ));
        if r.is_ok() {
            live.push(h.key);
            reg.push('o');
        } else {
            reg.push('x');
        }
    }
    live.sort();
    Live { rt, live, reg }
}

/// one submission through the ticketed path (submit_intent + ingest_ticketed_invocation) or plain ingest
fn submit_one(rt: &mut WorldlineRuntime, env: &IngressEnvelope, ticketed: bool) -> String {
    if !ticketed {
        return match rt.ingest(env.clone()) {
            Ok(IngressDisposition::Accepted { .. }) => "A".into(),
            Ok(IngressDisposition::Duplicate { .. }) => "D".into(),
            Err(RuntimeError::RejectedByPolicy(_)) => "R".into(),
            Err(_) => "E".into(),
        };
    }
    let (sid, first) = match rt.submit_intent(env.clone()) {
        Ok(IntentSubmissionDisposition::Accepted { submission_id, .. }) => (submission_id, "A"),
        Ok(IntentSubmissionDisposition::Duplicate { submission_id, .. }) => (submission_id, "D"),
        Err(RuntimeError::RejectedByPolicy(_)) => return "R".into(),
        Err(_) => return "E".into(),
    };
    let auth = TicketedRuntimeIngressAuthority::assume_runtime_owner();
    let second = match rt.ingest_ticketed_invocation(&auth, sid, &ticket_for(&sid), env.clone()) {
        Ok(TicketedRuntimeIngressDisposition::Staged { .. }) => "s",
        Ok(TicketedRuntimeIngressDisposition::Duplicate { .. }) => "d",
        Err(RuntimeError::TicketedIngressDuplicateRuntimeIngress { .. }) => "c",
        Err(_) => "e",
    };
    format!("{first}{second}")
}

/// runs a pass and returns what left the pending maps, per head
fn pass_commits(
    rt: &mut WorldlineRuntime,
    prov: &mut ProvenanceService,
    eng: &mut Engine,
    live: &[WriterHeadKey],
    flags: &mut Vec<String>,
) -> Vec<(WriterHeadKey, [u8; 32])> {
    let mut before: BTreeMap<WriterHeadKey, BTreeSet<[u8; 32]>> = BTreeMap::new();
    for k in live {
        before.insert(*k, pending_of(rt.heads().get(k).unwrap().inbox()).iter().map(|e| e.ingress_id()).collect());
    }
    if let Err(e) = SchedulerCoordinator::super_tick(rt, prov, eng) {
        flags.push(format!("super-tick-error:{}", format!("{e:?}").chars().take(30).collect::<String>().replace(' ', "_")));
        return vec![];
    }
    let mut out = Vec::new();
    for k in live {
        let after: BTreeSet<[u8; 32]> = pending_of(rt.heads().get(k).unwrap().inbox()).iter().map(|e| e.ingress_id()).collect();
        for id in before[k].difference(&after) {
            out.push((*k, *id));
        }
    }
    out
}

fn run_restart(c: &Case, ops: &[Op], intents: &[IntentSpec], ticketed: bool) -> RunOut {
    let mut o = RunOut::default();
    let tag = if ticketed { "" } else { "-unticketed" };
    let Live { mut rt, live, reg } = build_runtime(c);
    o.reg = reg;
    let mut eng = engine();
    let mut prov = ProvenanceService::new();
    for (w, f) in rt.worldlines().iter() {
        prov.register_worldline(*w, f.state()).expect("provenance register");
    }
    let envs: Vec<IngressEnvelope> = intents.iter().map(IntentSpec::envelope).collect();
    o.ids = envs.iter().map(|e| sh(&e.ingress_id())).collect();
    let mut committed: BTreeSet<(WriterHeadKey, [u8; 32])> = BTreeSet::new();
    for op in ops {
        match op {
            Op::Submit(i) => o.outs.push(submit_one(&mut rt, &envs[*i], ticketed)),
            Op::Pass => {
                let cs = pass_commits(&mut rt, &mut prov, &mut eng, &live, &mut o.flags);
                o.outs.push(format!("P{}", cs.len()));
                for x in cs {
                    o.commits += 1;
                    if !committed.insert(x) {
                        o.flags.push("committed-twice".into());
                    }
                }
            }
            Op::Elig(h, b) => {
                let _ = rt.set_head_eligibility(c.heads[*h].key, if *b { HeadEligibility::Admitted } else { HeadEligibility::Dormant });
                o.outs.push("U".into());
            }
            Op::SetPol(..) => o.outs.push("U".into()),
        }
    }
    // ---- "crash": keep only what the restore APIs take
    let snapshot = rt.witnessed_submission_persistence_snapshot();
    let snapshot = match snapshot {
        Ok(s) => s,
        Err(e) => {
            o.flags.push(format!("restart:snapshot-failed:{}", format!("{e:?}").chars().take(30).collect::<String>().replace(' ', "_")));
            return o;
        }
    };
    let mut entries: Vec<ProvenanceEntry> = Vec::new();
    for w in &c.worlds {
        let n = prov.len(*w).unwrap_or(0);
        for t in 0..n {
            entries.push(prov.entry(*w, WorldlineTick::from_raw(t)).expect("entry"));
        }
    }
    let correlations: Vec<ReceiptCorrelationPersistenceRecord> =
        rt.receipt_correlations().map(ReceiptCorrelationPersistenceRecord::from).collect();
    let Live { rt: mut rb, .. } = build_runtime(c);
    if let Err(e) = rb.restore_witnessed_submission_persistence(snapshot) {
        o.flags.push(format!("restart:restore-submissions-failed:{}", format!("{e:?}").chars().take(30).collect::<String>().replace(' ', "_")));
        return o;
    }
    if let Err(e) = rb.restore_causal_runtime_history(&prov, &entries, &correlations) {
        o.flags.push(format!("restart:restore-history-failed:{}", format!("{e:?}").chars().take(30).collect::<String>().replace(' ', "_")));
        return o;
    }
    // restored frontier equals the pre-crash frontier
    for w in &c.worlds {
        let a = rt.worldlines().get(w).unwrap();
        let b = rb.worldlines().get(w).unwrap();
        if a.state().state_root() != b.state().state_root() || a.frontier_tick() != b.frontier_tick() {
            o.flags.push("restart:frontier-differs".into());
        }
    }
    // a retry of anything committed before the restart must be a Duplicate ...
    let mut by_id: BTreeMap<[u8; 32], &IntentSpec> = BTreeMap::new();
    for (i, e) in envs.iter().enumerate() {
        by_id.entry(e.ingress_id()).or_insert(&intents[i]);
    }
    // recovery is idempotent: replaying both restore calls over the same retained material (a host that enables its WAL
    // again) must leave a runtime that still de-duplicates what the first recovery de-duplicated
    let mut rb2 = rb.clone();
    let replayed = rb2.restore_witnessed_submission_persistence(match rt.witnessed_submission_persistence_snapshot() {
        Ok(s) => s,
        Err(_) => return o,
    })
    .is_ok()
        && rb2.restore_causal_runtime_history(&prov, &entries, &correlations).is_ok();
    for (k, id) in &committed {
        let spec = by_id[id];
        let env = IngressEnvelope::local_intent_with_causal_parents(
            IngressTarget::ExactHead { key: *k },
            IntentKind::from_hash(spec.kind),
            spec.bytes.clone(),
            spec.parents.clone(),
        );
        match rb.clone().ingest(env.clone()) {
            Ok(IngressDisposition::Duplicate { .. }) => {
                if replayed {
                    if let Ok(IngressDisposition::Accepted { .. }) = rb2.clone().ingest(env.clone()) {
                        o.flags.push(format!("restart:retry-accepted-after-replayed-recovery{tag}"));
                    }
                }
            }
            Ok(IngressDisposition::Accepted { .. }) => o.flags.push(format!("restart:retry-after-restart-accepted{tag}")),
            Err(_) => {}
        }
        match rb.clone().submit_intent(env) {
            Ok(IntentSubmissionDisposition::Duplicate { .. }) => {}
            Ok(IntentSubmissionDisposition::Accepted { .. }) => o.flags.push(format!("restart:resubmission-after-restart-accepted{tag}")),
            Err(_) => {}
        }
    }
    // ... and re-driving every submission and two passes must not commit any of them again
    let mut provb = prov.clone();
    let mut engb = engine();
    for op in ops {
        if let Op::Submit(i) = op {
            o.outs.push(format!("r{}", submit_one(&mut rb, &envs[*i], ticketed)));
        }
    }
    for _ in 0..2 {
        for x in pass_commits(&mut rb, &mut provb, &mut engb, &live, &mut o.flags) {
            o.commits += 1;
            if !committed.insert(x) {
                o.flags.push(format!("restart:committed-again-after-restart{tag}"));
            }
        }
    }
    o.pend = "-".into();
    o.pend_ids = "-".into();
    o.comm = committed
        .iter()
        .map(|(k, id)| format!("{}={}", head_str(k), sh(id)))
        .collect::<Vec<_>>()
        .join(";");
    if o.comm.is_empty() {
        o.comm = "-".into();
    }
    o
}

// ----------------------------------------------------------------------------- variants (oracle)

/// windows = maximal runs of submissions; returns index ranges into `ops`
fn windows(ops: &[Op]) -> Vec<(usize, usize)> {
    let mut w = Vec::new();
    let mut i = 0;
    while i < ops.len() {
        if matches!(ops[i], Op::Submit(_)) {
            let s = i;
            while i < ops.len() && matches!(ops[i], Op::Submit(_)) {
                i += 1;
            }
            w.push((s, i));
        } else {
            i += 1;
        }
    }
    w
}

fn permuted(ops: &[Op], rng: &mut Rng) -> Vec<Op> {
    let mut v = ops.to_vec();
    for (s, e) in windows(ops) {
        rng.shuffle(&mut v[s..e]);
    }
    v
}

/// inserts retries of already-submitted intents at random later positions
fn with_retries(ops: &[Op], rng: &mut Rng, same_window: bool) -> Vec<Op> {
    let mut v = ops.to_vec();
    let n = 1 + rng.below(3);
    for _ in 0..n {
        let subs: Vec<usize> = (0..v.len()).filter(|&i| matches!(v[i], Op::Submit(_))).collect();
        if subs.is_empty() {
            break;
        }
        let src = subs[rng.below(subs.len())];
        let mut end = v.len();
        // a policy change legitimately changes what a later retry does (evicted / formerly rejected intents)
        if let Some(q) = (src + 1..v.len()).find(|&i| matches!(v[i], Op::SetPol(..))) {
            end = q;
        }
        if same_window {
            // a bare HeadInbox has no committed set: a retry is only idempotent while pending
            end = src + 1;
            while end < v.len() && matches!(v[end], Op::Submit(_)) {
                end += 1;
            }
        }
        let pos = src + 1 + rng.below(end - src);
        let op = v[src].clone();
        v.insert(pos, op);
    }
    v
}

/// equivalent spellings of a target that resolve to the same head in this configuration
fn spellings(c: &Case, reg: &str, t: &IngressTarget) -> Vec<IngressTarget> {
    let live: Vec<&HeadSpec> = c.heads.iter().zip(reg.chars()).filter(|(_, r)| *r == 'o').map(|(h, _)| h).collect();
    let head = match t {
        IngressTarget::DefaultWriter { worldline_id } => live.iter().find(|h| h.default && h.key.worldline_id == *worldline_id),
        IngressTarget::InboxAddress { worldline_id, inbox } => {
            live.iter().find(|h| h.key.worldline_id == *worldline_id && h.name.as_deref() == Some(inbox.0.as_str()))
        }
        IngressTarget::ExactHead { key } => live.iter().find(|h| h.key == *key),
    };
    let Some(h) = head else { return vec![t.clone()] };
    let mut v = vec![IngressTarget::ExactHead { key: h.key }];
    if h.default {
        v.push(IngressTarget::DefaultWriter { worldline_id: h.key.worldline_id });
    }
    if let Some(n) = &h.name {
        v.push(IngressTarget::InboxAddress { worldline_id: h.key.worldline_id, inbox: InboxAddress(n.clone()) });
    }
    v
}

fn all_window_perms(ops: &[Op], cap: usize) -> Option<Vec<Vec<Op>>> {
    let ws = windows(ops);
    let mut total: usize = 1;
    for (s, e) in &ws {
        let n = e - s;
        let f: usize = (1..=n).product();
        total = total.saturating_mul(f);
        if total > cap {
            return None;
        }
    }
    let mut res: Vec<Vec<Op>> = vec![ops.to_vec()];
    for (s, e) in ws {
        let n = e - s;
        let mut next = Vec::new();
        for base in &res {
            for_each_perm(n, |p| {
                let mut v = base.clone();
                for (j, &pi) in p.iter().enumerate() {
                    v[s + j] = base[s + pi].clone();
                }
                next.push(v);
                true
            });
        }
        res = next;
    }
    Some(res)
}

fn main() {
    for line in read_cases() {
        let c = parse_case(&line);
        let run = |ops: &[Op], intents: &[IntentSpec]| -> RunOut {
            if c.mode == "ib" {
                run_ib(&c, ops, intents)
            } else if c.mode == "restart" {
                run_restart(&c, ops, intents, c.ticketed)
            } else {
                run_rt(&c, ops, intents)
            }
        };
        let base = run(&c.ops, &c.intents);
        let mut oracle: Vec<String> = base.flags.clone();
        // the id is a function of (kind, bytes, parent SET) only: re-cite the parents reversed and with
        // repetitions under another target, and compare ids of equal / different contents of one domain
        {
            let canon = |s: &IntentSpec| {
                let mut p = s.parents.clone();
                p.sort_unstable();
                p.dedup();
                (s.kind, s.bytes.clone(), p)
            };
            let envs: Vec<IngressEnvelope> = c.intents.iter().map(IntentSpec::envelope).collect();
            for (i, s) in c.intents.iter().enumerate() {
                let mut ps = s.parents.clone();
                ps.reverse();
                if let Some(f) = s.parents.first() {
                    ps.push(*f);
                    ps.insert(0, *f);
                }
                let again = IngressEnvelope::local_intent_with_causal_parents(
                    IngressTarget::ExactHead { key: hkey("77", "78") },
                    IntentKind::from_hash(s.kind),
                    s.bytes.clone(),
                    ps,
                );
                if again.ingress_id() != envs[i].ingress_id() {
                    oracle.push("id-depends-on-target-or-parent-citation-order".into());
                }
                for (j, t) in c.intents.iter().enumerate().skip(i + 1) {
                    let same = canon(s) == canon(t);
                    let same_id = envs[i].ingress_id() == envs[j].ingress_id();
                    if same && !same_id {
                        oracle.push("equal-content-different-id".into());
                    }
                    if !same && same_id && s.parents.is_empty() == t.parents.is_empty() {
                        oracle.push("different-content-same-id-within-domain".into());
                    }
                }
            }
        }
        let mut variants = 0usize;
        let mut f11 = 0usize;
        let mut rng = Rng(c.seed);
        let cmp = |v: &RunOut, what: &str, oracle: &mut Vec<String>, f11: &mut usize| {
            for f in &v.flags {
                // properties of a single run keep their own name, whatever variant exposed them
                oracle.push(f.clone());
            }
            if v.steps != base.steps {
                oracle.push(format!("{what}:commits-differ"));
            } else if v.roots != base.roots {
                oracle.push(format!("{what}:state-roots-differ"));
            }
            if v.pend_ids != base.pend_ids {
                oracle.push(format!("{what}:pending-ids-differ"));
            }
            if v.comm != base.comm {
                oracle.push(format!("{what}:committed-sets-differ"));
            }
            if v.pend != base.pend || v.retained != base.retained {
                *f11 += 1;
            }
        };
        // 1. arrival order inside every window
        let perm_runs: Vec<Vec<Op>> = if c.perms == "all" {
            all_window_perms(&c.ops, 720).unwrap_or_else(|| (0..60).map(|_| permuted(&c.ops, &mut rng)).collect())
        } else {
            let k: usize = c.perms.parse().unwrap_or(0);
            (0..k).map(|_| permuted(&c.ops, &mut rng)).collect()
        };
        for v in &perm_runs {
            let r = run(v, &c.intents);
            variants += 1;
            cmp(&r, "order", &mut oracle, &mut f11);
            if oracle.len() > 4 {
                break;
            }
        }
        // 2. retries (while pending, after commit, across windows), on permuted orders too
        let nretry = if c.perms == "0" { 0 } else { 6 };
        for j in 0..nretry {
            let b = if j % 2 == 0 { c.ops.clone() } else { permuted(&c.ops, &mut rng) };
            let v = with_retries(&b, &mut rng, c.mode == "ib");
            let r = run(&v, &c.intents);
            variants += 1;
            let mut dummy = 0;
            cmp(&r, "retry", &mut oracle, &mut dummy);
        }
        // 3. equivalent target spellings (the ingress id does not cover the target)
        if c.mode == "rt" && c.perms != "0" {
            for _ in 0..4 {
                let respelled: Vec<IntentSpec> = c
                    .intents
                    .iter()
                    .map(|s| {
                        let sp = spellings(&c, &base.reg, &s.target);
                        let mut s2 = s.clone();
                        s2.target = sp[rng.below(sp.len())].clone();
                        s2
                    })
                    .collect();
                let r = run(&permuted(&c.ops, &mut rng), &respelled);
                variants += 1;
                if r.ids != base.ids {
                    oracle.push("spelling:ingress-id-depends-on-target".into());
                }
                let mut dummy = 0;
                cmp(&r, "spelling", &mut oracle, &mut dummy);
            }
        }
        oracle.sort();
        oracle.dedup();
        let orc = if oracle.is_empty() { "ok".to_string() } else { format!("FAIL:{}", oracle.join(",")) };
        println!(
            "ids={} reg={} outs={} pend={} comm={} oracle={} variants={} f11={} commits={}",
            if base.ids.is_empty() { "-".into() } else { base.ids.join(",") },
            if base.reg.is_empty() { "-" } else { &base.reg },
            if base.outs.is_empty() { "-".into() } else { base.outs.join("|") },
            base.pend,
            base.comm,
            orc,
            variants,
            f11,
            base.commits
        );
    }
}
