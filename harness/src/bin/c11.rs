//! C11 harness = the C10/C11 shared harness (one model, one workload builder): see c10.rs.
#[path = "c10.rs"]
mod wal;
fn main() {
    wal::main()
}
