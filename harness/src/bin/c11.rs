include!("c10.rs");
