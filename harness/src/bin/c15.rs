//! C15 harness: strands fork faithfully and settle lawfully, on the REAL runtime.
//!
//! A case drives a `WorldlineRuntime` + `ProvenanceService` + `Engine` through a scripted scenario:
//! real ticks (`SchedulerCoordinator::super_tick` with ingested intents interpreted by one registered rule whose
//! footprint and writes are data), `WorldlineRuntime::fork_strand`, `Strand::live_basis_report`,
//! `SettlementService::plan_with_policy` (twice), `SettlementService::settle_with_policy` (optionally with an
//! injected late failure: the plural ids of the plan are pre-bound to a foreign braid shell so that the shell append,
//! the last fallible step, fails after the entries were appended) and `pin_support`.
//!
//! case:   id=<n> steps=<step>/<step>/...
//!   T:<lane>.<prog>,<lane>.<prog>       ingest the intents, one super_tick
//!        prog = actions joined by `+`: u<k>.<ty> upsert node | d<k> delete node (k>=3) | s<k>.<v> set attachment |
//!               c<k> clear attachment | r<k> declared read | w<k> declared (unused) attachment write | n<x> nonce
//!   F:<src lane>:<tick>:<new lane>:<strand>:<mode>    mode S shared, A author-only, H two heads, W head on wrong lane
//!   R:<strand>   P:<strand>:<r|p>   S:<strand>:<r|p>[:x]   X:<strand>:<support>:<tick>
//! output: id=<n> init=<dump> in=<per-step model inputs> obs=<per-step observables> oracle=<ok|FAIL:...>
//!   slots / values are abstract numbers: node k -> 10+2k, its attachment -> 11+2k, everything else 2^40 + 39-bit hash;
//!   values are 40-bit hashes of the canonical record text.
use echo_verif_harness::*;
use std::collections::{BTreeMap, BTreeSet};
use warp_core::strand::make_strand_id;
use warp_core::{
    make_edge_id, make_head_id, make_intent_kind, make_node_id, make_type_id, make_warp_id, ActorId, AdmissionScopeId,
    AtomPayload, AttachmentKey, AttachmentOwner, AttachmentValue, AuthorityBinding, AuthorityDomainId,
    AuthorityDomainRef, BraidMemberRef, BraidShell, BraidShellMember, BraidShellOutcome, CausalAuthority,
    CausalPosture, ConflictPolicy, ConflictReason, EdgeRecord, Engine, EngineBuilder, Footprint, ForkStrandRequest,
    GraphStore, GraphView, InboxPolicy, IngressEnvelope, IngressTarget, MemberVerdict, NodeId, NodeKey, NodeRecord,
    OriginId, PatternGraph, PlaybackMode, PostureDerivation, ProvenanceEntry, ProvenanceEventKind, ProvenanceService,
    ProvenanceStore, RetentionContractId, RetentionPosture, RewriteRule, SchedulerCoordinator, SchedulerKind,
    SealStrength, SettlementDecision, SettlementError, SettlementPlan, SettlementPolicy, SettlementService, SlotId,
    StrandId, StrandOverlapRevalidation, StrandRevalidationState, TickDelta, WarpId, WarpOp, WorldlineId,
    WorldlineRuntime, WorldlineState, WorldlineTick, WriterHead, WriterHeadKey,
};

const NK: u8 = 6;
const NPRE: u8 = 3; // nodes 0..NPRE-1 exist in U0 and hang off the root

fn wl(n: usize) -> WorldlineId {
    WorldlineId::from_bytes([n as u8 + 1; 32])
}
fn wt(t: u64) -> WorldlineTick {
    WorldlineTick::from_raw(t)
}
fn sid(n: usize) -> StrandId {
    make_strand_id(&format!("vf-strand-{n}"))
}
fn root_id() -> NodeId {
    make_node_id("root")
}
fn node_k(k: u8) -> NodeId {
    make_node_id(&format!("vf15/n{k}"))
}
fn warp() -> WarpId {
    make_warp_id("vf15-root")
}
fn h40(s: &[u8]) -> u64 {
    let h = blake3::hash(s);
    let b = h.as_bytes();
    ((b[0] as u64) << 32) | ((b[1] as u64) << 24) | ((b[2] as u64) << 16) | ((b[3] as u64) << 8) | b[4] as u64
}

// ------------------------------------------------------------------------------------------- abstraction
fn slot_node(w: &WarpId, n: &NodeId, att: bool) -> u64 {
    if *w == warp() {
        for k in 0..NK {
            if *n == node_k(k) {
                return 10 + 2 * k as u64 + att as u64;
            }
        }
    }
    let mut v = vec![if att { b'a' } else { b'n' }];
    v.extend_from_slice(&w.0);
    v.extend_from_slice(&n.0);
    (1u64 << 40) + (h40(&v) >> 1)
}
fn slot_edge(w: &WarpId, e: &[u8; 32], att: bool) -> u64 {
    let mut v = vec![if att { b'b' } else { b'e' }];
    v.extend_from_slice(&w.0);
    v.extend_from_slice(e);
    (1u64 << 40) + (h40(&v) >> 1)
}
fn slot_of(s: &SlotId, flags: &mut Vec<String>) -> u64 {
    match s {
        SlotId::Node(k) => slot_node(&k.warp_id, &k.local_id, false),
        SlotId::Edge(k) => slot_edge(&k.warp_id, &k.local_id.0, false),
        SlotId::Attachment(k) => slot_att(k),
        SlotId::Port(_) => {
            flags.push("ABSTRACTION:port-slot".into());
            0
        }
    }
}
fn slot_att(k: &AttachmentKey) -> u64 {
    match k.owner {
        AttachmentOwner::Node(n) => slot_node(&n.warp_id, &n.local_id, true),
        AttachmentOwner::Edge(e) => slot_edge(&e.warp_id, &e.local_id.0, true),
    }
}
fn val_node(r: &NodeRecord) -> u64 {
    h40(&[b"N".as_slice(), &r.ty.0].concat())
}
fn val_edge(r: &EdgeRecord) -> u64 {
    h40(&[b"E".as_slice(), &r.from.0, &r.to.0, &r.ty.0].concat())
}
fn val_att(v: &AttachmentValue) -> u64 {
    match v {
        AttachmentValue::Atom(p) => h40(&[b"A".as_slice(), &p.type_id.0, p.bytes.as_ref()].concat()),
        AttachmentValue::Descend(w) => h40(&[b"D".as_slice(), &w.0].concat()),
    }
}

/// The whole root-warp store as sorted (slot, value) pairs.
fn dump(state: &WorldlineState) -> BTreeMap<u64, u64> {
    let w = state.root().warp_id;
    let mut out = BTreeMap::new();
    if let Some(store) = state.store(&w) {
        for (id, rec) in store.iter_nodes() {
            out.insert(slot_node(&w, id, false), val_node(rec));
        }
        for (_from, edges) in store.iter_edges() {
            for e in edges {
                out.insert(slot_edge(&w, &e.id.0, false), val_edge(e));
            }
        }
        for (id, v) in store.iter_node_attachments() {
            out.insert(slot_node(&w, id, true), val_att(v));
        }
        for (id, v) in store.iter_edge_attachments() {
            out.insert(slot_edge(&w, &id.0, true), val_att(v));
        }
    }
    out
}
fn dump_str(d: &BTreeMap<u64, u64>) -> String {
    if d.is_empty() {
        "-".into()
    } else {
        d.iter().map(|(k, v)| format!("{k}={v:010x}")).collect::<Vec<_>>().join(",")
    }
}
fn slots_str(v: &[u64]) -> String {
    if v.is_empty() {
        "-".into()
    } else {
        v.iter().map(|x| x.to_string()).collect::<Vec<_>>().join(".")
    }
}
fn sorted_set(v: impl Iterator<Item = u64>) -> Vec<u64> {
    v.collect::<BTreeSet<_>>().into_iter().collect()
}

/// One WarpOp as a guarded multi-write `req>slot=val.slot=-`.
fn op_str(op: &WarpOp, flags: &mut Vec<String>) -> String {
    let (req, writes): (Vec<u64>, Vec<(u64, Option<u64>)>) = match op {
        WarpOp::UpsertNode { node, record } => (vec![], vec![(slot_node(&node.warp_id, &node.local_id, false), Some(val_node(record)))]),
        WarpOp::DeleteNode { node } => (
            vec![slot_node(&node.warp_id, &node.local_id, false)],
            vec![(slot_node(&node.warp_id, &node.local_id, false), None), (slot_node(&node.warp_id, &node.local_id, true), None)],
        ),
        WarpOp::UpsertEdge { warp_id, record } => (vec![], vec![(slot_edge(warp_id, &record.id.0, false), Some(val_edge(record)))]),
        WarpOp::DeleteEdge { warp_id, edge_id, .. } => (
            vec![slot_edge(warp_id, &edge_id.0, false)],
            vec![(slot_edge(warp_id, &edge_id.0, false), None), (slot_edge(warp_id, &edge_id.0, true), None)],
        ),
        WarpOp::SetAttachment { key, value } => {
            let owner = match key.owner {
                AttachmentOwner::Node(n) => slot_node(&n.warp_id, &n.local_id, false),
                AttachmentOwner::Edge(e) => slot_edge(&e.warp_id, &e.local_id.0, false),
            };
            (vec![owner], vec![(slot_att(key), value.as_ref().map(val_att))])
        }
        _ => {
            flags.push("ABSTRACTION:portal-or-instance-op".into());
            (vec![], vec![])
        }
    };
    format!(
        "{}>{}",
        slots_str(&req),
        writes.iter().map(|(s, v)| match v { Some(x) => format!("{s}={x:010x}"), None => format!("{s}=-") }).collect::<Vec<_>>().join(".")
    )
}

fn patch_str(e: &ProvenanceEntry, flags: &mut Vec<String>) -> String {
    match &e.patch {
        None => "nopatch".into(),
        Some(p) => {
            let ins: Vec<u64> = p.in_slots.iter().map(|s| slot_of(s, flags)).collect();
            let outs: Vec<u64> = p.out_slots.iter().map(|s| slot_of(s, flags)).collect();
            let ops: Vec<String> = p.ops.iter().map(|o| op_str(o, flags)).collect();
            format!("{};{};{}", slots_str(&ins), slots_str(&outs), if ops.is_empty() { "-".into() } else { ops.join("&") })
        }
    }
}

// ------------------------------------------------------------------------------------------- the rule
#[derive(Clone, Debug)]
enum Act {
    Up(u8, u8),
    Del(u8),
    Set(u8, u8),
    Clr(u8),
    Read(u8),
    DeclW(u8),
    Nop,
}
fn parse_prog(bytes: &[u8]) -> Vec<Act> {
    let s = String::from_utf8_lossy(bytes);
    let mut out = Vec::new();
    for a in s.split('+') {
        if a.is_empty() {
            continue;
        }
        let (c, rest) = a.split_at(1);
        let f: Vec<u8> = rest.split('.').filter_map(|x| x.parse::<u8>().ok()).collect();
        let k = f.first().copied().unwrap_or(0) % NK;
        let v = f.get(1).copied().unwrap_or(1);
        out.push(match c {
            "u" => Act::Up(k, v),
            "d" if k >= NPRE => Act::Del(k),
            "s" => Act::Set(k, v),
            "c" => Act::Clr(k),
            "r" => Act::Read(k),
            "w" => Act::DeclW(k),
            _ => Act::Nop,
        });
    }
    out
}
fn program<'a>(view: GraphView<'a>, scope: &NodeId) -> Option<&'a [u8]> {
    match view.node_attachment(scope) {
        Some(AttachmentValue::Atom(p)) if p.bytes.len() >= 2 && &p.bytes[..2] == b"VF" => Some(&p.bytes[2..]),
        _ => None,
    }
}
fn rule_matches(view: GraphView<'_>, scope: &NodeId) -> bool {
    program(view, scope).is_some()
}
fn rule_footprint(view: GraphView<'_>, scope: &NodeId) -> Footprint {
    let w = view.warp_id();
    let mut fp = Footprint::default();
    fp.n_read.insert_with_warp(w, *scope);
    fp.a_read.insert(AttachmentKey::node_alpha(NodeKey { warp_id: w, local_id: *scope }));
    let Some(prog) = program(view, scope) else { return fp };
    for a in parse_prog(prog) {
        let key = |k: u8| NodeKey { warp_id: w, local_id: node_k(k) };
        match a {
            Act::Up(k, _) => {
                fp.n_read.insert_with_warp(w, node_k(k));
                fp.n_write.insert_with_warp(w, node_k(k));
            }
            Act::Del(k) => {
                fp.n_read.insert_with_warp(w, node_k(k));
                fp.n_write.insert_with_warp(w, node_k(k));
                fp.a_read.insert(AttachmentKey::node_alpha(key(k)));
                fp.a_write.insert(AttachmentKey::node_alpha(key(k)));
            }
            Act::Set(k, _) | Act::Clr(k) | Act::DeclW(k) => {
                fp.n_read.insert_with_warp(w, node_k(k));
                fp.a_read.insert(AttachmentKey::node_alpha(key(k)));
                fp.a_write.insert(AttachmentKey::node_alpha(key(k)));
            }
            Act::Read(k) => {
                fp.n_read.insert_with_warp(w, node_k(k));
                fp.a_read.insert(AttachmentKey::node_alpha(key(k)));
            }
            Act::Nop => {}
        }
    }
    fp
}
fn rule_exec(view: GraphView<'_>, scope: &NodeId, delta: &mut TickDelta) {
    let w = view.warp_id();
    let Some(prog) = program(view, scope) else { return };
    for a in parse_prog(prog) {
        let key = |k: u8| NodeKey { warp_id: w, local_id: node_k(k) };
        match a {
            Act::Up(k, ty) => delta.push(WarpOp::UpsertNode { node: key(k), record: NodeRecord { ty: make_type_id(&format!("vf15/ty{ty}")) } }),
            Act::Del(k) => {
                if view.node(&node_k(k)).is_some() {
                    delta.push(WarpOp::DeleteNode { node: key(k) });
                }
            }
            Act::Set(k, v) => {
                if view.node(&node_k(k)).is_some() {
                    delta.push(WarpOp::SetAttachment {
                        key: AttachmentKey::node_alpha(key(k)),
                        value: Some(AttachmentValue::Atom(AtomPayload::new(make_type_id("vf15/att"), vec![v].into()))),
                    });
                }
            }
            Act::Clr(k) => {
                if view.node(&node_k(k)).is_some() && view.node_attachment(&node_k(k)).is_some() {
                    delta.push(WarpOp::SetAttachment { key: AttachmentKey::node_alpha(key(k)), value: None });
                }
            }
            Act::Read(k) => {
                let _ = view.node(&node_k(k));
                let _ = view.node_attachment(&node_k(k));
            }
            Act::DeclW(_) | Act::Nop => {}
        }
    }
}
fn the_rule() -> RewriteRule {
    RewriteRule {
        id: make_type_id("rule:cmd/vf15-interp").0,
        name: "cmd/vf15-interp",
        left: PatternGraph { nodes: vec![] },
        matcher: rule_matches,
        executor: rule_exec,
        compute_footprint: rule_footprint,
        factor_mask: 0,
        conflict_policy: ConflictPolicy::Abort,
        join_fn: None,
    }
}

// ------------------------------------------------------------------------------------------- world
struct World {
    runtime: WorldlineRuntime,
    provenance: ProvenanceService,
    engine: Engine,
    base: WorldlineState,
    lanes: BTreeSet<usize>,
}

fn base_state() -> WorldlineState {
    let mut store = GraphStore::new(warp());
    store.insert_node(root_id(), NodeRecord { ty: make_type_id("vf15/root") });
    for k in 0..NPRE {
        store.insert_node(node_k(k), NodeRecord { ty: make_type_id("vf15/ty1") });
        store.insert_edge(
            root_id(),
            EdgeRecord { id: make_edge_id(&format!("vf15/e{k}")), from: root_id(), to: node_k(k), ty: make_type_id("vf15/child") },
        );
    }
    WorldlineState::from_root_store(store, root_id()).expect("base state")
}

fn head_key(lane: usize, label: &str) -> WriterHeadKey {
    WriterHeadKey { worldline_id: wl(lane), head_id: make_head_id(label) }
}
fn writer(key: WriterHeadKey, default: bool) -> WriterHead {
    WriterHead::with_routing(key, PlaybackMode::Play, InboxPolicy::AcceptAll, None, default)
}

fn new_world() -> World {
    let base = base_state();
    let mut runtime = WorldlineRuntime::new();
    runtime.register_worldline(wl(0), base.clone()).expect("register base");
    runtime.register_writer_head(writer(head_key(0, "default"), true)).expect("base head");
    let mut provenance = ProvenanceService::new();
    provenance.register_worldline(wl(0), &base).expect("register provenance");
    let mut store = GraphStore::default();
    store.insert_node(root_id(), NodeRecord { ty: make_type_id("world") });
    let mut engine = EngineBuilder::new(store, root_id()).scheduler(SchedulerKind::Radix).workers(1).build();
    engine.register_rule(the_rule()).expect("rule");
    let mut lanes = BTreeSet::new();
    lanes.insert(0);
    World { runtime, provenance, engine, base, lanes }
}

fn posture(shared: bool) -> RetentionPosture {
    let origin_id = OriginId::from_bytes([0x21; 32]);
    let authority = AuthorityDomainRef::new(origin_id, AuthorityDomainId::from_bytes([0x22; 32]));
    RetentionPosture::new(
        if shared { CausalPosture::Shared } else { CausalPosture::AuthorOnly },
        PostureDerivation::ExplicitIntent,
        CausalAuthority::new(origin_id, ActorId::from_bytes([0x23; 32]), authority, AuthorityBinding::LocalUnbound { origin: origin_id }, SealStrength::Advisory)
            .expect("authority"),
        RetentionContractId::from_bytes([0x24; 32]),
        if shared { Some(AdmissionScopeId::from_bytes([0x25; 32])) } else { None },
    )
    .expect("posture")
}

/// Everything observable about one lane, as text.
fn lane_fp(w: &World, lane: usize) -> String {
    let id = wl(lane);
    let fr = w.runtime.worldlines().get(&id);
    let (ft, root, d) = match fr {
        Some(f) => (f.frontier_tick().as_u64() as i64, hex::encode(f.state().state_root()), dump_str(&dump(f.state()))),
        None => (-1, "-".into(), "-".into()),
    };
    let len = w.provenance.len(id).map(|x| x as i64).unwrap_or(-1);
    let tip = w.provenance.tip_ref(id).ok().flatten().map(|r| hex::encode(r.commit_hash)).unwrap_or_default();
    format!("{lane}:{ft}:{root}:{len}:{tip}:{:x}", h40(d.as_bytes()))
}
fn world_fp(w: &World, except: &[usize]) -> String {
    let mut s = String::new();
    for l in &w.lanes {
        if !except.contains(l) {
            s.push_str(&lane_fp(w, *l));
            s.push('|');
        }
    }
    s
}
fn global_fp(w: &World) -> String {
    let strands: Vec<String> = (0..16)
        .filter_map(|i| w.runtime.strands().get(&sid(i)).map(|s| format!("{i}:{}:{}:{}", s.support_pins().len(), s.writer_heads().len(), s.fork_basis_ref().fork_tick.as_u64())))
        .collect();
    let shells: Vec<String> = w.provenance.braid_shells().map(|s| hex::encode(&s.digest[..6])).collect();
    format!("g{}:h{}:s{}:b{}", w.runtime.global_tick().as_u64(), w.runtime.heads().iter().count(), strands.join(","), shells.join(","))
}

fn reval_slots(r: &StrandOverlapRevalidation, flags: &mut Vec<String>) -> (char, Vec<u64>) {
    let c = match r {
        StrandOverlapRevalidation::Clean { .. } => 'C',
        StrandOverlapRevalidation::Obstructed { .. } => 'O',
        StrandOverlapRevalidation::Conflict { .. } => 'X',
    };
    (c, sorted_set(r.overlapping_slots().iter().map(|s| slot_of(s, flags))))
}
fn reason_code(r: ConflictReason) -> u8 {
    match r {
        ConflictReason::ChannelPolicyConflict => 1,
        ConflictReason::UnsupportedImport => 2,
        ConflictReason::BaseDivergence => 3,
        ConflictReason::ParentFootprintOverlap => 4,
        ConflictReason::QuantumMismatch => 5,
        ConflictReason::PluralUpstream => 6,
    }
}
fn plan_str(p: &SettlementPlan, flags: &mut Vec<String>) -> String {
    let mut out = Vec::new();
    for d in &p.decisions {
        out.push(match d {
            SettlementDecision::ImportCandidate(c) => match &c.overlap_revalidation {
                None => format!("I{}", c.source_ref.worldline_tick.as_u64()),
                Some(r) => {
                    let (k, s) = reval_slots(r, flags);
                    format!("I{}:{k}{}", c.source_ref.worldline_tick.as_u64(), slots_str(&s))
                }
            },
            SettlementDecision::ConflictArtifact(c) => match &c.overlap_revalidation {
                None => format!("C{}:{}", c.source_ref.worldline_tick.as_u64(), reason_code(c.reason)),
                Some(r) => {
                    let (k, s) = reval_slots(r, flags);
                    format!("C{}:{}:{k}{}", c.source_ref.worldline_tick.as_u64(), reason_code(c.reason), slots_str(&s))
                }
            },
            SettlementDecision::PluralAlternative(c) => format!(
                "P{}:{}",
                c.source_ref.worldline_tick.as_u64(),
                slots_str(&sorted_set(c.overlapping_slots.iter().map(|s| slot_of(s, flags))))
            ),
        });
    }
    if out.is_empty() {
        "-".into()
    } else {
        out.join(",")
    }
}
/// Latch law (settlement.rs: "later suffix entries cannot import past retained plurality" / blocked_reason): once an
/// entry is residue, nothing after it is imported; decisions follow the suffix ticks one by one.
fn plan_laws(p: &SettlementPlan, start: u64, flags: &mut Vec<String>, si: usize) {
    let mut blocked = false;
    for (i, d) in p.decisions.iter().enumerate() {
        let (t, imp) = match d {
            SettlementDecision::ImportCandidate(c) => (c.source_ref.worldline_tick.as_u64(), true),
            SettlementDecision::ConflictArtifact(c) => (c.source_ref.worldline_tick.as_u64(), false),
            SettlementDecision::PluralAlternative(c) => (c.source_ref.worldline_tick.as_u64(), false),
        };
        if t != start + i as u64 {
            flags.push(format!("plan:decisions-do-not-follow-suffix@{si}"));
        }
        if imp && blocked {
            flags.push(format!("plan:import-after-residue@{si}"));
        }
        if !imp {
            blocked = true;
        }
    }
}

fn settle_err_class(e: &SettlementError) -> &'static str {
    match e {
        SettlementError::StrandNotFound(_) => "notfound",
        SettlementError::NonSharedStrand { .. } => "nonshared",
        SettlementError::RuntimeProvenanceDrift { .. } => "drift",
        SettlementError::BraidShell(_) => "shell",
        SettlementError::StrandBasis(_) => "basis",
        _ => "other",
    }
}
fn policy(p: &str) -> SettlementPolicy {
    if p == "p" {
        SettlementPolicy::allow_plural_over_footprint_overlap([0x77; 32])
    } else {
        SettlementPolicy::default()
    }
}

struct StrandInfo {
    src: usize,
    child: usize,
    fork_tick: u64,
}

fn run_case(steps: &str) -> (String, String, String, Vec<String>) {
    let mut w = new_world();
    let mut flags: Vec<String> = Vec::new();
    let mut ins: Vec<String> = Vec::new();
    let mut obs: Vec<String> = Vec::new();
    let mut strands: BTreeMap<usize, StrandInfo> = BTreeMap::new();
    let init = dump_str(&dump(&w.base));
    for (si, step) in steps.split('/').enumerate() {
        if step.is_empty() || step == "-" {
            continue;
        }
        let f: Vec<&str> = step.split(':').collect();
        match f[0] {
            "T" => {
                let mut targets: BTreeSet<usize> = BTreeSet::new();
                for intent in f.get(1).copied().unwrap_or("").split(',') {
                    let Some((l, prog)) = intent.split_once('.') else { continue };
                    let l: usize = l.parse().unwrap_or(0);
                    if !w.lanes.contains(&l) {
                        continue;
                    }
                    let mut bytes = b"VF".to_vec();
                    bytes.extend_from_slice(prog.as_bytes());
                    let env = IngressEnvelope::local_intent(IngressTarget::DefaultWriter { worldline_id: wl(l) }, make_intent_kind("vf15/prog"), bytes);
                    if w.runtime.ingest(env).is_ok() {
                        targets.insert(l);
                    }
                }
                let before_all: BTreeMap<usize, String> = w.lanes.iter().map(|l| (*l, lane_fp(&w, *l))).collect();
                let gfp = global_fp(&w);
                match SchedulerCoordinator::super_tick(&mut w.runtime, &mut w.provenance, &mut w.engine) {
                    Ok(records) => {
                        let mut ticked: Vec<usize> = Vec::new();
                        let mut o = Vec::new();
                        let mut i = Vec::new();
                        for rec in &records {
                            let l = w.lanes.iter().copied().find(|l| wl(*l) == rec.head_key.worldline_id).expect("lane");
                            ticked.push(l);
                            let t = rec.worldline_tick_after.as_u64();
                            let e = w.provenance.entry(wl(l), wt(t - 1)).expect("entry");
                            i.push(format!("{l}@{}", patch_str(&e, &mut flags)));
                            let st = w.runtime.worldlines().get(&wl(l)).expect("frontier").state();
                            if st.state_root() != e.expected.state_root {
                                flags.push(format!("tick:live-root-differs-from-entry@{si}"));
                            }
                            o.push(format!("{l}@{t}@{}", dump_str(&dump(st))));
                        }
                        // lane isolation: every lane that did not tick is bit-for-bit what it was
                        for l in &w.lanes {
                            if !ticked.contains(l) && lane_fp(&w, *l) != before_all[l] {
                                flags.push(format!("isolation:lane-{l}-changed-by-foreign-tick@{si}"));
                            }
                        }
                        // strand relation untouched by ticks
                        let g2 = global_fp(&w);
                        if g2.split_once(':').map(|x| x.1.to_string()) != gfp.split_once(':').map(|x| x.1.to_string()) {
                            flags.push(format!("isolation:tick-changed-heads-strands-or-shells@{si}"));
                        }
                        for (k, s) in &strands {
                            let p_t = ticked.contains(&s.src);
                            let c_t = ticked.contains(&s.child);
                            if c_t && !p_t && lane_fp(&w, s.src) != before_all[&s.src] {
                                flags.push(format!("isolation:strand-{k}-tick-changed-parent@{si}"));
                            }
                            if p_t && !c_t && lane_fp(&w, s.child) != before_all[&s.child] {
                                flags.push(format!("isolation:parent-tick-changed-strand-{k}@{si}"));
                            }
                        }
                        ins.push(format!("T:{}", if i.is_empty() { "-".into() } else { i.join("~") }));
                        obs.push(format!("T:{}", if o.is_empty() { "-".into() } else { o.join("~") }));
                    }
                    Err(e) => {
                        flags.push(format!("NOTE-super-tick-error:{}", format!("{e:?}").chars().take(60).collect::<String>()));
                        // a faulted pass commits nothing (C09's subject): for this property it is an empty pass
                        ins.push("T:-".into());
                        obs.push("T:-".into());
                    }
                }
            }
            "F" if f.len() >= 6 => {
                let src: usize = f[1].parse().unwrap_or(0);
                let k: u64 = f[2].parse().unwrap_or(0);
                let child: usize = f[3].parse().unwrap_or(1);
                let sx: usize = f[4].parse().unwrap_or(0);
                let mode = f[5];
                let mut heads = vec![writer(head_key(child, "default"), true)];
                if mode == "H" {
                    heads.push(writer(head_key(child, "second"), false));
                }
                if mode == "W" {
                    heads = vec![writer(head_key(src, "stray"), false)];
                }
                let keys: Vec<WriterHeadKey> = heads.iter().map(|h| *h.key()).collect();
                let heads_before: BTreeSet<Vec<u8>> = w.runtime.heads().iter().map(|(k, _)| [k.worldline_id.as_bytes().as_slice(), k.head_id.as_bytes().as_slice()].concat()).collect();
                let before = format!("{}#{}", world_fp(&w, &[]), global_fp(&w));
                let req = ForkStrandRequest {
                    strand_id: sid(sx),
                    source_lane_id: wl(src),
                    fork_tick: wt(k),
                    child_worldline_id: wl(child),
                    writer_heads: heads,
                    retention_posture: posture(mode != "A"),
                };
                let r = w.runtime.fork_strand(&mut w.provenance, req);
                ins.push(format!("F:{src}:{k}:{child}:{sx}:{mode}"));
                match r {
                    Ok(receipt) => {
                        w.lanes.insert(child);
                        strands.insert(sx, StrandInfo { src, child, fork_tick: k });
                        // fork_prefix (implementation only): the child's history is the parent's first k+1 entries
                        let clen = w.provenance.len(wl(child)).unwrap_or(0);
                        if clen != k + 1 {
                            flags.push(format!("fork:child-history-length-{clen}-expected-{}@{si}", k + 1));
                        }
                        for t in 0..clen.min(k + 1) {
                            let (Ok(pe), Ok(ce)) = (w.provenance.entry(wl(src), wt(t)), w.provenance.entry(wl(child), wt(t))) else {
                                flags.push(format!("fork:entry-missing@{t}"));
                                continue;
                            };
                            if pe.expected != ce.expected || pe.patch != ce.patch || pe.event_kind != ce.event_kind || pe.outputs != ce.outputs {
                                flags.push(format!("fork:child-entry-{t}-differs-from-parent@{si}"));
                            }
                            if ce.worldline_id != wl(child) || ce.worldline_tick != wt(t) {
                                flags.push(format!("fork:child-entry-{t}-not-rewritten@{si}"));
                            }
                            if ce.head_key.map(|h| h.worldline_id == wl(src)).unwrap_or(false) || ce.parents.iter().any(|p| p.worldline_id == wl(src)) {
                                flags.push(format!("fork:child-entry-{t}-still-names-parent-lane@{si}"));
                            }
                            if pe.head_key.map(|h| h.head_id) != ce.head_key.map(|h| h.head_id)
                                || pe.parents.iter().map(|p| (p.worldline_tick, p.commit_hash)).collect::<Vec<_>>()
                                    != ce.parents.iter().map(|p| (p.worldline_tick, p.commit_hash)).collect::<Vec<_>>()
                            {
                                flags.push(format!("fork:child-entry-{t}-head-or-parents-changed@{si}"));
                            }
                        }
                        // basis pins the coordinate
                        if let Ok(pe) = w.provenance.entry(wl(src), wt(k)) {
                            let b = receipt.fork_basis_ref;
                            if b.source_lane_id != wl(src) || b.fork_tick != wt(k) || b.commit_hash != pe.expected.commit_hash
                                || b.boundary_hash != pe.expected.state_root || b.provenance_ref != pe.as_ref()
                            {
                                flags.push(format!("fork:basis-does-not-pin-source-coordinate@{si}"));
                            }
                        }
                        // fresh heads
                        for key in &keys {
                            let kb = [key.worldline_id.as_bytes().as_slice(), key.head_id.as_bytes().as_slice()].concat();
                            if key.worldline_id != wl(child) || heads_before.contains(&kb) {
                                flags.push(format!("fork:writer-head-shared-or-foreign@{si}"));
                            }
                        }
                        if receipt.writer_heads != keys {
                            flags.push(format!("fork:receipt-heads-differ@{si}"));
                        }
                        let fr = w.runtime.worldlines().get(&wl(child)).expect("child frontier");
                        if let Ok(pe) = w.provenance.entry(wl(src), wt(k)) {
                            if fr.state().state_root() != pe.expected.state_root {
                                flags.push(format!("fork:child-state-differs-from-boundary@{si}"));
                            }
                        }
                        // the source lane and all other lanes are untouched
                        let after = world_fp(&w, &[child]);
                        if !before.starts_with(&after) {
                            flags.push(format!("fork:other-lanes-changed@{si}"));
                        }
                        obs.push(format!("F:ok:{}:{}:{}", clen, fr.frontier_tick().as_u64(), dump_str(&dump(fr.state()))));
                    }
                    Err(e) => {
                        let after = format!("{}#{}", world_fp(&w, &[]), global_fp(&w));
                        if after != before || w.provenance.len(wl(child)).is_ok() != w.lanes.contains(&child) {
                            flags.push(format!("fork:failed-fork-changed-state@{si}"));
                        }
                        flags.push(format!("NOTE-fork-error:{}", format!("{e:?}").chars().take(50).collect::<String>().replace(' ', "_")));
                        obs.push("F:err".into());
                    }
                }
            }
            "R" if f.len() >= 2 => {
                let sx: usize = f[1].parse().unwrap_or(0);
                ins.push(format!("R:{sx}"));
                let Some(s) = w.runtime.strands().get(&sid(sx)) else {
                    obs.push("R:nostrand".into());
                    continue;
                };
                match s.live_basis_report(&w.provenance) {
                    Ok(rp) => {
                        let cls = match &rp.parent_revalidation {
                            StrandRevalidationState::AtAnchor => "A".to_string(),
                            StrandRevalidationState::ParentAdvancedDisjoint { .. } => "D".to_string(),
                            StrandRevalidationState::RevalidationRequired { overlapping_slots, .. } => {
                                format!("V{}", slots_str(&sorted_set(overlapping_slots.iter().map(|s| slot_of(s, &mut flags)))))
                            }
                        };
                        // independent recomputation from the two histories: parent-declared writes after the anchor
                        // that fall into the strand suffix's declared in/out slots
                        if let Some(info) = strands.get(&sx) {
                            let start = info.fork_tick + 1;
                            let plen = w.provenance.len(wl(info.src)).unwrap_or(0);
                            let clen = w.provenance.len(wl(info.child)).unwrap_or(0);
                            let mut pw: BTreeSet<u64> = BTreeSet::new();
                            let mut closed: BTreeSet<u64> = BTreeSet::new();
                            for t in start..plen {
                                if let Ok(e) = w.provenance.entry(wl(info.src), wt(t)) {
                                    if let Some(p) = &e.patch {
                                        pw.extend(p.out_slots.iter().map(|s| slot_of(s, &mut flags)));
                                    }
                                }
                            }
                            for t in start..clen {
                                if let Ok(e) = w.provenance.entry(wl(info.child), wt(t)) {
                                    if let Some(p) = &e.patch {
                                        closed.extend(p.in_slots.iter().chain(p.out_slots.iter()).map(|s| slot_of(s, &mut flags)));
                                    }
                                }
                            }
                            let expect: Vec<u64> = pw.intersection(&closed).copied().collect();
                            let want = if plen == start { "A".to_string() } else if expect.is_empty() { "D".to_string() } else { format!("V{}", slots_str(&expect)) };
                            if want != cls {
                                flags.push(format!("report:class-or-overlap-not-exact@{si}"));
                            }
                        }
                        let rd = sorted_set(rp.owned_divergence.read_slots().map(|s| slot_of(s, &mut flags)));
                        let wr = sorted_set(rp.owned_divergence.write_slots().map(|s| slot_of(s, &mut flags)));
                        let pw = sorted_set(rp.parent_movement.write_slots().map(|s| slot_of(s, &mut flags)));
                        obs.push(format!(
                            "R:{cls}:{}:{}:{}:{}:{}:{}",
                            slots_str(&rd),
                            slots_str(&wr),
                            slots_str(&pw),
                            rp.source_suffix_start_tick.as_u64(),
                            rp.source_suffix_end_tick.map(|t| t.as_u64().to_string()).unwrap_or("-".into()),
                            rp.realized_parent_ref.worldline_tick.as_u64()
                        ));
                    }
                    Err(_) => obs.push("R:err".into()),
                }
            }
            "P" if f.len() >= 3 => {
                let sx: usize = f[1].parse().unwrap_or(0);
                let pol = policy(f[2]);
                ins.push(format!("P:{sx}:{}", f[2]));
                let before = format!("{}#{}", world_fp(&w, &[]), global_fp(&w));
                let a = SettlementService::plan_with_policy(&w.runtime, &w.provenance, sid(sx), &pol);
                let b = SettlementService::plan_with_policy(&w.runtime, &w.provenance, sid(sx), &pol);
                let after = format!("{}#{}", world_fp(&w, &[]), global_fp(&w));
                if before != after {
                    flags.push(format!("plan:changed-state@{si}"));
                }
                match (a, b) {
                    (Ok(a), Ok(b)) => {
                        if a != b || a.to_abi() != b.to_abi() {
                            flags.push(format!("plan:not-deterministic@{si}"));
                        }
                        plan_laws(&a, a.basis_report.source_suffix_start_tick.as_u64(), &mut flags, si);
                        obs.push(format!("P:{}", plan_str(&a, &mut flags)));
                    }
                    (Err(a), Err(b)) => {
                        if settle_err_class(&a) != settle_err_class(&b) {
                            flags.push(format!("plan:not-deterministic@{si}"));
                        }
                        obs.push(format!("P:err:{}", settle_err_class(&a)));
                    }
                    _ => {
                        flags.push(format!("plan:not-deterministic@{si}"));
                        obs.push("P:mixed".into());
                    }
                }
            }
            "S" if f.len() >= 3 => {
                let sx: usize = f[1].parse().unwrap_or(0);
                let pol = policy(f[2]);
                let inject = f.get(3).copied() == Some("x");
                ins.push(format!("S:{sx}:{}:{}", f[2], if inject { "x" } else { "-" }));
                let info = strands.get(&sx).map(|s| (s.src, s.child, s.fork_tick));
                let mut injected = false;
                if inject {
                    if let Ok(plan) = SettlementService::plan_with_policy(&w.runtime, &w.provenance, sid(sx), &pol) {
                        let ids: Vec<[u8; 32]> = plan
                            .decisions
                            .iter()
                            .filter_map(|d| match d {
                                SettlementDecision::PluralAlternative(p) => Some(p.plural_id),
                                _ => None,
                            })
                            .collect();
                        if !ids.is_empty() {
                            let dummy = BraidShell::assemble(
                                plan.target_worldline,
                                plan.target_base_ref,
                                vec![BraidShellMember {
                                    member_ref: BraidMemberRef::Revealed(make_strand_id("vf15-dummy-binder")),
                                    support_pin_digest: [1; 32],
                                    basis_digest: [2; 32],
                                    frontier_digest: [3; 32],
                                    footprint_digest: [4; 32],
                                    claim_digest: [5; 32],
                                    verdict: MemberVerdict::Plural,
                                    verdict_digest: [6; 32],
                                    posture: CausalPosture::AuthorOnly,
                                }],
                                [0xAB; 32],
                                BraidShellOutcome::Plural { alternative_ids: ids },
                                CausalPosture::AuthorOnly,
                            );
                            match dummy.map(|d| w.provenance.append_braid_shell(d)) {
                                Ok(Ok(_)) => injected = true,
                                other => flags.push(format!("NOTE-injection-not-possible:{}", format!("{other:?}").chars().take(40).collect::<String>().replace(' ', "_"))),
                            }
                        }
                    }
                }
                if let Some(last) = ins.last_mut() {
                    *last = format!("S:{sx}:{}:{}", f[2], if injected { "x" } else { "-" });
                }
                let before = format!("{}#{}", world_fp(&w, &[]), global_fp(&w));
                let pre_parent = info.map(|(src, _, _)| w.runtime.worldlines().get(&wl(src)).map(|fr| dump(fr.state())).unwrap_or_default());
                let pre_len = info.map(|(src, _, _)| w.provenance.len(wl(src)).unwrap_or(0));
                // what the parent wrote / changed since the fork, from the implementation's own records
                let mut parent_declared: BTreeSet<u64> = BTreeSet::new();
                let mut parent_changed: BTreeSet<u64> = BTreeSet::new();
                if let (Some((src, _, k)), Some(pre)) = (info, pre_parent.as_ref()) {
                    for t in (k + 1)..pre_len.unwrap_or(0) {
                        if let Ok(e) = w.provenance.entry(wl(src), wt(t)) {
                            if let Some(p) = &e.patch {
                                for s in &p.out_slots {
                                    parent_declared.insert(slot_of(s, &mut flags));
                                }
                            }
                        }
                    }
                    if let Some(fr) = w.runtime.worldlines().get(&wl(src)) {
                        if let Ok(at_fork) = w.provenance.replay_worldline_state_at(wl(src), fr.state(), wt(k + 1)) {
                            let d0 = dump(&at_fork);
                            for s in d0.keys().chain(pre.keys()) {
                                if d0.get(s) != pre.get(s) {
                                    parent_changed.insert(*s);
                                }
                            }
                        } else {
                            flags.push(format!("settle:parent-does-not-replay-before-settlement@{si}"));
                        }
                    }
                }
                let r = SettlementService::settle_with_policy(&mut w.runtime, &mut w.provenance, sid(sx), &pol);
                match r {
                    Ok(res) => {
                        let (src, child, _k) = info.expect("settled strand is known");
                        let plan_s = plan_str(&res.plan, &mut flags);
                        plan_laws(&res.plan, res.plan.basis_report.source_suffix_start_tick.as_u64(), &mut flags, si);
                        let fr = w.runtime.worldlines().get(&wl(src)).expect("target frontier");
                        let post = dump(fr.state());
                        let len = w.provenance.len(wl(src)).unwrap_or(0);
                        // kinds of the appended entries, in order
                        let mut kinds = Vec::new();
                        for t in pre_len.unwrap_or(0)..len {
                            if let Ok(e) = w.provenance.entry(wl(src), wt(t)) {
                                kinds.push(match e.event_kind {
                                    ProvenanceEventKind::MergeImport { source_worldline_tick, .. } => format!("I{}", source_worldline_tick.as_u64()),
                                    ProvenanceEventKind::ConflictArtifact { .. } => "C".to_string(),
                                    ProvenanceEventKind::PluralArtifact { .. } => "P".to_string(),
                                    _ => "?".to_string(),
                                });
                            }
                        }
                        let expect_kinds: Vec<String> = res
                            .plan
                            .decisions
                            .iter()
                            .map(|d| match d {
                                SettlementDecision::ImportCandidate(c) => format!("I{}", c.source_ref.worldline_tick.as_u64()),
                                SettlementDecision::ConflictArtifact(_) => "C".to_string(),
                                SettlementDecision::PluralAlternative(_) => "P".to_string(),
                            })
                            .collect();
                        if kinds != expect_kinds {
                            flags.push(format!("settle:appended-entries-do-not-follow-plan@{si}"));
                        }
                        if fr.frontier_tick().as_u64() != len {
                            flags.push(format!("settle:frontier-tick-differs-from-history-length@{si}"));
                        }
                        // never overwrite: whatever the parent wrote / changed since the fork keeps the parent's value
                        if let Some(pre) = pre_parent.as_ref() {
                            for s in parent_declared.iter().chain(parent_changed.iter()) {
                                if pre.get(s) != post.get(s) {
                                    flags.push(format!("settle:parent-slot-{s}-overwritten@{si}"));
                                    break;
                                }
                            }
                            // non-import artifacts carry no ops: with no import nothing changes at all
                            if res.appended_imports.is_empty() && *pre != post {
                                flags.push(format!("settle:state-changed-without-import@{si}"));
                            }
                        }
                        // imports take the strand's values on what the strand wrote and the parent did not touch
                        if let Some(last) = res.plan.decisions.iter().filter_map(|d| match d {
                            SettlementDecision::ImportCandidate(c) => Some(c.source_ref.worldline_tick.as_u64()),
                            _ => None,
                        }).last() {
                            if let Some(cfr) = w.runtime.worldlines().get(&wl(child)) {
                                if let Ok(cst) = w.provenance.replay_worldline_state_at(wl(child), cfr.state(), wt(last + 1)) {
                                    let cd = dump(&cst);
                                    let mut written: BTreeSet<u64> = BTreeSet::new();
                                    for d in &res.plan.decisions {
                                        if let SettlementDecision::ImportCandidate(c) = d {
                                            if let Ok(e) = w.provenance.entry(wl(child), c.source_ref.worldline_tick) {
                                                if let Some(p) = &e.patch {
                                                    for s in &p.out_slots {
                                                        written.insert(slot_of(s, &mut flags));
                                                    }
                                                }
                                            }
                                        }
                                    }
                                    for s in &written {
                                        if !parent_declared.contains(s) && !parent_changed.contains(s) && cd.get(s) != post.get(s) {
                                            flags.push(format!("settle:import-did-not-take-strand-value-slot-{s}@{si}"));
                                            break;
                                        }
                                    }
                                }
                            }
                        }
                        // parent stays verifiable from its own history
                        match w.provenance.replay_worldline_state_at(wl(src), fr.state(), wt(len)) {
                            Ok(st) => {
                                if st.state_root() != fr.state().state_root() || dump(&st) != post {
                                    flags.push(format!("settle:replayed-parent-differs-from-live@{si}"));
                                }
                            }
                            Err(e) => flags.push(format!("settle:parent-no-longer-replays@{si}:{}", format!("{e:?}").chars().take(40).collect::<String>().replace(' ', "_"))),
                        }
                        // every other lane untouched
                        let after = world_fp(&w, &[src]);
                        let before_other: String = before.split('#').next().unwrap_or("").split('|').filter(|x| !x.is_empty() && !x.starts_with(&format!("{src}:"))).map(|x| format!("{x}|")).collect();
                        if after != before_other {
                            flags.push(format!("settle:foreign-lane-changed@{si}"));
                        }
                        let shells_now = w.provenance.braid_shells().count();
                        if res.plan.decisions.is_empty() != res.braid_shell.is_none() {
                            flags.push(format!("settle:shell-law@{si}"));
                        }
                        let _ = shells_now;
                        let ticks = |v: &Vec<warp_core::ProvenanceRef>| slots_str(&v.iter().map(|r| r.worldline_tick.as_u64()).collect::<Vec<_>>());
                        obs.push(format!(
                            "S:ok:{}:{}:{}:{}:{}:{}:{}",
                            plan_s,
                            ticks(&res.appended_imports),
                            ticks(&res.appended_conflicts),
                            ticks(&res.appended_plurals),
                            res.braid_shell.is_some() as u8,
                            len,
                            dump_str(&post)
                        ));
                    }
                    Err(e) => {
                        let after = format!("{}#{}", world_fp(&w, &[]), global_fp(&w));
                        if after != before {
                            flags.push(format!("settle:failed-settle-changed-state@{si}"));
                        }
                        if injected && settle_err_class(&e) != "shell" {
                            flags.push(format!("NOTE-injected-but-error-{}", settle_err_class(&e)));
                        }
                        obs.push(format!("S:err:{}", settle_err_class(&e)));
                    }
                }
            }
            "X" if f.len() >= 4 => {
                let a: usize = f[1].parse().unwrap_or(0);
                let b: usize = f[2].parse().unwrap_or(0);
                let t: u64 = f[3].parse().unwrap_or(0);
                let before = world_fp(&w, &[]);
                let r = w.runtime.pin_support(&w.provenance, sid(a), sid(b), wt(t));
                if world_fp(&w, &[]) != before {
                    flags.push(format!("pin:changed-a-lane@{si}"));
                }
                if let Ok(pin) = &r {
                    let ok = strands.get(&b).map(|s| pin.worldline_id == wl(s.child)).unwrap_or(false)
                        && w.provenance.entry(pin.worldline_id, wt(t)).map(|e| e.expected.state_root == pin.state_hash).unwrap_or(false);
                    if !ok {
                        flags.push(format!("pin:does-not-pin-the-support-coordinate@{si}"));
                    }
                }
                ins.push(format!("X:{a}:{b}:{t}"));
                obs.push(format!("X:{}", if r.is_ok() { "ok" } else { "err" }));
            }
            _ => {
                ins.push("?".into());
                obs.push("?".into());
            }
        }
    }
    (init, ins.join("/"), obs.join("/"), flags)
}

fn main() {
    for line in read_cases() {
        let m = kv(&line);
        let id = m.get("id").cloned().unwrap_or_default();
        let steps = m.get("steps").cloned().unwrap_or_default();
        match catch(move || run_case(&steps)) {
            Ok((init, ins, obs, flags)) => {
                let notes: Vec<&String> = flags.iter().filter(|f| f.starts_with("NOTE")).collect();
                let mut bad: Vec<&String> = flags.iter().filter(|f| !f.starts_with("NOTE")).collect();
                bad.truncate(6);
                let orc = if bad.is_empty() { "ok".to_string() } else { format!("FAIL:{}", bad.iter().map(|s| s.as_str()).collect::<Vec<_>>().join(",")) };
                println!(
                    "id={id} init={init} in={} obs={} notes={} oracle={orc}",
                    if ins.is_empty() { "-" } else { &ins },
                    if obs.is_empty() { "-" } else { &obs },
                    if notes.is_empty() { "-".to_string() } else { notes.iter().map(|s| s.as_str()).collect::<Vec<_>>().join(",") }
                );
            }
            Err(p) => println!("id={id} init=- in=- obs=- notes=- oracle=FAIL:panic:{}", p.replace(' ', "_").chars().take(160).collect::<String>()),
        }
    }
}
