//! C20 harness: echo-cas MemoryTier / DiskTier / RetainedBlobIndex against op sequences, plus
//! the three causal-history export profiles of warp-core::wsc (kind=exp, see `exp` module below).
//!
//! case (one line):
//!   kind=mem  max=<n|->  pool=<hex>,<hex>,...  ops=<tok>;<tok>;...
//!   kind=disk            pool=...              ops=...
//!   kind=idx  max=<n|->  pool=...  coords=<nshex>/<schemahex>/<arthex>/<role 0..5>/<digest hex64>,...  ops=...
//! hash reference <href>:  #i = blake3(pool[i]),  ~i = same with the last bit flipped,  =<hex64> raw
//! store ops:  p:i put | v:<href>:i put_verified | g:<href> get | h:<href> has | i:<href> pin | u:<href> unpin
//!             q:<href> is_pinned | l list | r reopen | w:<href>:i env write file | d:<href> env delete | s:<href> stray temp
//! index ops:  R:c:i retain | L:c load | G:c:off:len:max load_range | B:<href> load_by_hash | D:c descriptor | F fresh store
//! output:     res=<tok>,... dump=<hash>:<get>:<pinned>;... len= bytes= pins= over= [files=..] oracle=<ok|FAIL:sig,...>
use echo_cas::{
    blob_hash, BlobHash, BlobStore, CasError, DiskTier, DiskTierError, MemoryTier, RetainedBlobIndex,
    RetainedBlobRole, RetentionError, SemanticBlobCoordinate,
};
use echo_verif_harness::*;
use std::collections::{BTreeMap, BTreeSet};
use std::path::{Path, PathBuf};

type H32 = [u8; 32];

struct Case {
    pool: Vec<Vec<u8>>,
    hashes: Vec<H32>,
}

impl Case {
    fn href(&self, s: &str) -> H32 {
        if let Some(i) = s.strip_prefix('#') {
            self.hashes[i.parse::<usize>().unwrap()]
        } else if let Some(i) = s.strip_prefix('~') {
            let mut h = self.hashes[i.parse::<usize>().unwrap()];
            h[31] ^= 1;
            h
        } else if let Some(x) = s.strip_prefix('=') {
            hex32(x)
        } else {
            panic!("bad href {s}")
        }
    }
}

fn bh(h: &H32) -> BlobHash {
    BlobHash::from_bytes(*h)
}
fn hx(h: &H32) -> String {
    hex::encode(h)
}
fn b3(b: &[u8]) -> H32 {
    *blake3::hash(b).as_bytes()
}

fn universe(c: &Case, ops: &[&str]) -> Vec<H32> {
    let mut u: BTreeSet<H32> = c.hashes.iter().copied().collect();
    for o in ops {
        for f in o.split(':') {
            if f.starts_with('#') || f.starts_with('~') || f.starts_with('=') {
                u.insert(c.href(f));
            }
        }
    }
    u.into_iter().collect()
}

fn get_tok(g: &Option<std::sync::Arc<[u8]>>) -> String {
    match g {
        None => "n".into(),
        Some(b) => format!("b{}", tohex(b)),
    }
}

// ------------------------------------------------------------------------------------------- memory tier

/// Applies one store op to a MemoryTier; returns the result token.  `refm`/`refpins` are the
/// harness's own reference map (oracle), `fails` collects oracle failures.
fn mem_op(
    st: &mut MemoryTier,
    c: &Case,
    tok: &str,
    refm: &mut BTreeMap<H32, Vec<u8>>,
    refpins: &mut BTreeSet<H32>,
    uni: &[H32],
    fails: &mut Vec<String>,
) -> String {
    let f: Vec<&str> = tok.split(':').collect();
    let before_len = st.len();
    let before_bytes = st.byte_count();
    let res = match f[0] {
        "p" => {
            let b = &c.pool[f[1].parse::<usize>().unwrap()];
            let h = st.put(b);
            let expect = b3(b);
            if *h.as_bytes() != expect {
                fails.push("put-returned-wrong-hash".into());
            }
            let was = refm.contains_key(&expect);
            refm.entry(expect).or_insert_with(|| b.clone());
            if was && (st.len() != before_len || st.byte_count() != before_bytes) {
                fails.push("put-not-idempotent".into());
            }
            match st.get(&h) {
                Some(g) if &*g == b.as_slice() => {}
                _ => fails.push("get-after-put-differs".into()),
            }
            format!("H{}", hx(h.as_bytes()))
        }
        "v" => {
            let h = c.href(f[1]);
            let b = &c.pool[f[2].parse::<usize>().unwrap()];
            let real = b3(b);
            let r = st.put_verified(bh(&h), b);
            if real != h {
                match &r {
                    Err(CasError::HashMismatch { expected, computed })
                        if *expected.as_bytes() == h && *computed.as_bytes() == real => {}
                    Ok(()) => {
                        if refm.contains_key(&h) {
                            fails.push("mem-put-verified-present-skips-verification".into());
                        } else {
                            fails.push("put-verified-accepts-mismatch".into());
                        }
                    }
                    Err(_) => fails.push("put-verified-wrong-error-fields".into()),
                }
                if st.len() != before_len || st.byte_count() != before_bytes {
                    fails.push("rejected-put-verified-mutated-store".into());
                }
            } else {
                if r.is_err() {
                    fails.push("put-verified-rejects-matching-bytes".into());
                }
                let was = refm.contains_key(&h);
                refm.entry(h).or_insert_with(|| b.clone());
                if was && (st.len() != before_len || st.byte_count() != before_bytes) {
                    fails.push("put-verified-not-idempotent".into());
                }
                match st.get(&bh(&h)) {
                    Some(g) if &*g == b.as_slice() => {}
                    _ => fails.push("get-after-put-verified-differs".into()),
                }
            }
            match r {
                Ok(()) => "ok".into(),
                Err(CasError::HashMismatch { computed, .. }) => format!("mm:{}", hx(computed.as_bytes())),
            }
        }
        "g" => {
            let h = c.href(f[1]);
            let g = st.get(&bh(&h));
            match (&g, refm.get(&h)) {
                (None, None) => {}
                (Some(b), Some(e)) => {
                    if b3(b) != h {
                        fails.push("get-returned-bytes-not-hashing-to-key".into());
                    }
                    if &**b != e.as_slice() {
                        fails.push("get-returned-other-bytes".into());
                    }
                }
                (Some(_), None) => fails.push("get-returned-never-stored".into()),
                (None, Some(_)) => fails.push("get-lost-stored-blob".into()),
            }
            get_tok(&g)
        }
        "h" => {
            let h = c.href(f[1]);
            let r = st.has(&bh(&h));
            if r != refm.contains_key(&h) {
                fails.push("has-disagrees-with-reference".into());
            }
            format!("{}", r as u8)
        }
        "i" | "u" => {
            let h = c.href(f[1]);
            let snap: Vec<String> = uni.iter().map(|x| get_tok(&st.get(&bh(x)))).collect();
            if f[0] == "i" {
                st.pin(&bh(&h));
                refpins.insert(h);
            } else {
                st.unpin(&bh(&h));
                refpins.remove(&h);
            }
            let snap2: Vec<String> = uni.iter().map(|x| get_tok(&st.get(&bh(x)))).collect();
            if snap != snap2 || st.len() != before_len || st.byte_count() != before_bytes {
                fails.push("pin-changed-content".into());
            }
            "-".into()
        }
        "q" => {
            let h = c.href(f[1]);
            let r = st.is_pinned(&bh(&h));
            if r != refpins.contains(&h) {
                fails.push("is-pinned-disagrees-with-reference".into());
            }
            format!("{}", r as u8)
        }
        "l" | "r" | "w" | "d" | "s" => "-".into(),
        _ => panic!("mem op {tok}"),
    };
    let total: usize = refm.values().map(Vec::len).sum();
    if st.len() != refm.len() || st.byte_count() != total {
        fails.push("accounting-differs-from-reference".into());
    }
    if st.pinned_count() != refpins.len() {
        fails.push("pin-count-differs-from-reference".into());
    }
    res
}

fn mem_dump(st: &MemoryTier, uni: &[H32]) -> String {
    let d: Vec<String> = uni
        .iter()
        .map(|h| format!("{}:{}:{}", hx(h), get_tok(&st.get(&bh(h))), st.is_pinned(&bh(h)) as u8))
        .collect();
    format!(
        "dump={} len={} bytes={} pins={} over={}",
        if d.is_empty() { "-".into() } else { d.join(";") },
        st.len(),
        st.byte_count(),
        st.pinned_count(),
        st.is_over_budget() as u8
    )
}

fn run_mem(c: &Case, max: Option<usize>, ops: &[&str]) -> String {
    let mut st = match max {
        Some(m) => MemoryTier::with_limits(m),
        None => MemoryTier::new(),
    };
    let uni = universe(c, ops);
    let mut refm = BTreeMap::new();
    let mut refpins = BTreeSet::new();
    let mut fails = Vec::new();
    let mut res = Vec::new();
    for o in ops {
        // a panic inside the implementation is an oracle verdict for this op, not the end of the run
        match catch(std::panic::AssertUnwindSafe(|| mem_op(&mut st, c, o, &mut refm, &mut refpins, &uni, &mut fails))) {
            Ok(r) => res.push(r),
            Err(_) => {
                fails.push(format!("panic:{}", o.split(':').next().unwrap_or("?")));
                res.push("panic".into());
                break;
            }
        }
    }
    if let Some(m) = max {
        if st.is_over_budget() != (st.byte_count() > m) {
            fails.push("over-budget-flag-wrong".into());
        }
    }
    finish_line(res, mem_dump(&st, &uni), fails)
}

fn finish_line(res: Vec<String>, dump: String, mut fails: Vec<String>) -> String {
    fails.sort();
    fails.dedup();
    let orc = if fails.is_empty() { "ok".to_string() } else { format!("FAIL:{}", fails.join(",")) };
    format!("res={} {} oracle={}", if res.is_empty() { "-".into() } else { res.join(",") }, dump, orc)
}

// ------------------------------------------------------------------------------------------- disk tier

fn scratch_dir(tag: &str) -> PathBuf {
    static N: std::sync::atomic::AtomicU64 = std::sync::atomic::AtomicU64::new(0);
    let n = N.fetch_add(1, std::sync::atomic::Ordering::Relaxed);
    let p = std::env::temp_dir().join(format!("C20-{}-{}-{}", tag, std::process::id(), n));
    let _ = std::fs::remove_dir_all(&p);
    p
}

fn blob_path(root: &Path, h: &H32) -> PathBuf {
    let hex = hx(h);
    root.join("blobs").join(&hex[..2]).join(hex)
}

fn disk_get_tok(r: &Result<Option<std::sync::Arc<[u8]>>, DiskTierError>) -> String {
    match r {
        Ok(g) => get_tok(g),
        Err(DiskTierError::Cas(CasError::HashMismatch { computed, .. })) => format!("mm:{}", hx(computed.as_bytes())),
        Err(DiskTierError::Io { .. }) => "io".into(),
        Err(DiskTierError::InvalidBlobPath { .. }) => "badpath".into(),
    }
}

/// (visible blob files name:content, number of dot-files) under root/blobs/*/
fn scan(root: &Path) -> (Vec<(String, Vec<u8>)>, usize) {
    let mut files = Vec::new();
    let mut dots = 0;
    if let Ok(shards) = std::fs::read_dir(root.join("blobs")) {
        for sh in shards.flatten() {
            if let Ok(es) = std::fs::read_dir(sh.path()) {
                for e in es.flatten() {
                    let name = e.file_name().to_string_lossy().to_string();
                    if name.starts_with('.') {
                        dots += 1;
                    } else {
                        files.push((name, std::fs::read(e.path()).unwrap_or_default()));
                    }
                }
            }
        }
    }
    files.sort();
    (files, dots)
}

fn run_disk(c: &Case, ops: &[&str]) -> String {
    let root = scratch_dir("disk");
    let mut st = DiskTier::open(&root).expect("open");
    let uni = universe(c, ops);
    // reference: what each file holds now (API writes + environment faults)
    let mut reff: BTreeMap<H32, Vec<u8>> = BTreeMap::new();
    let mut refpins: BTreeSet<H32> = BTreeSet::new();
    let mut strays = 0usize;
    let mut fails: Vec<String> = Vec::new();
    let mut res = Vec::new();
    let check_get = |h: &H32, r: &Result<Option<std::sync::Arc<[u8]>>, DiskTierError>,
                     reff: &BTreeMap<H32, Vec<u8>>,
                     fails: &mut Vec<String>| {
        match (r, reff.get(h)) {
            (Ok(None), None) => {}
            (Ok(Some(b)), Some(e)) => {
                if b3(b) != *h {
                    fails.push("get-returned-bytes-not-hashing-to-key".into());
                }
                if &**b != e.as_slice() {
                    fails.push("get-returned-other-bytes".into());
                }
            }
            (Err(DiskTierError::Cas(CasError::HashMismatch { expected, computed })), Some(e)) => {
                if b3(e) == *h {
                    fails.push("get-rejected-intact-file".into());
                }
                if expected.as_bytes() != h || *computed.as_bytes() != b3(e) {
                    fails.push("get-mismatch-wrong-error-fields".into());
                }
            }
            (Ok(Some(_)), None) => fails.push("get-returned-never-stored".into()),
            (Ok(None), Some(_)) => fails.push("get-lost-stored-blob".into()),
            (Err(_), _) => fails.push("get-unexpected-error".into()),
        }
    };
    for tok in ops {
        let f: Vec<&str> = tok.split(':').collect();
        let r = catch(std::panic::AssertUnwindSafe(|| match f[0] {
            "p" => {
                let b = &c.pool[f[1].parse::<usize>().unwrap()];
                match st.put(b) {
                    Ok(h) => {
                        if *h.as_bytes() != b3(b) {
                            fails.push("put-returned-wrong-hash".into());
                        }
                        reff.insert(b3(b), b.clone());
                        match st.get(&h) {
                            Ok(Some(g)) if &*g == b.as_slice() => {}
                            _ => fails.push("get-after-put-differs".into()),
                        }
                        format!("H{}", hx(h.as_bytes()))
                    }
                    Err(_) => {
                        fails.push("put-io-error".into());
                        "io".into()
                    }
                }
            }
            "v" => {
                let h = c.href(f[1]);
                let b = &c.pool[f[2].parse::<usize>().unwrap()];
                let real = b3(b);
                let before = scan(&root).0;
                let r = st.put_verified(bh(&h), b);
                if real != h {
                    match &r {
                        Err(DiskTierError::Cas(CasError::HashMismatch { expected, computed }))
                            if *expected.as_bytes() == h && *computed.as_bytes() == real => {}
                        Ok(()) => fails.push("put-verified-accepts-mismatch".into()),
                        Err(_) => fails.push("put-verified-wrong-error-fields".into()),
                    }
                    if scan(&root).0 != before {
                        fails.push("rejected-put-verified-mutated-store".into());
                    }
                } else {
                    if r.is_err() {
                        fails.push("put-verified-rejects-matching-bytes".into());
                    }
                    reff.insert(h, b.clone());
                    match st.get(&bh(&h)) {
                        Ok(Some(g)) if &*g == b.as_slice() => {}
                        _ => fails.push("get-after-put-verified-differs".into()),
                    }
                }
                match r {
                    Ok(()) => "ok".into(),
                    Err(DiskTierError::Cas(CasError::HashMismatch { computed, .. })) => {
                        format!("mm:{}", hx(computed.as_bytes()))
                    }
                    Err(_) => "io".into(),
                }
            }
            "g" => {
                let h = c.href(f[1]);
                let r = st.get(&bh(&h));
                check_get(&h, &r, &reff, &mut fails);
                disk_get_tok(&r)
            }
            "h" => {
                let h = c.href(f[1]);
                match st.has(&bh(&h)) {
                    Ok(b) => {
                        if b != reff.contains_key(&h) {
                            fails.push("has-disagrees-with-reference".into());
                        }
                        format!("{}", b as u8)
                    }
                    Err(_) => "io".into(),
                }
            }
            "i" | "u" => {
                let h = c.href(f[1]);
                let before = scan(&root).0;
                if f[0] == "i" {
                    st.pin(&bh(&h));
                    refpins.insert(h);
                } else {
                    st.unpin(&bh(&h));
                    refpins.remove(&h);
                }
                if scan(&root).0 != before {
                    fails.push("pin-changed-content".into());
                }
                "-".into()
            }
            "q" => {
                let h = c.href(f[1]);
                let r = st.is_pinned(&bh(&h));
                if r != refpins.contains(&h) {
                    fails.push("is-pinned-disagrees-with-reference".into());
                }
                format!("{}", r as u8)
            }
            "l" => match st.list() {
                Ok(l) => {
                    let want: Vec<H32> = reff.keys().copied().collect();
                    let got: Vec<H32> = l.iter().map(|h| *h.as_bytes()).collect();
                    if want != got {
                        fails.push("list-disagrees-with-reference".into());
                    }
                    let v: Vec<String> = got.iter().map(hx).collect();
                    format!("L{}", v.join("+"))
                }
                Err(_) => "io".into(),
            },
            "r" => {
                let before: Vec<String> = uni.iter().map(|h| disk_get_tok(&st.get(&bh(h)))).collect();
                st = DiskTier::open(&root).expect("reopen");
                refpins.clear();
                let after: Vec<String> = uni.iter().map(|h| disk_get_tok(&st.get(&bh(h)))).collect();
                if before != after {
                    fails.push("reopen-changed-content".into());
                }
                "-".into()
            }
            "w" => {
                let h = c.href(f[1]);
                let b = &c.pool[f[2].parse::<usize>().unwrap()];
                let p = blob_path(&root, &h);
                std::fs::create_dir_all(p.parent().unwrap()).unwrap();
                std::fs::write(&p, b).unwrap();
                reff.insert(h, b.clone());
                "-".into()
            }
            "d" => {
                let h = c.href(f[1]);
                let _ = std::fs::remove_file(blob_path(&root, &h));
                reff.remove(&h);
                "-".into()
            }
            "s" => {
                let h = c.href(f[1]);
                let p = blob_path(&root, &h);
                std::fs::create_dir_all(p.parent().unwrap()).unwrap();
                let t = p.parent().unwrap().join(format!(".{}.{}.tmp", hx(&h), 900_000 + strays));
                std::fs::write(&t, b"partial write left behind by a crashed writer").unwrap();
                strays += 1;
                "-".into()
            }
            _ => panic!("disk op {tok}"),
        }));
        let r = match r {
            Ok(r) => r,
            Err(_) => {
                fails.push(format!("panic:{}", f[0]));
                res.push("panic".into());
                break;
            }
        };
        res.push(r);
        if st.pinned_count() != refpins.len() {
            fails.push("pin-count-differs-from-reference".into());
        }
    }
    // final probes: every get is intact-or-typed-error
    let mut d = Vec::new();
    for h in &uni {
        let r = st.get(&bh(h));
        check_get(h, &r, &reff, &mut fails);
        d.push(format!("{}:{}:{}", hx(h), disk_get_tok(&r), st.is_pinned(&bh(h)) as u8));
    }
    let (files, dots) = scan(&root);
    if dots != strays {
        fails.push("temp-files-leaked".into());
    }
    let want: Vec<(String, Vec<u8>)> = reff.iter().map(|(h, b)| (hx(h), b.clone())).collect();
    if files != want {
        fails.push("files-differ-from-reference".into());
    }
    let fl: Vec<String> = files.iter().map(|(n, b)| format!("{}:{}", n, tohex(b))).collect();
    let dump = format!(
        "dump={} pins={} files={}",
        if d.is_empty() { "-".into() } else { d.join(";") },
        st.pinned_count(),
        if fl.is_empty() { "-".into() } else { fl.join(";") }
    );
    let _ = std::fs::remove_dir_all(&root);
    finish_line(res, dump, fails)
}

// ------------------------------------------------------------------------------------------- semantic index

fn role(n: u8) -> RetainedBlobRole {
    match n {
        0 => RetainedBlobRole::ContractArtifact,
        1 => RetainedBlobRole::ContractReceipt,
        2 => RetainedBlobRole::Witness,
        3 => RetainedBlobRole::ReadingPayload,
        4 => RetainedBlobRole::ReadingEnvelope,
        5 => RetainedBlobRole::ObserverArtifact,
        _ => panic!("role {n}"),
    }
}

fn parse_coord(s: &str) -> SemanticBlobCoordinate {
    let f: Vec<&str> = s.split('/').collect();
    SemanticBlobCoordinate {
        namespace: String::from_utf8(unhex(f[0])).unwrap(),
        schema_hash_hex: String::from_utf8(unhex(f[1])).unwrap(),
        artifact_hash_hex: String::from_utf8(unhex(f[2])).unwrap(),
        role: role(f[3].parse().unwrap()),
        semantic_digest: hex32(f[4]),
    }
}

fn ret_err_tok(e: &RetentionError) -> String {
    match e {
        RetentionError::MissingSemanticCoordinate { .. } => "E:coord".into(),
        RetentionError::MissingBlob { content_hash } => format!("E:blob:{}", hx(content_hash.as_bytes())),
        RetentionError::RangeExceedsBudget { requested_bytes, max_bytes } => {
            format!("E:budget:{requested_bytes}:{max_bytes}")
        }
        RetentionError::RangeOutOfBounds { offset, len, byte_len } => format!("E:oob:{offset}:{len}:{byte_len}"),
        RetentionError::SemanticCoordinateConflict { existing_content_hash, new_content_hash, .. } => format!(
            "E:conflict:{}:{}",
            hx(existing_content_hash.as_bytes()),
            hx(new_content_hash.as_bytes())
        ),
    }
}

fn run_idx(c: &Case, max: Option<usize>, coords: &[SemanticBlobCoordinate], ops: &[&str]) -> String {
    let fresh = |max: Option<usize>| match max {
        Some(m) => MemoryTier::with_limits(m),
        None => MemoryTier::new(),
    };
    let mut st = fresh(max);
    let mut ix = RetainedBlobIndex::default();
    let uni = universe(c, ops);
    let mut refm: BTreeMap<H32, Vec<u8>> = BTreeMap::new();
    let mut refpins: BTreeSet<H32> = BTreeSet::new();
    let mut first: BTreeMap<usize, Vec<u8>> = BTreeMap::new(); // coordinate index -> first retained content
    let mut fails: Vec<String> = Vec::new();
    let mut res = Vec::new();
    // distinct coordinate indices may denote equal coordinates; canonicalise to the first equal one
    let canon: Vec<usize> = (0..coords.len()).map(|i| (0..=i).find(|&j| coords[j] == coords[i]).unwrap()).collect();
    for tok in ops {
        let f: Vec<&str> = tok.split(':').collect();
        let r = catch(std::panic::AssertUnwindSafe(|| match f[0] {
            "R" => {
                let ci: usize = f[1].parse().unwrap();
                let b = &c.pool[f[2].parse::<usize>().unwrap()];
                let r = ix.retain(&mut st, coords[ci].clone(), b);
                match (&r, first.get(&canon[ci])) {
                    (Ok(d), None) => {
                        if d.coordinate != coords[ci] {
                            fails.push("descriptor-names-other-coordinate".into());
                        }
                        if *d.content_hash.as_bytes() != b3(b) || d.byte_len != b.len() as u64 {
                            fails.push("retain-descriptor-wrong".into());
                        }
                        first.insert(canon[ci], b.clone());
                    }
                    (Ok(d), Some(e)) => {
                        if d.coordinate != coords[ci] {
                            fails.push("descriptor-names-other-coordinate".into());
                        }
                        if e != b {
                            fails.push("retain-accepted-conflicting-bytes".into());
                        }
                        if *d.content_hash.as_bytes() != b3(e) || d.byte_len != e.len() as u64 {
                            fails.push("retain-descriptor-wrong".into());
                        }
                    }
                    (Err(RetentionError::SemanticCoordinateConflict { existing_content_hash, new_content_hash, .. }), Some(e)) => {
                        if e == b {
                            fails.push("retain-rejected-equal-content".into());
                        }
                        if *existing_content_hash.as_bytes() != b3(e) || *new_content_hash.as_bytes() != b3(b) {
                            fails.push("retain-conflict-wrong-fields".into());
                        }
                    }
                    (Err(RetentionError::SemanticCoordinateConflict { .. }), None) => {
                        fails.push("retain-conflict-on-free-coordinate".into())
                    }
                    (Err(_), _) => fails.push("retain-unexpected-error".into()),
                }
                if r.is_ok() {
                    refm.entry(b3(b)).or_insert_with(|| b.clone());
                    refpins.insert(b3(b));
                    if !st.is_pinned(&bh(&b3(b))) {
                        fails.push("retain-did-not-pin".into());
                    }
                }
                match r {
                    Ok(d) => format!("d{}/{}", hx(d.content_hash.as_bytes()), d.byte_len),
                    Err(e) => ret_err_tok(&e),
                }
            }
            "L" => {
                let ci: usize = f[1].parse().unwrap();
                let r = ix.load(&st, &coords[ci]);
                match (&r, first.get(&canon[ci])) {
                    (Ok(rb), Some(e)) => {
                        if &*rb.bytes != e.as_slice() {
                            fails.push("load-returns-other-bytes".into());
                        }
                        if b3(&rb.bytes) != *rb.descriptor.content_hash.as_bytes()
                            || rb.descriptor.byte_len != rb.bytes.len() as u64
                            || rb.descriptor.coordinate != coords[ci]
                        {
                            fails.push("load-descriptor-does-not-describe-bytes".into());
                        }
                    }
                    (Ok(_), None) => fails.push("load-answered-never-retained-coordinate".into()),
                    (Err(RetentionError::MissingSemanticCoordinate { .. }), None) => {}
                    (Err(RetentionError::MissingBlob { content_hash }), Some(e)) => {
                        if *content_hash.as_bytes() != b3(e) || refm.contains_key(&b3(e)) {
                            fails.push("load-missing-blob-wrong".into());
                        }
                    }
                    (Err(_), _) => fails.push("load-unexpected-error".into()),
                }
                match r {
                    Ok(rb) => format!(
                        "d{}/{}/{}",
                        hx(rb.descriptor.content_hash.as_bytes()),
                        rb.descriptor.byte_len,
                        tohex(&rb.bytes)
                    ),
                    Err(e) => ret_err_tok(&e),
                }
            }
            "G" => {
                let ci: usize = f[1].parse().unwrap();
                let off: u64 = f[2].parse().unwrap();
                let len: u64 = f[3].parse().unwrap();
                let mx: u64 = f[4].parse().unwrap();
                let cc = coords[ci].clone();
                let r = catch(std::panic::AssertUnwindSafe(|| ix.load_range(&st, &cc, off, len, mx)));
                match r {
                    Err(_) => {
                        fails.push("load-range-panicked".into());
                        "panic".into()
                    }
                    Ok(Ok(rr)) => {
                        match first.get(&canon[ci]) {
                            Some(e) => {
                                let o = off as usize;
                                if len > mx || o + len as usize > e.len() || &*rr.bytes != &e[o..o + len as usize] {
                                    fails.push("load-range-returned-wrong-slice".into());
                                }
                            }
                            None => fails.push("load-answered-never-retained-coordinate".into()),
                        }
                        format!(
                            "d{}/{}/{}/{}",
                            hx(rr.descriptor.content_hash.as_bytes()),
                            rr.descriptor.byte_len,
                            rr.offset,
                            tohex(&rr.bytes)
                        )
                    }
                    Ok(Err(e)) => ret_err_tok(&e),
                }
            }
            "B" => {
                let h = c.href(f[1]);
                match ix.load_by_hash(&st, bh(&h)) {
                    Ok(b) => {
                        if b3(&b) != h {
                            fails.push("get-returned-bytes-not-hashing-to-key".into());
                        }
                        format!("b{}", tohex(&b))
                    }
                    Err(e) => ret_err_tok(&e),
                }
            }
            "D" => {
                let ci: usize = f[1].parse().unwrap();
                match ix.descriptor(&coords[ci]) {
                    Some(d) => {
                        if d.coordinate != coords[ci] {
                            fails.push("descriptor-names-other-coordinate".into());
                        }
                        format!("d{}/{}", hx(d.content_hash.as_bytes()), d.byte_len)
                    }
                    None => "n".into(),
                }
            }
            "F" => {
                st = fresh(max);
                refm.clear();
                refpins.clear();
                "-".into()
            }
            _ => mem_op(&mut st, c, tok, &mut refm, &mut refpins, &uni, &mut fails),
        }));
        let r = match r {
            Ok(r) => r,
            Err(_) => {
                fails.push(format!("panic:{}", f[0]));
                res.push("panic".into());
                break;
            }
        };
        res.push(r);
    }
    let ds: Vec<String> = coords
        .iter()
        .map(|cc| match ix.descriptor(cc) {
            Some(d) => format!("d{}/{}", hx(d.content_hash.as_bytes()), d.byte_len),
            None => "n".into(),
        })
        .collect();
    let dump = format!("{} idx={}", mem_dump(&st, &uni), if ds.is_empty() { "-".into() } else { ds.join(";") });
    finish_line(res, dump, fails)
}


// ------------------------------------------------------------------------------------------- export profiles
//
// kind=exp seed=<n> pairs=<n> pool=<hex>,... mats=<kind 1..7>/<posture 0..5>/<coord hex>/<pool idx>,...
//   A real FilesystemWalStore is filled with `pairs` submission+tick transaction pairs, sealed, recovered and
//   projected to a WalRoot.  The record set (acceptances, receipts, correlations, retained materials whose
//   material_digest is blake3(pool[idx]), reading refs) goes through each export profile and back, then every
//   referenced blob (segment bytes, each present retained payload) is individually withheld / corrupted.
//   Output: one token per variant, `name=ok|E:<class>[:detail]`, then oracle=...
mod exp {
    use super::*;
    use warp_core::causal_wal::{
        build_recovery_certificate, build_submission_acceptance_transaction, build_tick_transaction,
        project_filesystem_wal_recovery, recover_filesystem_store, AffectedFrontier, AffectedFrontierKind,
        EvidenceMaterialPosture, FilesystemWalStore, Lsn, PayloadCodecId, PayloadSchemaId, ReadingRefRecord,
        RecoveryAccessMode, RetainedMaterialKind, RetainedMaterialRecord, SubmissionAcceptanceRecord,
        TickReceiptRecord, WalAppendAuthority, WalDurabilityMode, WalManifest, WalReceiptCorrelationRecord,
        WalRecoveryProjectionPosture, WalRoot, WalSegmentId, WalStorePort, WalTickDecision, WalTransactionBuilder,
        WalTransactionId, WalTransactionKind, WalWriterEpoch, WriterEpochId, WriterEpochRequest,
    };
    use warp_core::wsc::{
        validate_wsc_cas_addressed_wal_export, validate_wsc_ref_only_wal_export,
        validate_wsc_self_contained_wal_export, wsc_cas_addressed_wal_export, wsc_ref_only_wal_export,
        wsc_self_contained_wal_export, WscCasAddressedRetainedMaterialReference, WscCasAddressedWalExportError,
        WscCasAddressedWalImportError, WscCasAddressedWalSegmentMaterial, WscCasBlobStorePort,
        WscCausalHistoryExportProfileKind, WscRetentionRecords, WscSelfContainedRetainedMaterial,
        WscSelfContainedWalExportError, WscSelfContainedWalImportError, WscSelfContainedWalSegmentMaterial,
        WscWalCausalHistoryRecords,
    };
    use warp_core::{CausalTickReceiptRef, GlobalTick, Hash, WorldlineId, WorldlineTick};

    fn digest(label: &str) -> Hash {
        blake3::hash(label.as_bytes()).into()
    }
    fn epoch_id() -> WriterEpochId {
        WriterEpochId::from_hash(digest("epoch:1"))
    }
    fn builder(tx: &str, first_lsn: Lsn, auth: WalAppendAuthority, kind: WalTransactionKind, pf: Hash, pc: Hash) -> WalTransactionBuilder {
        WalTransactionBuilder::new(
            epoch_id(),
            WalSegmentId::from_raw(1),
            WalTransactionId::from_hash(digest(tx)),
            kind,
            auth,
            first_lsn,
            pf,
            pc,
            WalDurabilityMode::Buffered,
            PayloadCodecId::from_hash(digest("codec")),
            PayloadSchemaId::from_hash(digest("schema")),
            1,
            1,
            digest("domain"),
        )
    }
    fn frontier(kind: AffectedFrontierKind, l: &str) -> AffectedFrontier {
        AffectedFrontier { kind, before_digest: digest(&format!("{l}:before")), after_digest: digest(&format!("{l}:after")) }
    }
    fn acceptance(l: &str) -> SubmissionAcceptanceRecord {
        SubmissionAcceptanceRecord {
            submission_id: digest(&format!("submission:{l}")),
            canonical_envelope_digest: digest(&format!("envelope:{l}")),
            idempotency_key_digest: None,
            acceptance_evidence_digest: digest(&format!("accepted-evidence:{l}")),
        }
    }
    fn receipt_ref(l: &str) -> CausalTickReceiptRef {
        CausalTickReceiptRef {
            worldline_id: WorldlineId::from_bytes(digest(&format!("worldline:{l}"))),
            worldline_tick_after: WorldlineTick::from_raw(1),
            commit_global_tick: GlobalTick::from_raw(1),
            commit_hash: digest(&format!("commit:{l}")),
            submission_id: digest(&format!("submission:{l}")),
            ticket_digest: digest(&format!("ticket:{l}")),
            receipt_content_digest: digest(&format!("receipt:{l}")),
        }
    }

    pub struct Fixture {
        pub root: WalRoot,
        pub segment_bytes: Vec<u8>,
        pub acc: Vec<SubmissionAcceptanceRecord>,
        pub rec: Vec<TickReceiptRecord>,
        pub cor: Vec<WalReceiptCorrelationRecord>,
    }

    pub fn fixture(seed: u64, pairs: usize) -> Result<Fixture, String> {
        let dir = scratch_dir("wal");
        std::fs::create_dir_all(&dir).map_err(|e| e.to_string())?;
        let mut store = FilesystemWalStore::open(&dir, WalSegmentId::from_raw(1)).map_err(|e| format!("open:{e:?}"))?;
        let we = store
            .acquire_writer_epoch(WriterEpochRequest {
                epoch_id: epoch_id(),
                storage_fencing_token: digest("fencing"),
                process_identity: digest("process"),
                host_identity: digest("host"),
                started_at_lsn: Lsn::from_raw(0),
                previous_epoch_id: None,
                previous_epoch_final_commit_digest: None,
                lease_or_lock_evidence: digest("lease"),
            })
            .map_err(|e| format!("epoch:{e:?}"))?;
        let (mut acc, mut rec, mut cor) = (Vec::new(), Vec::new(), Vec::new());
        let mut next = 0u64;
        let (mut pf, mut pc) = (digest("previous-frame"), digest("previous-commit"));
        for i in 0..pairs {
            let l = format!("{seed}:{i}");
            let a = acceptance(&l);
            let dec = match (seed as usize + i) % 3 {
                0 => WalTickDecision::Applied,
                1 => WalTickDecision::RejectedFootprintConflict,
                _ => WalTickDecision::Obstructed,
            };
            let r = TickReceiptRecord { receipt_ref: receipt_ref(&l), decision: dec };
            let c = WalReceiptCorrelationRecord {
                receipt_ref: receipt_ref(&l),
                causal_parent_receipts: if i > 0 && (seed + i as u64) % 2 == 0 { vec![receipt_ref(&format!("{seed}:{}", i - 1))] } else { Vec::new() },
            };
            let t1 = build_submission_acceptance_transaction(
                builder(&format!("tx:s:{l}"), Lsn::from_raw(next), WalAppendAuthority::SubmissionIntake, WalTransactionKind::SubmissionIntake, pf, pc),
                a,
                vec![frontier(AffectedFrontierKind::SubmissionQueue, &format!("queue:{l}"))],
            )
            .map_err(|e| format!("build-sub:{e:?}"))?;
            next = t1.commit.last_lsn.as_u64() + 1;
            pc = t1.commit.commit_digest;
            if let Some(f) = t1.frames.last() {
                pf = f.digest();
            }
            store.append_transaction(t1).map_err(|e| format!("append-sub:{e:?}"))?;
            let t2 = build_tick_transaction(
                builder(&format!("tx:t:{l}"), Lsn::from_raw(next), WalAppendAuthority::TrustedScheduler, WalTransactionKind::SchedulerTick, pf, pc),
                r,
                c.clone(),
                digest(&format!("state-delta:{l}")),
                vec![frontier(AffectedFrontierKind::RuntimeState, &format!("state:{l}")), frontier(AffectedFrontierKind::ReceiptIndex, &format!("receipt:{l}"))],
            )
            .map_err(|e| format!("build-tick:{e:?}"))?;
            next = t2.commit.last_lsn.as_u64() + 1;
            pc = t2.commit.commit_digest;
            if let Some(f) = t2.frames.last() {
                pf = f.digest();
            }
            store.append_transaction(t2).map_err(|e| format!("append-tick:{e:?}"))?;
            acc.push(a);
            rec.push(r);
            cor.push(c);
        }
        store.seal_segment(epoch_id(), WalSegmentId::from_raw(1)).map_err(|e| format!("seal:{e:?}"))?;
        let segment_bytes = std::fs::read(store.segment_path()).map_err(|e| e.to_string())?;
        let last = store.read_commits().last().map(|c| (c.last_lsn, c.commit_digest)).ok_or("no commits")?;
        store
            .publish_manifest(
                epoch_id(),
                WalManifest { manifest_digest: digest(&format!("manifest:{seed}")), last_committed_lsn: Some(last.0), last_commit_digest: Some(last.1), sealed_segment_count: 1 },
            )
            .map_err(|e| format!("manifest:{e:?}"))?;
        let report = recover_filesystem_store(&dir, RecoveryAccessMode::ReadOnly).map_err(|e| format!("recover:{e:?}"))?;
        let cert = build_recovery_certificate(&report, None, 0, digest("frontier"), digest("indexes"));
        let wep = WalWriterEpoch::from_writer_epoch(&we);
        let proj = project_filesystem_wal_recovery(&dir, &report, std::slice::from_ref(&wep), Some(&cert));
        drop(store);
        let _ = std::fs::remove_dir_all(&dir);
        if proj.posture != WalRecoveryProjectionPosture::Present {
            return Err(format!("projection:{:?}:{:?}", proj.posture, proj.obstructions));
        }
        Ok(Fixture { root: proj.root.ok_or("no root")?, segment_bytes, acc, rec, cor })
    }

    fn mat_kind(n: u8) -> RetainedMaterialKind {
        match n {
            1 => RetainedMaterialKind::SubmissionPayload,
            2 => RetainedMaterialKind::TickReceipt,
            3 => RetainedMaterialKind::RuntimeStateDelta,
            4 => RetainedMaterialKind::RuntimeControl,
            5 => RetainedMaterialKind::ReadingPayload,
            6 => RetainedMaterialKind::ReadingEnvelope,
            _ => RetainedMaterialKind::Diagnostic,
        }
    }
    fn posture(n: u8) -> EvidenceMaterialPosture {
        match n {
            0 => EvidenceMaterialPosture::Present,
            1 => EvidenceMaterialPosture::RedactedByPolicy,
            2 => EvidenceMaterialPosture::EncryptedKeyUnavailable,
            3 => EvidenceMaterialPosture::Missing,
            4 => EvidenceMaterialPosture::Corrupt,
            _ => EvidenceMaterialPosture::Obstructed,
        }
    }

    struct MapCas(BTreeMap<Hash, Vec<u8>>);
    impl WscCasBlobStorePort for MapCas {
        fn cas_blob_bytes(&self, h: &Hash) -> Option<Vec<u8>> {
            self.0.get(h).cloned()
        }
    }

    fn sc_exp_err(e: &WscSelfContainedWalExportError) -> String {
        use WscSelfContainedWalExportError as E;
        match e {
            E::MissingSegmentMaterial { .. } => "E:x-missing-segment".into(),
            E::ExtraSegmentMaterial { .. } => "E:x-extra-segment".into(),
            E::MissingRetainedMaterial { material_digest } => format!("E:x-missing-retained:{}", hx(material_digest)),
            E::ExtraRetainedMaterial { material_digest } => format!("E:x-extra-retained:{}", hx(material_digest)),
            E::RetainedMaterialDigestMismatch { expected, actual } => format!("E:x-digest-mismatch:{}:{}", hx(expected), hx(actual)),
            E::Retention(_) => "E:x-retention".into(),
            E::RetainedMaterial(_) => "E:x-retained-envelope".into(),
            E::SegmentMaterial(_) => "E:x-segment-envelope".into(),
            _ => "E:x-other".into(),
        }
    }
    fn sc_imp_err(e: &WscSelfContainedWalImportError) -> String {
        use WscSelfContainedWalImportError as E;
        match e {
            E::MissingSegmentMaterial { .. } => "E:missing-segment".into(),
            E::ExtraSegmentMaterial { .. } => "E:extra-segment".into(),
            E::SegmentRecovery { .. } => "E:segment-recovery".into(),
            E::SegmentDigestMismatch { .. } => "E:segment-digest".into(),
            E::SegmentLsnRangeMismatch { .. } => "E:segment-lsn".into(),
            E::SegmentCommitChainMismatch { .. } => "E:segment-chain".into(),
            E::SegmentCommitAnchorMismatch { .. } => "E:segment-anchors".into(),
            E::SegmentTailPostureMismatch { .. } => "E:segment-tail".into(),
            E::MissingRetainedMaterial { material_digest } => format!("E:missing-retained:{}", hx(material_digest)),
            E::ExtraRetainedMaterial { material_digest } => format!("E:extra-retained:{}", hx(material_digest)),
            E::RetainedMaterialDigestMismatch { expected, actual } => format!("E:digest-mismatch:{}:{}", hx(expected), hx(actual)),
            E::ProjectionBasisMismatch { .. } => "E:projection-basis".into(),
            E::ProjectionPayloadMismatch { .. } => "E:projection-payload".into(),
            E::ProfileMismatch { .. } => "E:profile".into(),
            E::AcceptedSubmissions(_) => "E:accepted".into(),
            E::ReceiptCorrelations(_) => "E:receipts".into(),
            E::IncompleteCausalHistory(_) => "E:incomplete".into(),
            E::Retention(_) => "E:retention".into(),
            _ => "E:other".into(),
        }
    }
    fn cas_exp_err(e: &WscCasAddressedWalExportError) -> String {
        use WscCasAddressedWalExportError as E;
        match e {
            E::MissingSegmentCasReference { .. } => "E:x-missing-segment-ref".into(),
            E::ExtraSegmentCasReference { .. } => "E:x-extra-segment-ref".into(),
            E::RetainedCasReferenceMismatch { missing_from_references, extra_in_references } => {
                format!("E:x-ref-mismatch:{missing_from_references}:{extra_in_references}")
            }
            E::CasReferences(_) => "E:x-cas-references".into(),
            E::Retention(_) => "E:x-retention".into(),
            _ => "E:x-other".into(),
        }
    }
    fn cas_imp_err(e: &WscCasAddressedWalImportError) -> String {
        use WscCasAddressedWalImportError as E;
        match e {
            E::MissingCasBlob { content_hash, semantic_coordinate_digest } => {
                format!("E:missing-blob:{}:{}", hx(content_hash), hx(semantic_coordinate_digest))
            }
            E::CasBlobHashMismatch { expected, actual } => format!("E:hash-mismatch:{}:{}", hx(expected), hx(actual)),
            E::CasBlobLengthMismatch { expected, actual } => format!("E:len-mismatch:{expected}:{actual}"),
            E::RetainedCasReferenceMismatch { missing_from_references, extra_in_references } => {
                format!("E:ref-mismatch:{missing_from_references}:{extra_in_references}")
            }
            E::SegmentCasReferenceMismatch { .. } => "E:segment-ref".into(),
            E::SegmentRecovery { .. } => "E:segment-recovery".into(),
            E::SegmentEvidenceMismatch { .. } => "E:segment-evidence".into(),
            E::ProfileMismatch { .. } => "E:profile".into(),
            E::ProjectionBasisMismatch { .. } => "E:projection-basis".into(),
            E::ProjectionPayloadMismatch { .. } => "E:projection-payload".into(),
            E::CasReferences(_) => "E:cas-references".into(),
            E::Retention(_) => "E:retention".into(),
            E::IncompleteCausalHistory(_) => "E:incomplete".into(),
            _ => "E:other".into(),
        }
    }

    /// sorted and with equal duplicates collapsed (the canonical envelopes absorb an equal duplicate record)
    fn sorted<T: Clone + PartialEq, K: Ord>(v: &[T], k: impl Fn(&T) -> K) -> Vec<T> {
        let mut v = v.to_vec();
        v.sort_by_key(k);
        v.dedup();
        v
    }

    fn same_records(
        f: &Fixture,
        mats: &[RetainedMaterialRecord],
        reads: &[ReadingRefRecord],
        acc: &[SubmissionAcceptanceRecord],
        rec: &[TickReceiptRecord],
        cor: &[WalReceiptCorrelationRecord],
        ret: &WscRetentionRecords,
    ) -> bool {
        let ka = |a: &SubmissionAcceptanceRecord| a.submission_id;
        let kr = |r: &TickReceiptRecord| r.receipt_ref.submission_id;
        let kc = |c: &WalReceiptCorrelationRecord| c.receipt_ref.submission_id;
        let km = |m: &RetainedMaterialRecord| m.to_payload_bytes();
        let kd = |m: &ReadingRefRecord| m.to_payload_bytes();
        sorted(acc, ka) == sorted(&f.acc, ka)
            && sorted(rec, kr) == sorted(&f.rec, kr)
            && sorted(cor, kc) == sorted(&f.cor, kc)
            && sorted(&ret.materials, km) == sorted(mats, km)
            && sorted(&ret.readings, kd) == sorted(reads, kd)
    }

    pub fn run(m: &BTreeMap<String, String>, c: &Case) -> String {
        let seed: u64 = m.get("seed").and_then(|s| s.parse().ok()).unwrap_or(1);
        let pairs: usize = m.get("pairs").and_then(|s| s.parse().ok()).unwrap_or(1);
        let f = match fixture(seed, pairs.max(1)) {
            Ok(f) => f,
            Err(e) => return format!("res=fixture-failed:{} oracle=FAIL:fixture-failed", e.replace(' ', "_")),
        };
        // retained material records
        let ms = m.get("mats").cloned().unwrap_or_default();
        let mut mats: Vec<RetainedMaterialRecord> = Vec::new();
        let mut mat_bytes: Vec<Vec<u8>> = Vec::new();
        let mut mat_bad: Vec<Option<Vec<u8>>> = Vec::new();
        for it in if ms.is_empty() || ms == "-" { Vec::new() } else { ms.split(',').collect::<Vec<_>>() } {
            let g: Vec<&str> = it.split('/').collect();
            let pi: usize = g[3].parse().unwrap();
            mats.push(RetainedMaterialRecord {
                material_digest: c.hashes[pi],
                semantic_coordinate_digest: hex32(g[2]),
                kind: mat_kind(g[0].parse().unwrap()),
                posture: posture(g[1].parse().unwrap()),
            });
            mat_bytes.push(c.pool[pi].clone());
            mat_bad.push(g.get(4).map(|x| c.pool[x.parse::<usize>().unwrap()].clone()));
        }
        let reads: Vec<ReadingRefRecord> = mats
            .iter()
            .enumerate()
            .filter(|(_, r)| r.kind == RetainedMaterialKind::ReadingPayload)
            .map(|(i, r)| ReadingRefRecord {
                reading_id: digest(&format!("reading:{seed}:{i}")),
                semantic_coordinate_digest: r.semantic_coordinate_digest,
                payload_digest: r.material_digest,
                envelope_digest: digest(&format!("reading-envelope:{seed}:{i}")),
                posture: r.posture,
            })
            .collect();
        let recs = |mats: &'_ [RetainedMaterialRecord]| -> (Vec<RetainedMaterialRecord>, Vec<ReadingRefRecord>) { (mats.to_vec(), reads.clone()) };
        let present: Vec<usize> = (0..mats.len()).filter(|&i| mats[i].posture == EvidenceMaterialPosture::Present).collect();
        let mut out: Vec<String> = Vec::new();
        let mut fails: Vec<String> = Vec::new();
        let seg_id = f.root.segments[0].segment_id;
        let _ = recs;

        // ---------------- ref-only
        match wsc_ref_only_wal_export(&f.root, records(&f, &mats, &reads)) {
            Err(e) => {
                out.push(format!("ref=E:x:{}", first_word(format!("{e:?}"))));
            }
            Ok(ex) => match validate_wsc_ref_only_wal_export(&ex, &f.root) {
                Ok(im) => {
                    let ok = im.profile == WscCausalHistoryExportProfileKind::RefOnly
                        && im.root_identity_digest == f.root.identity_digest()
                        && same_records(&f, &mats, &reads, &im.accepted_submissions, &im.receipts, &im.correlations, &im.retention)
                        && im.segment_dependencies.len() == f.root.segments.len()
                        && im.segment_dependencies[0].segment_digest == f.root.segments[0].segment_digest;
                    if !ok {
                        fails.push("ref-only-import-differs-from-export-input".into());
                    }
                    out.push("ref=ok".into());
                    // a ref-only export presented as another profile / against another root must be refused
                    let mut wrong = ex.clone();
                    wrong.profile = WscCausalHistoryExportProfileKind::SelfContained;
                    if validate_wsc_ref_only_wal_export(&wrong, &f.root).is_ok() {
                        fails.push("ref-only-accepts-wrong-profile".into());
                    }
                    let mut other_root = f.root.clone();
                    other_root.segments[0].segment_digest[0] ^= 1;
                    if validate_wsc_ref_only_wal_export(&ex, &other_root).is_ok() {
                        fails.push("ref-only-accepts-other-root".into());
                    }
                }
                Err(e) => out.push(format!("ref=E:{}", first_word(format!("{e:?}")))),
            },
        }

        // ---------------- self-contained
        let seg_mat = |bytes: &[u8]| WscSelfContainedWalSegmentMaterial { segment_id: seg_id, segment_bytes: bytes.to_vec() };
        let payloads = |mats: &[RetainedMaterialRecord], skip: Option<usize>, subst: Option<(usize, Vec<u8>)>| -> Vec<WscSelfContainedRetainedMaterial> {
            (0..mats.len())
                .filter(|&i| mats[i].posture == EvidenceMaterialPosture::Present && Some(i) != skip)
                .map(|i| WscSelfContainedRetainedMaterial {
                    material: mats[i],
                    material_bytes: match &subst {
                        Some((j, b)) if *j == i => b.clone(),
                        _ => mat_bytes[i].clone(),
                    },
                })
                .collect()
        };
        let base_sc = wsc_self_contained_wal_export(&f.root, &[seg_mat(&f.segment_bytes)], &payloads(&mats, None, None), records(&f, &mats, &reads));
        match &base_sc {
            Err(e) => out.push(format!("sc={}", sc_exp_err(e))),
            Ok(ex) => match validate_wsc_self_contained_wal_export(ex, &f.root) {
                Ok(im) => {
                    let want = sorted(&payloads(&mats, None, None), |p| p.material.material_digest);
                    // canonical export de-duplicates equal payloads by digest
                    let mut want_d = want.clone();
                    want_d.dedup_by_key(|p| p.material.material_digest);
                    let ok = same_records(&f, &mats, &reads, &im.accepted_submissions, &im.receipts, &im.correlations, &im.retention)
                        && sorted(&im.retained_payloads, |p| p.material.material_digest) == want_d
                        && im.segment_recoveries.len() == 1
                        && im.segment_recoveries[0].segment_digest == f.root.segments[0].segment_digest
                        && im.root_identity_digest == f.root.identity_digest();
                    if !ok {
                        fails.push("self-contained-import-differs-from-export-input".into());
                    }
                    for p in &im.retained_payloads {
                        if b3(&p.material_bytes) != p.material.material_digest {
                            fails.push("self-contained-import-returned-bytes-not-hashing-to-digest".into());
                        }
                    }
                    out.push("sc=ok".into());
                }
                Err(e) => out.push(format!("sc={}", sc_imp_err(&e))),
            },
        }
        if let Ok(good) = &base_sc {
            // segment withheld at export
            match wsc_self_contained_wal_export(&f.root, &[], &payloads(&mats, None, None), records(&f, &mats, &reads)) {
                Ok(_) => {
                    fails.push("self-contained-export-without-segment-accepted".into());
                    out.push("sc.segw=ok".into());
                }
                Err(e) => out.push(format!("sc.segw={}", sc_exp_err(&e))),
            }
            // segment bytes corrupted (several positions, truncation, extension)
            let n = f.segment_bytes.len();
            let mut rng = Rng(seed ^ 0x5eed);
            let mut variants: Vec<(String, Vec<u8>)> = Vec::new();
            for k in 0..6 {
                let pos = if k == 0 { n - 1 } else if k == 1 { 0 } else { rng.below(n) };
                let mut b = f.segment_bytes.clone();
                b[pos] ^= 1 << rng.below(8);
                variants.push((format!("f{pos}"), b));
            }
            variants.push(("t1".into(), f.segment_bytes[..n - 1].to_vec()));
            variants.push((format!("t{}", n / 2), f.segment_bytes[..n / 2].to_vec()));
            let mut ext = f.segment_bytes.clone();
            ext.push(0);
            variants.push(("x1".into(), ext));
            variants.push(("empty".into(), Vec::new()));
            let mut classes: BTreeMap<String, usize> = BTreeMap::new();
            for (name, b) in &variants {
                match wsc_self_contained_wal_export(&f.root, &[seg_mat(b)], &payloads(&mats, None, None), records(&f, &mats, &reads)) {
                    Err(e) => *classes.entry(sc_exp_err(&e)).or_default() += 1,
                    Ok(ex) => match validate_wsc_self_contained_wal_export(&ex, &f.root) {
                        Ok(im) => {
                            if im.segment_recoveries[0].segment_digest == f.root.segments[0].segment_digest && b != &f.segment_bytes {
                                // accepted altered bytes whose recovered digest equals the root's: only trailing
                                // bytes outside every record could do that
                                fails.push(format!("self-contained-accepts-altered-segment-bytes[{name}]"));
                            } else {
                                fails.push(format!("self-contained-accepts-corrupt-segment[{name}]"));
                            }
                            *classes.entry("ok".into()).or_default() += 1;
                        }
                        Err(e) => *classes.entry(sc_imp_err(&e)).or_default() += 1,
                    },
                }
            }
            out.push(format!("sc.segc={}", classes.iter().map(|(k, v)| format!("{k}*{v}")).collect::<Vec<_>>().join("+")));
            for &i in &present {
                let d = mats[i].material_digest;
                let alone = present.iter().filter(|&&j| mats[j].material_digest == d).count() == 1;
                // withheld at export
                match wsc_self_contained_wal_export(&f.root, &[seg_mat(&f.segment_bytes)], &payloads(&mats, Some(i), None), records(&f, &mats, &reads)) {
                    Ok(_) => {
                        if alone {
                            fails.push("self-contained-export-without-retained-payload-accepted".into());
                        }
                        out.push(format!("sc.w{i}=ok"));
                    }
                    Err(e) => out.push(format!("sc.w{i}={}", sc_exp_err(&e))),
                }
                // corrupted at export
                let mut bad = mat_bytes[i].clone();
                if let Some(b) = &mat_bad[i] {
                    bad = b.clone(); // corruption chosen by the case (so that the model sees the same bytes)
                } else if bad.is_empty() {
                    bad.push(7);
                } else {
                    let k = rng.below(bad.len());
                    bad[k] ^= 0x40;
                }
                match wsc_self_contained_wal_export(&f.root, &[seg_mat(&f.segment_bytes)], &payloads(&mats, None, Some((i, bad.clone()))), records(&f, &mats, &reads)) {
                    Ok(_) => {
                        fails.push("self-contained-export-accepts-corrupt-retained-payload".into());
                        out.push(format!("sc.c{i}=ok"));
                    }
                    Err(e) => out.push(format!("sc.c{i}={}", sc_exp_err(&e))),
                }
                // withheld on the import side: splice the retained-material envelope of a world where i is not present
                let mut mats2 = mats.clone();
                for j in 0..mats2.len() {
                    if mats2[j].material_digest == d {
                        mats2[j].posture = EvidenceMaterialPosture::Missing;
                    }
                }
                if let Ok(other) = wsc_self_contained_wal_export(&f.root, &[seg_mat(&f.segment_bytes)], &payloads(&mats2, None, None), records(&f, &mats2, &reads)) {
                    let mut spliced = good.clone();
                    spliced.retained_material_envelope = other.retained_material_envelope.clone();
                    match validate_wsc_self_contained_wal_export(&spliced, &f.root) {
                        Ok(_) => {
                            fails.push("self-contained-import-accepts-withheld-retained-payload".into());
                            out.push(format!("sc.iw{i}=ok"));
                        }
                        Err(e) => out.push(format!("sc.iw{i}={}", sc_imp_err(&e))),
                    }
                }
                // corrupted on the import side: the envelope of a world where record i names the corrupt bytes
                let mut mats3 = mats.clone();
                let mut bytes3 = mat_bytes.clone();
                for j in 0..mats3.len() {
                    if mats3[j].material_digest == d {
                        mats3[j].material_digest = b3(&bad);
                        bytes3[j] = bad.clone();
                    }
                }
                let pl3: Vec<WscSelfContainedRetainedMaterial> = (0..mats3.len())
                    .filter(|&j| mats3[j].posture == EvidenceMaterialPosture::Present)
                    .map(|j| WscSelfContainedRetainedMaterial { material: mats3[j], material_bytes: bytes3[j].clone() })
                    .collect();
                if let Ok(other) = wsc_self_contained_wal_export(&f.root, &[seg_mat(&f.segment_bytes)], &pl3, records(&f, &mats3, &reads)) {
                    let mut spliced = good.clone();
                    spliced.retained_material_envelope = other.retained_material_envelope.clone();
                    match validate_wsc_self_contained_wal_export(&spliced, &f.root) {
                        Ok(_) => {
                            fails.push("self-contained-import-accepts-substituted-retained-payload".into());
                            out.push(format!("sc.ic{i}=ok"));
                        }
                        Err(e) => out.push(format!("sc.ic{i}={}", sc_imp_err(&e))),
                    }
                }
            }
        }

        // ---------------- CAS-addressed
        let seg_hash = b3(&f.segment_bytes);
        let seg_coord = digest(&format!("segment-coordinate:{seed}"));
        let segm = |len: u64| WscCasAddressedWalSegmentMaterial { segment_id: seg_id, content_hash: seg_hash, semantic_coordinate_digest: seg_coord, byte_len: len };
        let refs = |mats: &[RetainedMaterialRecord], bump: Option<usize>| -> Vec<WscCasAddressedRetainedMaterialReference> {
            (0..mats.len())
                .filter(|&i| mats[i].posture == EvidenceMaterialPosture::Present)
                .map(|i| WscCasAddressedRetainedMaterialReference {
                    material_kind: mats[i].kind,
                    content_hash: mats[i].material_digest,
                    semantic_coordinate_digest: mats[i].semantic_coordinate_digest,
                    byte_len: mat_bytes[i].len() as u64 + if bump == Some(i) { 1 } else { 0 },
                })
                .collect()
        };
        let mut cas = MapCas(BTreeMap::new());
        cas.0.insert(seg_hash, f.segment_bytes.clone());
        for &i in &present {
            cas.0.insert(mats[i].material_digest, mat_bytes[i].clone());
        }
        let base_cas = wsc_cas_addressed_wal_export(&f.root, &[segm(f.segment_bytes.len() as u64)], &refs(&mats, None), records(&f, &mats, &reads));
        match &base_cas {
            Err(e) => out.push(format!("cas={}", cas_exp_err(e))),
            Ok(ex) => {
                match validate_wsc_cas_addressed_wal_export(ex, &f.root, &cas) {
                    Ok(im) => {
                        let ok = same_records(&f, &mats, &reads, &im.accepted_submissions, &im.receipts, &im.correlations, &im.retention)
                            && im.cas_references.segments.len() == 1
                            && im.cas_references.segments[0].content_hash == seg_hash
                            && im.segment_recoveries[0].segment_digest == f.root.segments[0].segment_digest
                            && im.root_identity_digest == f.root.identity_digest();
                        let want: BTreeSet<(u8, Hash, Hash, u64)> = refs(&mats, None).iter().map(|r| (r.material_kind as u8, r.content_hash, r.semantic_coordinate_digest, r.byte_len)).collect();
                        let got: BTreeSet<(u8, Hash, Hash, u64)> =
                            im.cas_references.retained_materials.iter().map(|r| (r.material_kind as u8, r.content_hash, r.semantic_coordinate_digest, r.byte_len)).collect();
                        if !ok || want != got {
                            fails.push("cas-addressed-import-differs-from-export-input".into());
                        }
                        out.push("cas=ok".into());
                    }
                    Err(e) => out.push(format!("cas={}", cas_imp_err(&e))),
                }
                // every referenced blob individually withheld / corrupted / of another length
                let mut blobs: Vec<(String, Hash, Vec<u8>)> = vec![("seg".into(), seg_hash, f.segment_bytes.clone())];
                let mut given: BTreeMap<String, Vec<u8>> = BTreeMap::new();
                for &i in &present {
                    if !blobs.iter().any(|b| b.1 == mats[i].material_digest) {
                        blobs.push((format!("{i}"), mats[i].material_digest, mat_bytes[i].clone()));
                        if let Some(b) = &mat_bad[i] {
                            given.insert(format!("{i}"), b.clone());
                        }
                    }
                }
                let mut rng = Rng(seed ^ 0xca5);
                for (name, h, orig) in &blobs {
                    let mut w = MapCas(cas.0.clone());
                    w.0.remove(h);
                    match validate_wsc_cas_addressed_wal_export(ex, &f.root, &w) {
                        Ok(_) => {
                            fails.push("cas-addressed-import-accepts-withheld-blob".into());
                            out.push(format!("cas.w{name}=ok"));
                        }
                        Err(e) => {
                            if !matches!(e, WscCasAddressedWalImportError::MissingCasBlob { content_hash, .. } if content_hash == *h) {
                                fails.push("cas-addressed-withheld-blob-wrong-obstruction".into());
                            }
                            out.push(format!("cas.w{name}={}", cas_imp_err(&e)));
                        }
                    }
                    for kind in ["given", "flip", "trunc", "ext", "other"] {
                        let mut bad = orig.clone();
                        if kind == "given" && !given.contains_key(name) {
                            continue;
                        }
                        match kind {
                            "given" => bad = given[name].clone(),
                            "flip" if !bad.is_empty() => {
                                let k = rng.below(bad.len());
                                bad[k] ^= 1 << rng.below(8);
                            }
                            "trunc" if !bad.is_empty() => {
                                bad.pop();
                            }
                            "ext" => bad.push(0),
                            _ => bad = b"some other retained bytes".to_vec(),
                        }
                        let mut w = MapCas(cas.0.clone());
                        w.0.insert(*h, bad.clone());
                        match validate_wsc_cas_addressed_wal_export(ex, &f.root, &w) {
                            Ok(_) => {
                                fails.push("cas-addressed-import-accepts-corrupt-blob".into());
                                out.push(format!("cas.c{name}.{kind}=ok"));
                            }
                            Err(e) => {
                                if !matches!(e, WscCasAddressedWalImportError::CasBlobHashMismatch { expected, actual } if expected == *h && actual == b3(&bad)) {
                                    fails.push("cas-addressed-corrupt-blob-wrong-obstruction".into());
                                }
                                if name != "seg" || kind == "flip" {
                                    out.push(format!("cas.c{name}.{kind}={}", cas_imp_err(&e)));
                                }
                            }
                        }
                    }
                }
                // reference length that the stored bytes do not have
                for &i in &present {
                    if let Ok(ex2) = wsc_cas_addressed_wal_export(&f.root, &[segm(f.segment_bytes.len() as u64)], &refs(&mats, Some(i)), records(&f, &mats, &reads)) {
                        match validate_wsc_cas_addressed_wal_export(&ex2, &f.root, &cas) {
                            Ok(_) => {
                                fails.push("cas-addressed-import-accepts-wrong-length".into());
                                out.push(format!("cas.l{i}=ok"));
                            }
                            Err(e) => out.push(format!("cas.l{i}={}", cas_imp_err(&e))),
                        }
                    }
                }
                if let Ok(ex2) = wsc_cas_addressed_wal_export(&f.root, &[segm(f.segment_bytes.len() as u64 + 1)], &refs(&mats, None), records(&f, &mats, &reads)) {
                    match validate_wsc_cas_addressed_wal_export(&ex2, &f.root, &cas) {
                        Ok(_) => fails.push("cas-addressed-import-accepts-wrong-length".into()),
                        Err(e) => out.push(format!("cas.lseg={}", cas_imp_err(&e))),
                    }
                }
                // a reference for a present record withheld from the reference list / an extra reference
                if let Some(&i) = present.first() {
                    let mut r = refs(&mats, None);
                    r.retain(|x| !(x.content_hash == mats[i].material_digest && x.semantic_coordinate_digest == mats[i].semantic_coordinate_digest && x.material_kind == mats[i].kind));
                    match wsc_cas_addressed_wal_export(&f.root, &[segm(f.segment_bytes.len() as u64)], &r, records(&f, &mats, &reads)) {
                        Ok(_) => fails.push("cas-addressed-export-accepts-missing-reference".into()),
                        Err(e) => out.push(format!("cas.xr{i}={}", cas_exp_err(&e))),
                    }
                    // import side: splice the reference envelope of the world without record i
                    let mut mats2 = mats.clone();
                    mats2[i].posture = EvidenceMaterialPosture::Missing;
                    if let Ok(other) = wsc_cas_addressed_wal_export(&f.root, &[segm(f.segment_bytes.len() as u64)], &refs(&mats2, None), records(&f, &mats2, &reads)) {
                        let mut spliced = ex.clone();
                        spliced.cas_reference_envelope = other.cas_reference_envelope.clone();
                        match validate_wsc_cas_addressed_wal_export(&spliced, &f.root, &cas) {
                            Ok(_) => {
                                // equal (kind, digest, coordinate) triples collapse in the reference set
                                let dup = (0..mats.len()).any(|j| j != i && mats[j].posture == EvidenceMaterialPosture::Present && mats[j].kind == mats[i].kind
                                    && mats[j].material_digest == mats[i].material_digest && mats[j].semantic_coordinate_digest == mats[i].semantic_coordinate_digest);
                                if !dup {
                                    fails.push("cas-addressed-import-accepts-withheld-reference".into());
                                }
                                out.push(format!("cas.ir{i}=ok"));
                            }
                            Err(e) => out.push(format!("cas.ir{i}={}", cas_imp_err(&e))),
                        }
                    }
                }
            }
        }
        // a self-contained export must not validate as another profile's input (profile tag is checked)
        if let (Ok(sc), Ok(_)) = (&base_sc, &base_cas) {
            let mut wrong = sc.clone();
            wrong.profile = WscCausalHistoryExportProfileKind::CasAddressed;
            if validate_wsc_self_contained_wal_export(&wrong, &f.root).is_ok() {
                fails.push("self-contained-accepts-wrong-profile".into());
            }
        }
        fails.sort();
        fails.dedup();
        let orc = if fails.is_empty() { "ok".to_string() } else { format!("FAIL:{}", fails.join(",")) };
        format!("res={} oracle={}", out.join(","), orc)
    }

    fn first_word(s: String) -> String {
        s.split(|c: char| !c.is_alphanumeric()).next().unwrap_or("").to_string()
    }
    fn records<'a>(f: &'a Fixture, mats: &'a [RetainedMaterialRecord], reads: &'a [ReadingRefRecord]) -> WscWalCausalHistoryRecords<'a> {
        WscWalCausalHistoryRecords {
            retained_materials: mats,
            reading_refs: reads,
            accepted_submissions: &f.acc,
            receipts: &f.rec,
            correlations: &f.cor,
            causal_anchors: &[],
        }
    }
}

fn main() {
    // panics are reported in the result line (oracle=FAIL:panic:...), not on stderr
    std::panic::set_hook(Box::new(|_| {}));
    for line in read_cases() {
        let m = kv(&line);
        let kind = m.get("kind").map(String::as_str).unwrap_or("mem");
        let pool: Vec<Vec<u8>> = match m.get("pool").map(String::as_str) {
            None | Some("") => Vec::new(),
            Some(p) => p.split(',').map(unhex).collect(),
        };
        let hashes: Vec<H32> = pool.iter().map(|b| *blob_hash(b).as_bytes()).collect();
        let c = Case { pool, hashes };
        let opss = m.get("ops").cloned().unwrap_or_default();
        let ops: Vec<&str> = items(&opss);
        let max: Option<usize> = m.get("max").and_then(|s| s.parse().ok());
        let out = catch(std::panic::AssertUnwindSafe(|| match kind {
            "mem" => run_mem(&c, max, &ops),
            "disk" => run_disk(&c, &ops),
            "exp" => exp::run(&m, &c),
            "idx" => {
                let cs = m.get("coords").cloned().unwrap_or_default();
                let coords: Vec<SemanticBlobCoordinate> =
                    if cs.is_empty() || cs == "-" { Vec::new() } else { cs.split(',').map(parse_coord).collect() };
                run_idx(&c, max, &coords, &ops)
            }
            _ => panic!("kind {kind}"),
        }))
        .unwrap_or_else(|e| format!("res=panic:{} oracle=FAIL:panic:case", e.replace([' ', ','], "_")));
        println!("{out}");
    }
}
