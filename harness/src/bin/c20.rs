//! C20 harness: echo-cas MemoryTier / DiskTier / RetainedBlobIndex against op sequences, plus
//! the three causal-history export profiles of warp-core::wsc (kind=exp, see `exp` module below).
//!
//! case (one line):
//!   kind=mem  max=<n|->  pool=<hex>,<hex>,...  ops=<tok>;<tok>;...
//!   kind=disk            pool=...              ops=...
//!   kind=idx  max=<n|->  pool=...  coords=<nshex>/<schemahex>/<arthex>/<role 0..5>/<digest hex64>,...  ops=...
//! hash reference <href>:  #i = blake3(pool[i]),  ~i = same with the last bit flipped,  =<hex64> raw
//! store ops:  p:i put | v:<href>:i put_verified | g:<href> get | h:<href> has | i:<href> pin | u:<href> unpin
//!             q:<href> is_pinned | l list | r reopen | w:<href>:i env write file | d:<href> env delete | s:<href> stray temp
//! index ops:  R:c:i retain | L:c load | G:c:off:len:max load_range | B:<href> load_by_hash | D:c descriptor | F fresh store
//! output:     res=<tok>,... dump=<hash>:<get>:<pinned>;... len= bytes= pins= over= [files=..] oracle=<ok|FAIL:sig,...>
use echo_cas::{
    blob_hash, BlobHash, BlobStore, CasError, DiskTier, DiskTierError, MemoryTier, RetainedBlobIndex,
    RetainedBlobRole, RetentionError, SemanticBlobCoordinate,
};
use echo_verif_harness::*;
use std::collections::{BTreeMap, BTreeSet};
use std::path::{Path, PathBuf};

type H32 = [u8; 32];

struct Case {
    pool: Vec<Vec<u8>>,
    hashes: Vec<H32>,
}

impl Case {
    fn href(&self, s: &str) -> H32 {
        if let Some(i) = s.strip_prefix('#') {
            self.hashes[i.parse::<usize>().unwrap()]
        } else if let Some(i) = s.strip_prefix('~') {
            let mut h = self.hashes[i.parse::<usize>().unwrap()];
            h[31] ^= 1;
            h
        } else if let Some(x) = s.strip_prefix('=') {
            hex32(x)
        } else {
            panic!("bad href {s}")
        }
    }
}

fn bh(h: &H32) -> BlobHash {
    BlobHash::from_bytes(*h)
}
fn hx(h: &H32) -> String {
    hex::encode(h)
}
fn b3(b: &[u8]) -> H32 {
    *blake3::hash(b).as_bytes()
}

fn universe(c: &Case, ops: &[&str]) -> Vec<H32> {
    let mut u: BTreeSet<H32> = c.hashes.iter().copied().collect();
    for o in ops {
        for f in o.split(':') {
            if f.starts_with('#') || f.starts_with('~') || f.starts_with('=') {
                u.insert(c.href(f));
            }
        }
    }
    u.into_iter().collect()
}

fn get_tok(g: &Option<std::sync::Arc<[u8]>>) -> String {
    match g {
        None => "n".into(),
        Some(b) => format!("b{}", tohex(b)),
    }
}

// ------------------------------------------------------------------------------------------- memory tier

/// Applies one store op to a MemoryTier; returns the result token.  `refm`/`refpins` are the
/// harness's own reference map (oracle), `fails` collects oracle failures.
fn mem_op(
    st: &mut MemoryTier,
    c: &Case,
    tok: &str,
    refm: &mut BTreeMap<H32, Vec<u8>>,
    refpins: &mut BTreeSet<H32>,
    uni: &[H32],
    fails: &mut Vec<String>,
) -> String {
    let f: Vec<&str> = tok.split(':').collect();
    let before_len = st.len();
    let before_bytes = st.byte_count();
    let res = match f[0] {
        "p" => {
            let b = &c.pool[f[1].parse::<usize>().unwrap()];
            let h = st.put(b);
            let expect = b3(b);
            if *h.as_bytes() != expect {
                fails.push("put-returned-wrong-hash".into());
            }
            let was = refm.contains_key(&expect);
            refm.entry(expect).or_insert_with(|| b.clone());
            if was && (st.len() != before_len || st.byte_count() != before_bytes) {
                fails.push("put-not-idempotent".into());
            }
            match st.get(&h) {
                Some(g) if &*g == b.as_slice() => {}
                _ => fails.push("get-after-put-differs".into()),
            }
            format!("H{}", hx(h.as_bytes()))
        }
        "v" => {
            let h = c.href(f[1]);
            let b = &c.pool[f[2].parse::<usize>().unwrap()];
            let real = b3(b);
            let r = st.put_verified(bh(&h), b);
            if real != h {
                match &r {
                    Err(CasError::HashMismatch { expected, computed })
                        if *expected.as_bytes() == h && *computed.as_bytes() == real => {}
                    Ok(()) => {
                        if refm.contains_key(&h) {
                            fails.push("mem-put-verified-present-skips-verification".into());
                        } else {
                            fails.push("put-verified-accepts-mismatch".into());
                        }
                    }
                    Err(_) => fails.push("put-verified-wrong-error-fields".into()),
                }
                if st.len() != before_len || st.byte_count() != before_bytes {
                    fails.push("rejected-put-verified-mutated-store".into());
                }
            } else {
                if r.is_err() {
                    fails.push("put-verified-rejects-matching-bytes".into());
                }
                let was = refm.contains_key(&h);
                refm.entry(h).or_insert_with(|| b.clone());
                if was && (st.len() != before_len || st.byte_count() != before_bytes) {
                    fails.push("put-verified-not-idempotent".into());
                }
                match st.get(&bh(&h)) {
                    Some(g) if &*g == b.as_slice() => {}
                    _ => fails.push("get-after-put-verified-differs".into()),
                }
            }
            match r {
                Ok(()) => "ok".into(),
                Err(CasError::HashMismatch { computed, .. }) => format!("mm:{}", hx(computed.as_bytes())),
            }
        }
        "g" => {
            let h = c.href(f[1]);
            let g = st.get(&bh(&h));
            match (&g, refm.get(&h)) {
                (None, None) => {}
                (Some(b), Some(e)) => {
                    if b3(b) != h {
                        fails.push("get-returned-bytes-not-hashing-to-key".into());
                    }
                    if &**b != e.as_slice() {
                        fails.push("get-returned-other-bytes".into());
                    }
                }
                (Some(_), None) => fails.push("get-returned-never-stored".into()),
                (None, Some(_)) => fails.push("get-lost-stored-blob".into()),
            }
            get_tok(&g)
        }
        "h" => {
            let h = c.href(f[1]);
            let r = st.has(&bh(&h));
            if r != refm.contains_key(&h) {
                fails.push("has-disagrees-with-reference".into());
            }
            format!("{}", r as u8)
        }
        "i" | "u" => {
            let h = c.href(f[1]);
            let snap: Vec<String> = uni.iter().map(|x| get_tok(&st.get(&bh(x)))).collect();
            if f[0] == "i" {
                st.pin(&bh(&h));
                refpins.insert(h);
            } else {
                st.unpin(&bh(&h));
                refpins.remove(&h);
            }
            let snap2: Vec<String> = uni.iter().map(|x| get_tok(&st.get(&bh(x)))).collect();
            if snap != snap2 || st.len() != before_len || st.byte_count() != before_bytes {
                fails.push("pin-changed-content".into());
            }
            "-".into()
        }
        "q" => {
            let h = c.href(f[1]);
            let r = st.is_pinned(&bh(&h));
            if r != refpins.contains(&h) {
                fails.push("is-pinned-disagrees-with-reference".into());
            }
            format!("{}", r as u8)
        }
        "l" | "r" | "w" | "d" | "s" => "-".into(),
        _ => panic!("mem op {tok}"),
    };
    let total: usize = refm.values().map(Vec::len).sum();
    if st.len() != refm.len() || st.byte_count() != total {
        fails.push("accounting-differs-from-reference".into());
    }
    if st.pinned_count() != refpins.len() {
        fails.push("pin-count-differs-from-reference".into());
    }
    res
}

fn mem_dump(st: &MemoryTier, uni: &[H32]) -> String {
    let d: Vec<String> = uni
        .iter()
        .map(|h| format!("{}:{}:{}", hx(h), get_tok(&st.get(&bh(h))), st.is_pinned(&bh(h)) as u8))
        .collect();
    format!(
        "dump={} len={} bytes={} pins={} over={}",
        if d.is_empty() { "-".into() } else { d.join(";") },
        st.len(),
        st.byte_count(),
        st.pinned_count(),
        st.is_over_budget() as u8
    )
}

fn run_mem(c: &Case, max: Option<usize>, ops: &[&str]) -> String {
    let mut st = match max {
        Some(m) => MemoryTier::with_limits(m),
        None => MemoryTier::new(),
    };
    let uni = universe(c, ops);
    let mut refm = BTreeMap::new();
    let mut refpins = BTreeSet::new();
    let mut fails = Vec::new();
    let mut res = Vec::new();
    for o in ops {
        res.push(mem_op(&mut st, c, o, &mut refm, &mut refpins, &uni, &mut fails));
    }
    if let Some(m) = max {
        if st.is_over_budget() != (st.byte_count() > m) {
            fails.push("over-budget-flag-wrong".into());
        }
    }
    finish_line(res, mem_dump(&st, &uni), fails)
}

fn finish_line(res: Vec<String>, dump: String, mut fails: Vec<String>) -> String {
    fails.sort();
    fails.dedup();
    let orc = if fails.is_empty() { "ok".to_string() } else { format!("FAIL:{}", fails.join(",")) };
    format!("res={} {} oracle={}", if res.is_empty() { "-".into() } else { res.join(",") }, dump, orc)
}

// ------------------------------------------------------------------------------------------- disk tier

fn scratch_dir(tag: &str) -> PathBuf {
    static N: std::sync::atomic::AtomicU64 = std::sync::atomic::AtomicU64::new(0);
    let n = N.fetch_add(1, std::sync::atomic::Ordering::Relaxed);
    let p = std::env::temp_dir().join(format!("C20-{}-{}-{}", tag, std::process::id(), n));
    let _ = std::fs::remove_dir_all(&p);
    p
}

fn blob_path(root: &Path, h: &H32) -> PathBuf {
    let hex = hx(h);
    root.join("blobs").join(&hex[..2]).join(hex)
}

fn disk_get_tok(r: &Result<Option<std::sync::Arc<[u8]>>, DiskTierError>) -> String {
    match r {
        Ok(g) => get_tok(g),
        Err(DiskTierError::Cas(CasError::HashMismatch { computed, .. })) => format!("mm:{}", hx(computed.as_bytes())),
        Err(DiskTierError::Io { .. }) => "io".into(),
        Err(DiskTierError::InvalidBlobPath { .. }) => "badpath".into(),
    }
}

/// (visible blob files name:content, number of dot-files) under root/blobs/*/
fn scan(root: &Path) -> (Vec<(String, Vec<u8>)>, usize) {
    let mut files = Vec::new();
    let mut dots = 0;
    if let Ok(shards) = std::fs::read_dir(root.join("blobs")) {
        for sh in shards.flatten() {
            if let Ok(es) = std::fs::read_dir(sh.path()) {
                for e in es.flatten() {
                    let name = e.file_name().to_string_lossy().to_string();
                    if name.starts_with('.') {
                        dots += 1;
                    } else {
                        files.push((name, std::fs::read(e.path()).unwrap_or_default()));
                    }
                }
            }
        }
    }
    files.sort();
    (files, dots)
}

fn run_disk(c: &Case, ops: &[&str]) -> String {
    let root = scratch_dir("disk");
    let mut st = DiskTier::open(&root).expect("open");
    let uni = universe(c, ops);
    // reference: what each file holds now (API writes + environment faults)
    let mut reff: BTreeMap<H32, Vec<u8>> = BTreeMap::new();
    let mut refpins: BTreeSet<H32> = BTreeSet::new();
    let mut strays = 0usize;
    let mut fails: Vec<String> = Vec::new();
    let mut res = Vec::new();
    let check_get = |h: &H32, r: &Result<Option<std::sync::Arc<[u8]>>, DiskTierError>,
                     reff: &BTreeMap<H32, Vec<u8>>,
                     fails: &mut Vec<String>| {
        match (r, reff.get(h)) {
            (Ok(None), None) => {}
            (Ok(Some(b)), Some(e)) => {
                if b3(b) != *h {
                    fails.push("get-returned-bytes-not-hashing-to-key".into());
                }
                if &**b != e.as_slice() {
                    fails.push("get-returned-other-bytes".into());
                }
            }
            (Err(DiskTierError::Cas(CasError::HashMismatch { expected, computed })), Some(e)) => {
                if b3(e) == *h {
                    fails.push("get-rejected-intact-file".into());
                }
                if expected.as_bytes() != h || *computed.as_bytes() != b3(e) {
                    fails.push("get-mismatch-wrong-error-fields".into());
                }
            }
            (Ok(Some(_)), None) => fails.push("get-returned-never-stored".into()),
            (Ok(None), Some(_)) => fails.push("get-lost-stored-blob".into()),
            (Err(_), _) => fails.push("get-unexpected-error".into()),
        }
    };
    for tok in ops {
        let f: Vec<&str> = tok.split(':').collect();
        let r = match f[0] {
            "p" => {
                let b = &c.pool[f[1].parse::<usize>().unwrap()];
                match st.put(b) {
                    Ok(h) => {
                        if *h.as_bytes() != b3(b) {
                            fails.push("put-returned-wrong-hash".into());
                        }
                        reff.insert(b3(b), b.clone());
                        match st.get(&h) {
                            Ok(Some(g)) if &*g == b.as_slice() => {}
                            _ => fails.push("get-after-put-differs".into()),
                        }
                        format!("H{}", hx(h.as_bytes()))
                    }
                    Err(_) => {
                        fails.push("put-io-error".into());
                        "io".into()
                    }
                }
            }
            "v" => {
                let h = c.href(f[1]);
                let b = &c.pool[f[2].parse::<usize>().unwrap()];
                let real = b3(b);
                let before = scan(&root).0;
                let r = st.put_verified(bh(&h), b);
                if real != h {
                    match &r {
                        Err(DiskTierError::Cas(CasError::HashMismatch { expected, computed }))
                            if *expected.as_bytes() == h && *computed.as_bytes() == real => {}
                        Ok(()) => fails.push("put-verified-accepts-mismatch".into()),
                        Err(_) => fails.push("put-verified-wrong-error-fields".into()),
                    }
                    if scan(&root).0 != before {
                        fails.push("rejected-put-verified-mutated-store".into());
                    }
                } else {
                    if r.is_err() {
                        fails.push("put-verified-rejects-matching-bytes".into());
                    }
                    reff.insert(h, b.clone());
                    match st.get(&bh(&h)) {
                        Ok(Some(g)) if &*g == b.as_slice() => {}
                        _ => fails.push("get-after-put-verified-differs".into()),
                    }
                }
                match r {
                    Ok(()) => "ok".into(),
                    Err(DiskTierError::Cas(CasError::HashMismatch { computed, .. })) => {
                        format!("mm:{}", hx(computed.as_bytes()))
                    }
                    Err(_) => "io".into(),
                }
            }
            "g" => {
                let h = c.href(f[1]);
                let r = st.get(&bh(&h));
                check_get(&h, &r, &reff, &mut fails);
                disk_get_tok(&r)
            }
            "h" => {
                let h = c.href(f[1]);
                match st.has(&bh(&h)) {
                    Ok(b) => {
                        if b != reff.contains_key(&h) {
                            fails.push("has-disagrees-with-reference".into());
                        }
                        format!("{}", b as u8)
                    }
                    Err(_) => "io".into(),
                }
            }
            "i" | "u" => {
                let h = c.href(f[1]);
                let before = scan(&root).0;
                if f[0] == "i" {
                    st.pin(&bh(&h));
                    refpins.insert(h);
                } else {
                    st.unpin(&bh(&h));
                    refpins.remove(&h);
                }
                if scan(&root).0 != before {
                    fails.push("pin-changed-content".into());
                }
                "-".into()
            }
            "q" => {
                let h = c.href(f[1]);
                let r = st.is_pinned(&bh(&h));
                if r != refpins.contains(&h) {
                    fails.push("is-pinned-disagrees-with-reference".into());
                }
                format!("{}", r as u8)
            }
            "l" => match st.list() {
                Ok(l) => {
                    let want: Vec<H32> = reff.keys().copied().collect();
                    let got: Vec<H32> = l.iter().map(|h| *h.as_bytes()).collect();
                    if want != got {
                        fails.push("list-disagrees-with-reference".into());
                    }
                    let v: Vec<String> = got.iter().map(hx).collect();
                    format!("L{}", v.join("+"))
                }
                Err(_) => "io".into(),
            },
            "r" => {
                let before: Vec<String> = uni.iter().map(|h| disk_get_tok(&st.get(&bh(h)))).collect();
                drop(st);
                st = DiskTier::open(&root).expect("reopen");
                refpins.clear();
                let after: Vec<String> = uni.iter().map(|h| disk_get_tok(&st.get(&bh(h)))).collect();
                if before != after {
                    fails.push("reopen-changed-content".into());
                }
                "-".into()
            }
            "w" => {
                let h = c.href(f[1]);
                let b = &c.pool[f[2].parse::<usize>().unwrap()];
                let p = blob_path(&root, &h);
                std::fs::create_dir_all(p.parent().unwrap()).unwrap();
                std::fs::write(&p, b).unwrap();
                reff.insert(h, b.clone());
                "-".into()
            }
            "d" => {
                let h = c.href(f[1]);
                let _ = std::fs::remove_file(blob_path(&root, &h));
                reff.remove(&h);
                "-".into()
            }
            "s" => {
                let h = c.href(f[1]);
                let p = blob_path(&root, &h);
                std::fs::create_dir_all(p.parent().unwrap()).unwrap();
                let t = p.parent().unwrap().join(format!(".{}.{}.tmp", hx(&h), 900_000 + strays));
                std::fs::write(&t, b"partial write left behind by a crashed writer").unwrap();
                strays += 1;
                "-".into()
            }
            _ => panic!("disk op {tok}"),
        };
        res.push(r);
        if st.pinned_count() != refpins.len() {
            fails.push("pin-count-differs-from-reference".into());
        }
    }
    // final probes: every get is intact-or-typed-error
    let mut d = Vec::new();
    for h in &uni {
        let r = st.get(&bh(h));
        check_get(h, &r, &reff, &mut fails);
        d.push(format!("{}:{}:{}", hx(h), disk_get_tok(&r), st.is_pinned(&bh(h)) as u8));
    }
    let (files, dots) = scan(&root);
    if dots != strays {
        fails.push("temp-files-leaked".into());
    }
    let want: Vec<(String, Vec<u8>)> = reff.iter().map(|(h, b)| (hx(h), b.clone())).collect();
    if files != want {
        fails.push("files-differ-from-reference".into());
    }
    let fl: Vec<String> = files.iter().map(|(n, b)| format!("{}:{}", n, tohex(b))).collect();
    let dump = format!(
        "dump={} pins={} files={}",
        if d.is_empty() { "-".into() } else { d.join(";") },
        st.pinned_count(),
        if fl.is_empty() { "-".into() } else { fl.join(";") }
    );
    let _ = std::fs::remove_dir_all(&root);
    finish_line(res, dump, fails)
}

// ------------------------------------------------------------------------------------------- semantic index

fn role(n: u8) -> RetainedBlobRole {
    match n {
        0 => RetainedBlobRole::ContractArtifact,
        1 => RetainedBlobRole::ContractReceipt,
        2 => RetainedBlobRole::Witness,
        3 => RetainedBlobRole::ReadingPayload,
        4 => RetainedBlobRole::ReadingEnvelope,
        5 => RetainedBlobRole::ObserverArtifact,
        _ => panic!("role {n}"),
    }
}

fn parse_coord(s: &str) -> SemanticBlobCoordinate {
    let f: Vec<&str> = s.split('/').collect();
    SemanticBlobCoordinate {
        namespace: String::from_utf8(unhex(f[0])).unwrap(),
        schema_hash_hex: String::from_utf8(unhex(f[1])).unwrap(),
        artifact_hash_hex: String::from_utf8(unhex(f[2])).unwrap(),
        role: role(f[3].parse().unwrap()),
        semantic_digest: hex32(f[4]),
    }
}

fn ret_err_tok(e: &RetentionError) -> String {
    match e {
        RetentionError::MissingSemanticCoordinate { .. } => "E:coord".into(),
        RetentionError::MissingBlob { content_hash } => format!("E:blob:{}", hx(content_hash.as_bytes())),
        RetentionError::RangeExceedsBudget { requested_bytes, max_bytes } => {
            format!("E:budget:{requested_bytes}:{max_bytes}")
        }
        RetentionError::RangeOutOfBounds { offset, len, byte_len } => format!("E:oob:{offset}:{len}:{byte_len}"),
        RetentionError::SemanticCoordinateConflict { existing_content_hash, new_content_hash, .. } => format!(
            "E:conflict:{}:{}",
            hx(existing_content_hash.as_bytes()),
            hx(new_content_hash.as_bytes())
        ),
    }
}

fn run_idx(c: &Case, max: Option<usize>, coords: &[SemanticBlobCoordinate], ops: &[&str]) -> String {
    let fresh = |max: Option<usize>| match max {
        Some(m) => MemoryTier::with_limits(m),
        None => MemoryTier::new(),
    };
    let mut st = fresh(max);
    let mut ix = RetainedBlobIndex::default();
    let uni = universe(c, ops);
    let mut refm: BTreeMap<H32, Vec<u8>> = BTreeMap::new();
    let mut refpins: BTreeSet<H32> = BTreeSet::new();
    let mut first: BTreeMap<usize, Vec<u8>> = BTreeMap::new(); // coordinate index -> first retained content
    let mut fails: Vec<String> = Vec::new();
    let mut res = Vec::new();
    // distinct coordinate indices may denote equal coordinates; canonicalise to the first equal one
    let canon: Vec<usize> = (0..coords.len()).map(|i| (0..=i).find(|&j| coords[j] == coords[i]).unwrap()).collect();
    for tok in ops {
        let f: Vec<&str> = tok.split(':').collect();
        let r = match f[0] {
            "R" => {
                let ci: usize = f[1].parse().unwrap();
                let b = &c.pool[f[2].parse::<usize>().unwrap()];
                let r = ix.retain(&mut st, coords[ci].clone(), b);
                match (&r, first.get(&canon[ci])) {
                    (Ok(d), None) => {
                        if *d.content_hash.as_bytes() != b3(b) || d.byte_len != b.len() as u64 || d.coordinate != coords[ci] {
                            fails.push("retain-descriptor-wrong".into());
                        }
                        first.insert(canon[ci], b.clone());
                    }
                    (Ok(d), Some(e)) => {
                        if e != b {
                            fails.push("retain-accepted-different-content-under-same-coordinate".into());
                        }
                        if *d.content_hash.as_bytes() != b3(e) || d.byte_len != e.len() as u64 {
                            fails.push("retain-descriptor-wrong".into());
                        }
                    }
                    (Err(RetentionError::SemanticCoordinateConflict { existing_content_hash, new_content_hash, .. }), Some(e)) => {
                        if e == b {
                            fails.push("retain-rejected-equal-content".into());
                        }
                        if *existing_content_hash.as_bytes() != b3(e) || *new_content_hash.as_bytes() != b3(b) {
                            fails.push("retain-conflict-wrong-fields".into());
                        }
                    }
                    (Err(_), _) => fails.push("retain-unexpected-error".into()),
                }
                if r.is_ok() {
                    refm.entry(b3(b)).or_insert_with(|| b.clone());
                    refpins.insert(b3(b));
                    if !st.is_pinned(&bh(&b3(b))) {
                        fails.push("retain-did-not-pin".into());
                    }
                }
                match r {
                    Ok(d) => format!("d{}/{}", hx(d.content_hash.as_bytes()), d.byte_len),
                    Err(e) => ret_err_tok(&e),
                }
            }
            "L" => {
                let ci: usize = f[1].parse().unwrap();
                let r = ix.load(&st, &coords[ci]);
                match (&r, first.get(&canon[ci])) {
                    (Ok(rb), Some(e)) => {
                        if &*rb.bytes != e.as_slice() {
                            fails.push("load-returned-content-of-another-coordinate-or-altered".into());
                        }
                        if b3(&rb.bytes) != *rb.descriptor.content_hash.as_bytes()
                            || rb.descriptor.byte_len != rb.bytes.len() as u64
                            || rb.descriptor.coordinate != coords[ci]
                        {
                            fails.push("load-descriptor-does-not-describe-bytes".into());
                        }
                    }
                    (Ok(_), None) => fails.push("load-answered-never-retained-coordinate".into()),
                    (Err(RetentionError::MissingSemanticCoordinate { .. }), None) => {}
                    (Err(RetentionError::MissingBlob { content_hash }), Some(e)) => {
                        if *content_hash.as_bytes() != b3(e) || refm.contains_key(&b3(e)) {
                            fails.push("load-missing-blob-wrong".into());
                        }
                    }
                    (Err(_), _) => fails.push("load-unexpected-error".into()),
                }
                match r {
                    Ok(rb) => format!(
                        "d{}/{}/{}",
                        hx(rb.descriptor.content_hash.as_bytes()),
                        rb.descriptor.byte_len,
                        tohex(&rb.bytes)
                    ),
                    Err(e) => ret_err_tok(&e),
                }
            }
            "G" => {
                let ci: usize = f[1].parse().unwrap();
                let off: u64 = f[2].parse().unwrap();
                let len: u64 = f[3].parse().unwrap();
                let mx: u64 = f[4].parse().unwrap();
                let cc = coords[ci].clone();
                let r = catch(std::panic::AssertUnwindSafe(|| ix.load_range(&st, &cc, off, len, mx)));
                match r {
                    Err(_) => {
                        fails.push("load-range-panicked".into());
                        "panic".into()
                    }
                    Ok(Ok(rr)) => {
                        match first.get(&canon[ci]) {
                            Some(e) => {
                                let o = off as usize;
                                if len > mx || o + len as usize > e.len() || &*rr.bytes != &e[o..o + len as usize] {
                                    fails.push("load-range-returned-wrong-slice".into());
                                }
                            }
                            None => fails.push("load-answered-never-retained-coordinate".into()),
                        }
                        format!(
                            "d{}/{}/{}/{}",
                            hx(rr.descriptor.content_hash.as_bytes()),
                            rr.descriptor.byte_len,
                            rr.offset,
                            tohex(&rr.bytes)
                        )
                    }
                    Ok(Err(e)) => ret_err_tok(&e),
                }
            }
            "B" => {
                let h = c.href(f[1]);
                match ix.load_by_hash(&st, bh(&h)) {
                    Ok(b) => {
                        if b3(&b) != h {
                            fails.push("get-returned-bytes-not-hashing-to-key".into());
                        }
                        format!("b{}", tohex(&b))
                    }
                    Err(e) => ret_err_tok(&e),
                }
            }
            "D" => {
                let ci: usize = f[1].parse().unwrap();
                match ix.descriptor(&coords[ci]) {
                    Some(d) => {
                        if d.coordinate != coords[ci] {
                            fails.push("descriptor-for-other-coordinate".into());
                        }
                        format!("d{}/{}", hx(d.content_hash.as_bytes()), d.byte_len)
                    }
                    None => "n".into(),
                }
            }
            "F" => {
                st = fresh(max);
                refm.clear();
                refpins.clear();
                "-".into()
            }
            _ => mem_op(&mut st, c, tok, &mut refm, &mut refpins, &uni, &mut fails),
        };
        res.push(r);
    }
    let ds: Vec<String> = coords
        .iter()
        .map(|cc| match ix.descriptor(cc) {
            Some(d) => format!("d{}/{}", hx(d.content_hash.as_bytes()), d.byte_len),
            None => "n".into(),
        })
        .collect();
    let dump = format!("{} idx={}", mem_dump(&st, &uni), if ds.is_empty() { "-".into() } else { ds.join(";") });
    finish_line(res, dump, fails)
}

fn main() {
    for line in read_cases() {
        let m = kv(&line);
        let kind = m.get("kind").map(String::as_str).unwrap_or("mem");
        let pool: Vec<Vec<u8>> = match m.get("pool").map(String::as_str) {
            None | Some("") => Vec::new(),
            Some(p) => p.split(',').map(unhex).collect(),
        };
        let hashes: Vec<H32> = pool.iter().map(|b| *blob_hash(b).as_bytes()).collect();
        let c = Case { pool, hashes };
        let opss = m.get("ops").cloned().unwrap_or_default();
        let ops: Vec<&str> = items(&opss);
        let max: Option<usize> = m.get("max").and_then(|s| s.parse().ok());
        let out = match kind {
            "mem" => run_mem(&c, max, &ops),
            "disk" => run_disk(&c, &ops),
            "idx" => {
                let cs = m.get("coords").cloned().unwrap_or_default();
                let coords: Vec<SemanticBlobCoordinate> =
                    if cs.is_empty() || cs == "-" { Vec::new() } else { cs.split(',').map(parse_coord).collect() };
                run_idx(&c, max, &coords, &ops)
            }
            _ => panic!("kind {kind}"),
        };
        println!("{out}");
    }
}
