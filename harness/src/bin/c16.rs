//! C16 harness: observation is read-only and bound to its coordinate.
//!
//! A case drives a REAL multi-worldline runtime (`WorldlineRuntime` + `ProvenanceService` + `Engine`) through a list
//! of steps and, at every read round, serves a list of observation / optic requests through
//! `ObservationService::observe` / `observe_optic`.
//!
//! case:  id=<n> wls=<k> q=<qid.seed,..|-> steps=<step>|<step>|...  reqs=<req>;<req>;...
//!   step  `T:<intents>`   ingest intents (`<w>.<hexprog>,...` or `-`) and run one SchedulerCoordinator::super_tick
//!         `O:<intents>:<seed>`  like T, then re-record the entries committed by this tick with generated outputs
//!                         (ProvenanceService::checkpoint_for/restore + append_local_commit: no rule can reach the
//!                         materialization bus through the engine plumbing, so recorded outputs are injected here)
//!         `I:<intents>`   ingest only (reads then happen with pending inbox entries)
//!         `F:<src>:<tick>`  WorldlineRuntime::fork_strand from worldline index src at tick; the child gets the next index
//!         `C:<w>`         ProvenanceService::checkpoint of worldline w at its frontier
//!         `R`             read round: print world facts, serve every request, run the oracles
//!   req   `o:<wl>:<at>:<frame>:<proj>:<plan>:<inst>:<budget>:<rights>`
//!           wl = index n (id = [n+1;32]); at = f | t<k>; frame = c|r|q; proj = h | s | t* | t<c>,<c>.. | t- | q<id>.<hexvars>
//!           plan = bh|bs|bt|bq|a<seed>; inst = - | i<seed>; budget = u | b<maxp>.<maxw>; rights = k | c<seed>
//!         `p:<focus>:<coord>:<shape>:<maxbytes>:<maxticks>:<maxatt>:<descent>`
//!           focus = w<n> | a | s; coord = w<n>.f | w<n>.t<k> | w<n>.p<m>.<k> | x; shape = h|s|t|q|b<start>.<len>|a
//!           maxbytes/maxticks/maxatt = - | n; descent = b|e
//! output: `case id=..`, per round `W <facts>` and `r <i> <result>` lines, then `end id=.. oracle=<ok|FAIL:..> reads=<n>`
use echo_verif_harness::*;
use std::collections::BTreeMap;
use warp_core::materialization::make_channel_id;
use warp_core::strand::{make_strand_id, StrandRevalidationState};
use warp_core::{
    make_edge_id, make_head_id, make_intent_kind, make_node_id, make_type_id, ActorId, AtomPayload, AttachmentDescentPolicy,
    AttachmentKey, AttachmentOwner, AttachmentPlane, AttachmentValue, AuthoredObserverPlan, AuthorityBinding,
    AuthorityDomainId, AuthorityDomainRef, BuiltinObserverPlan, CausalAuthority, CausalPosture, ConflictPolicy,
    ContractQueryObserver, ContractQueryObserverResult, CoordinateAt, EchoCoordinate, EdgeId, EdgeKey, EdgeRecord, Engine,
    EngineBuilder, Footprint, ForkStrandRequest, GraphStore, GraphView, Hash, InboxPolicy, IngressEnvelope, IngressTarget,
    NodeId, NodeKey, NodeRecord, ObservationArtifact, ObservationAt, ObservationBasisPosture, ObservationCoordinate,
    ObservationError, ObservationFrame, ObservationPayload, ObservationProjection, ObservationProjectionKind,
    ObservationReadBudget, ObservationRequest, ObservationRights, ObservationService, ObserveOpticRequest,
    ObserveOpticResult, ObserverInstanceId, ObserverInstanceRef, ObserverPlanId, OpticAperture, OpticApertureShape,
    OpticCapabilityId, OpticFocus, OpticId, OpticObstructionKind, OpticReadBudget, OriginId, PatternGraph, PlaybackMode,
    PostureDerivation, ProjectionVersion, ProvenanceRef, ProvenanceService, ProvenanceStore, ReadingBudgetPosture,
    ReadingObserverPlan, ReadingResidualPosture, ReadingWitnessRef, RetentionContractId, RetentionPosture, RewriteRule,
    SchedulerCoordinator, SchedulerKind, SealStrength, SlotId, TickDelta, WarpOp, WitnessBasis, WorldlineId,
    WorldlineRuntime, WorldlineState, WorldlineTick, WriterHead, WriterHeadKey,
};

const NK: u8 = 6;
const NCHAN: usize = 4;

fn wl(n: usize) -> WorldlineId {
    WorldlineId::from_bytes([(n + 1) as u8; 32])
}
fn wt(t: u64) -> WorldlineTick {
    WorldlineTick::from_raw(t)
}
fn root_id() -> NodeId {
    make_node_id("root")
}
fn node_k(k: u8) -> NodeId {
    make_node_id(&format!("vf/n{k}"))
}
fn edge_ab(a: u8, b: u8) -> EdgeId {
    make_edge_id(&format!("vf/e/{a}/{b}"))
}
fn hx(h: &[u8; 32]) -> String {
    hex::encode(h)
}
fn chan(c: usize) -> warp_core::materialization::ChannelId {
    make_channel_id(&format!("vf:ch{c}"))
}

// ------------------------------------------------------------------------------------------- the rule
// A small data-driven rule (same idea as the C07 harness): the intent payload is a program of graph edits.

fn program<'a>(view: GraphView<'a>, scope: &NodeId) -> Option<&'a [u8]> {
    match view.node_attachment(scope) {
        Some(AttachmentValue::Atom(p)) if p.bytes.len() >= 2 && &p.bytes[..2] == b"VF" => Some(&p.bytes[2..]),
        _ => None,
    }
}

#[derive(Clone, Debug)]
enum MiniOp {
    Node(u8, u8),
    SetAtt(u8, Vec<u8>),
    Edge(u8, u8),
    DelEdge(u8, u8),
}

fn decode(prog: &[u8]) -> Vec<MiniOp> {
    let mut out = Vec::new();
    let mut i = 0usize;
    while i < prog.len() {
        let arg = |j: usize| prog.get(i + j).copied().unwrap_or(0);
        match prog[i] {
            1 => {
                out.push(MiniOp::Node(arg(1) % NK, arg(2)));
                i += 3;
            }
            2 => {
                let n = (arg(2) as usize).min(8);
                let data = prog.get(i + 3..(i + 3 + n).min(prog.len())).unwrap_or(&[]).to_vec();
                out.push(MiniOp::SetAtt(arg(1) % NK, data));
                i += 3 + n;
            }
            4 => {
                out.push(MiniOp::Edge(arg(1) % NK, arg(2) % NK));
                i += 3;
            }
            5 => {
                out.push(MiniOp::DelEdge(arg(1) % NK, arg(2) % NK));
                i += 3;
            }
            _ => i += 1,
        }
    }
    out
}

fn interp_matches(view: GraphView<'_>, scope: &NodeId) -> bool {
    program(view, scope).is_some()
}

fn interp_footprint(view: GraphView<'_>, scope: &NodeId) -> Footprint {
    let warp = view.warp_id();
    let mut fp = Footprint::default();
    fp.n_read.insert_with_warp(warp, *scope);
    fp.a_read.insert(AttachmentKey::node_alpha(NodeKey { warp_id: warp, local_id: *scope }));
    let Some(prog) = program(view, scope) else {
        return fp;
    };
    let node = |fp: &mut Footprint, id: NodeId| {
        fp.n_read.insert_with_warp(warp, id);
        fp.n_write.insert_with_warp(warp, id);
        let key = AttachmentKey::node_alpha(NodeKey { warp_id: warp, local_id: id });
        fp.a_read.insert(key);
        fp.a_write.insert(key);
    };
    let edge = |fp: &mut Footprint, id: EdgeId| {
        fp.e_read.insert_with_warp(warp, id);
        fp.e_write.insert_with_warp(warp, id);
        let key = AttachmentKey::edge_beta(EdgeKey { warp_id: warp, local_id: id });
        fp.a_read.insert(key);
        fp.a_write.insert(key);
    };
    for op in decode(prog) {
        match op {
            MiniOp::Node(k, _) => {
                node(&mut fp, node_k(k));
                node(&mut fp, root_id());
                edge(&mut fp, edge_ab(255, k));
            }
            MiniOp::SetAtt(k, _) => node(&mut fp, node_k(k)),
            MiniOp::Edge(a, b) | MiniOp::DelEdge(a, b) => {
                node(&mut fp, node_k(a));
                node(&mut fp, node_k(b));
                edge(&mut fp, edge_ab(a, b));
            }
        }
    }
    fp
}

fn interp_executor(view: GraphView<'_>, scope: &NodeId, delta: &mut TickDelta) {
    let warp = view.warp_id();
    let Some(prog) = program(view, scope) else {
        return;
    };
    let nkey = |k: u8| NodeKey { warp_id: warp, local_id: node_k(k) };
    for op in decode(prog) {
        match op {
            MiniOp::Node(k, ty) => {
                delta.push(WarpOp::UpsertNode {
                    node: nkey(k),
                    record: NodeRecord { ty: make_type_id(&format!("vf/ty{ty}")) },
                });
                if !view.has_edge(&edge_ab(255, k)) {
                    delta.push(WarpOp::UpsertEdge {
                        warp_id: warp,
                        record: EdgeRecord { id: edge_ab(255, k), from: root_id(), to: node_k(k), ty: make_type_id("vf/child") },
                    });
                }
            }
            MiniOp::SetAtt(k, data) => {
                if view.node(&node_k(k)).is_some() {
                    delta.push(WarpOp::SetAttachment {
                        key: AttachmentKey::node_alpha(nkey(k)),
                        value: Some(AttachmentValue::Atom(AtomPayload::new(make_type_id("vf/att"), data.into()))),
                    });
                }
            }
            MiniOp::Edge(a, b) => {
                if a != b && view.node(&node_k(a)).is_some() && view.node(&node_k(b)).is_some() {
                    delta.push(WarpOp::UpsertEdge {
                        warp_id: warp,
                        record: EdgeRecord { id: edge_ab(a, b), from: node_k(a), to: node_k(b), ty: make_type_id("vf/link") },
                    });
                }
            }
            MiniOp::DelEdge(a, b) => {
                if view.has_edge(&edge_ab(a, b)) {
                    delta.push(WarpOp::DeleteEdge { warp_id: warp, from: node_k(a), edge_id: edge_ab(a, b) });
                }
            }
        }
    }
}

fn interp_rule() -> RewriteRule {
    RewriteRule {
        id: make_type_id("rule:cmd/vf-interp").0,
        name: "cmd/vf-interp",
        left: PatternGraph { nodes: vec![] },
        matcher: interp_matches,
        executor: interp_executor,
        compute_footprint: interp_footprint,
        factor_mask: 0,
        conflict_policy: ConflictPolicy::Abort,
        join_fn: None,
    }
}

// ------------------------------------------------------------------------------------------- world

struct World {
    runtime: WorldlineRuntime,
    engine: Engine,
    provenance: ProvenanceService,
    wls: Vec<WorldlineId>,
    base: WorldlineState,
    queries: Vec<(u32, u8)>,
    flags: Vec<String>,
    notes: Vec<String>,
    /// stable table of masked historical readings: request text -> masked hash-input bytes
    historical: BTreeMap<String, Vec<u8>>,
    reads: usize,
}

fn authored_plan(seed: u8) -> AuthoredObserverPlan {
    AuthoredObserverPlan {
        plan_id: ObserverPlanId::from_bytes([seed; 32]),
        artifact_hash: [seed.wrapping_add(1); 32],
        schema_hash: [seed.wrapping_add(9); 32],
        state_schema_hash: [seed.wrapping_add(2); 32],
        update_law_hash: [seed.wrapping_add(3); 32],
        emission_law_hash: [seed.wrapping_add(4); 32],
    }
}

fn retention_posture() -> RetentionPosture {
    let origin_id = OriginId::from_bytes([0x21; 32]);
    let authority = AuthorityDomainRef::new(origin_id, AuthorityDomainId::from_bytes([0x22; 32]));
    RetentionPosture::new(
        CausalPosture::AuthorOnly,
        PostureDerivation::ExplicitIntent,
        CausalAuthority::new(
            origin_id,
            ActorId::from_bytes([0x23; 32]),
            authority,
            AuthorityBinding::LocalUnbound { origin: origin_id },
            SealStrength::Advisory,
        )
        .expect("authority"),
        RetentionContractId::from_bytes([0x24; 32]),
        None,
    )
    .expect("retention posture")
}

fn default_head(id: WorldlineId, label: &str) -> WriterHead {
    WriterHead::with_routing(
        WriterHeadKey { worldline_id: id, head_id: make_head_id(label) },
        PlaybackMode::Play,
        InboxPolicy::AcceptAll,
        None,
        true,
    )
}

fn build_world(nwl: usize, queries: &[(u32, u8)]) -> World {
    let mut store = GraphStore::default();
    store.insert_node(root_id(), NodeRecord { ty: make_type_id("world") });
    let mut engine = EngineBuilder::new(store, root_id()).scheduler(SchedulerKind::Radix).workers(1).build();
    engine.register_rule(interp_rule()).expect("register rule");
    for (qid, seed) in queries {
        // deterministic host observer: bytes = qid LE ++ vars ++ resolved tick LE ++ first 4 bytes of the resolved root;
        // odd query ids report a residual posture
        let residual = qid % 2 == 1;
        let obs = ContractQueryObserver::new(*qid, authored_plan(*seed), move |ctx| {
            let mut bytes = Vec::new();
            bytes.extend_from_slice(&ctx.query_id.to_le_bytes());
            bytes.extend_from_slice(ctx.vars_bytes);
            bytes.extend_from_slice(&ctx.resolved.resolved_worldline_tick.as_u64().to_le_bytes());
            bytes.extend_from_slice(&ctx.resolved.state_root[..4]);
            Ok(if residual { ContractQueryObserverResult::residual(bytes) } else { ContractQueryObserverResult::complete(bytes) })
        });
        engine.register_contract_query_observer(obs).expect("register query observer");
    }
    let mut runtime = WorldlineRuntime::new();
    let base = WorldlineState::empty();
    let mut wls = Vec::new();
    for i in 0..nwl {
        let id = wl(i);
        runtime.register_worldline(id, base.clone()).expect("register worldline");
        runtime.register_writer_head(default_head(id, "default")).expect("register head");
        wls.push(id);
    }
    let mut provenance = ProvenanceService::new();
    for (id, frontier) in runtime.worldlines().iter() {
        provenance.register_worldline(*id, frontier.state()).expect("register provenance");
    }
    World {
        runtime,
        engine,
        provenance,
        wls,
        base,
        queries: queries.to_vec(),
        flags: Vec::new(),
        notes: Vec::new(),
        historical: BTreeMap::new(),
        reads: 0,
    }
}

fn ingest(world: &mut World, intents: &str) {
    if intents == "-" || intents.is_empty() {
        return;
    }
    for intent in intents.split(',') {
        let Some((w, hexprog)) = intent.split_once('.') else { continue };
        let Ok(w) = w.parse::<usize>() else { continue };
        if w >= world.wls.len() {
            continue;
        }
        let mut bytes = b"VF".to_vec();
        bytes.extend(unhex(hexprog));
        let env = IngressEnvelope::local_intent(
            IngressTarget::DefaultWriter { worldline_id: world.wls[w] },
            make_intent_kind("vf/prog"),
            bytes,
        );
        let _ = world.runtime.ingest(env);
    }
}

fn gen_outputs(seed: u64, w: usize, tick: u64) -> Vec<(warp_core::materialization::ChannelId, Vec<u8>)> {
    let mut rng = Rng(seed ^ ((w as u64) << 32) ^ tick.wrapping_mul(0x9E37_79B9));
    let n = rng.below(NCHAN + 1);
    let mut idx: Vec<usize> = (0..NCHAN).collect();
    rng.shuffle(&mut idx);
    let mut out = Vec::new();
    // stored order is NOT sorted on purpose: observation must serve the recorded order
    for &c in idx.iter().take(n) {
        let len = rng.below(6);
        let data: Vec<u8> = (0..len).map(|_| rng.next() as u8).collect();
        out.push((chan(c), data));
    }
    out
}

fn tick(world: &mut World, intents: &str, outputs_seed: Option<u64>) {
    ingest(world, intents);
    let before = world.provenance.checkpoint_for(world.wls.iter().copied()).expect("checkpoint_for");
    let lens: Vec<u64> = world.wls.iter().map(|w| world.provenance.len(*w).unwrap_or(0)).collect();
    match SchedulerCoordinator::super_tick(&mut world.runtime, &mut world.provenance, &mut world.engine) {
        Ok(_records) => {}
        Err(e) => {
            world.notes.push(format!("super-tick-error:{}", format!("{e:?}").chars().take(40).collect::<String>()));
            return;
        }
    }
    if let Some(seed) = outputs_seed {
        // re-record the entries of this tick with generated outputs (commit ids do not bind recorded outputs)
        let mut fresh = Vec::new();
        for (i, w) in world.wls.iter().enumerate() {
            let n = world.provenance.len(*w).unwrap_or(0);
            for t in lens[i]..n {
                let mut e = world.provenance.entry(*w, wt(t)).expect("entry");
                e.outputs = gen_outputs(seed, i, t);
                fresh.push(e);
            }
        }
        world.provenance.restore(&before);
        for e in fresh {
            if let Err(err) = world.provenance.append_local_commit(e) {
                world.notes.push(format!("re-record-rejected:{err:?}"));
            }
        }
    }
}

fn fork(world: &mut World, src: usize, k: u64) {
    if src >= world.wls.len() {
        return;
    }
    let idx = world.wls.len();
    let child = wl(idx);
    let request = ForkStrandRequest {
        strand_id: make_strand_id(&format!("vf-strand-{idx}")),
        source_lane_id: world.wls[src],
        fork_tick: wt(k),
        child_worldline_id: child,
        writer_heads: vec![default_head(child, &format!("child-{idx}"))],
        retention_posture: retention_posture(),
    };
    match world.runtime.fork_strand(&mut world.provenance, request) {
        Ok(_) => world.wls.push(child),
        Err(e) => world.notes.push(format!("fork-rejected:{}", format!("{e:?}").chars().take(40).collect::<String>())),
    }
}

// ------------------------------------------------------------------------------------------- fingerprints

fn dump_state(state: &WorldlineState, s: &mut String) {
    use std::fmt::Write;
    let _ = write!(s, "tick={} root={} tx? hist={}", state.current_tick().as_u64(), hx(&state.state_root()), state.tick_history().len());
    for (snap, receipt, patch) in state.tick_history() {
        let _ = write!(s, "[{} {} {} {}]", hx(&snap.hash), hx(&snap.state_root), hx(&receipt.digest()), hx(&patch.digest()));
    }
    let _ = write!(s, " last={:?}", state.last_snapshot().map(|x| hx(&x.hash)));
    for c in state.last_materialization() {
        let _ = write!(s, " mat={}:{}", hx(&c.channel.0), tohex(&c.data));
    }
    let _ = write!(s, " errs={}", state.last_materialization_errors().len());
    let warp = state.root().warp_id;
    if let Some(store) = state.store(&warp) {
        let mut items: Vec<String> = Vec::new();
        for (id, rec) in store.iter_nodes() {
            items.push(format!("n{}={}", hx(&id.0), hx(&rec.ty.0)));
        }
        for (from, edges) in store.iter_edges() {
            for e in edges {
                items.push(format!("e{}={}.{}.{}", hx(&e.id.0), hx(&from.0), hx(&e.to.0), hx(&e.ty.0)));
            }
        }
        for (id, v) in store.iter_node_attachments() {
            items.push(format!("a{}={:?}", hx(&id.0), v));
        }
        for (id, v) in store.iter_edge_attachments() {
            items.push(format!("b{}={:?}", hx(&id.0), v));
        }
        items.sort();
        let _ = write!(s, " store={}", items.join(","));
    }
}

/// Canonical dump of everything a read could have touched, through public accessors only.
fn fingerprint(world: &World) -> (String, String, String) {
    use std::fmt::Write;
    let rt = &world.runtime;
    let mut r = String::new();
    let _ = write!(r, "gt={} ", rt.global_tick().as_u64());
    for (id, frontier) in rt.worldlines().iter() {
        let _ = write!(r, "WL {} ft={} ", hx(id.as_bytes()), frontier.frontier_tick().as_u64());
        dump_state(frontier.state(), &mut r);
    }
    for (key, head) in rt.heads().iter() {
        let _ = write!(
            r,
            " HEAD {}.{:?} paused={} admitted={} pending={} canadmit={}",
            hx(key.worldline_id.as_bytes()),
            key.head_id,
            head.is_paused(),
            head.is_admitted(),
            head.inbox().pending_count(),
            head.inbox().can_admit()
        );
    }
    let _ = write!(
        r,
        " subs={} pending_subs={} ticketed={} corr={} faults={} rtfault={} scans={}",
        rt.witnessed_submission_count(),
        rt.pending_witnessed_submission_count(),
        rt.ticketed_runtime_ingress_count(),
        rt.receipt_correlation_count(),
        rt.scheduler_fault_count(),
        rt.is_runtime_faulted(),
        rt.receipt_correlation_full_scan_count_for_test()
    );
    for rec in rt.witnessed_submission_replay_records() {
        let _ = write!(r, " sub={rec:?}");
    }
    for f in rt.scheduler_faults() {
        let _ = write!(r, " fault={f:?}");
    }
    let _ = write!(r, " strands={}", rt.strands().len());
    for w in &world.wls {
        if let Some(st) = rt.strands().find_by_child_worldline(w) {
            let _ = write!(r, " strand={:?}/{:?}/{:?}", st.strand_id(), st.fork_basis_ref(), st.writer_heads());
        }
    }
    let mut p = String::new();
    for w in &world.wls {
        let n = world.provenance.len(*w).unwrap_or(u64::MAX);
        let _ = write!(p, "WL {} len={} tip={:?}", hx(w.as_bytes()), n, world.provenance.tip_ref(*w));
        if n != u64::MAX {
            for t in 0..n {
                let _ = write!(p, " E{:?}", world.provenance.entry(*w, wt(t)));
            }
        }
        let mut at = WorldlineTick::MAX;
        while let Some(cp) = world.provenance.checkpoint_before(*w, at) {
            let _ = write!(p, " cp={}:{}", cp.worldline_tick.as_u64(), hx(&cp.state_hash));
            at = cp.worldline_tick;
        }
    }
    let _ = write!(p, " shells={}", world.provenance.braid_shells().count());
    let e = &world.engine;
    let snap = e.snapshot();
    let mut g = String::new();
    let _ = write!(
        g,
        "snap={} root={} tx={} fresh={} bus_empty={} mat={} materr={} ledger={} intents={:?} log={}",
        hx(&snap.hash),
        hx(&snap.state_root),
        snap.tx.value(),
        e.is_fresh_runtime_state(),
        e.materialization_bus().is_empty(),
        e.last_materialization().len(),
        e.last_materialization_errors().len(),
        e.get_ledger().len(),
        e.pending_intent_count().ok(),
        e.get_intent_log().len()
    );
    let h = |s: &str| hex::encode(&blake3::hash(s.as_bytes()).as_bytes()[..12]);
    (h(&r), h(&p), h(&g))
}

// ------------------------------------------------------------------------------------------- requests

fn parse_plan(s: &str) -> ReadingObserverPlan {
    match s {
        "bh" => ReadingObserverPlan::Builtin { plan: BuiltinObserverPlan::CommitBoundaryHead },
        "bs" => ReadingObserverPlan::Builtin { plan: BuiltinObserverPlan::CommitBoundarySnapshot },
        "bt" => ReadingObserverPlan::Builtin { plan: BuiltinObserverPlan::RecordedTruthChannels },
        "bq" => ReadingObserverPlan::Builtin { plan: BuiltinObserverPlan::QueryBytes },
        _ => ReadingObserverPlan::Authored { plan: Box::new(authored_plan(s[1..].parse().expect("plan seed"))) },
    }
}

fn parse_observe(f: &[&str]) -> ObservationRequest {
    let worldline_id = wl(f[1].parse().expect("wl"));
    let at = if f[2] == "f" { ObservationAt::Frontier } else { ObservationAt::Tick(wt(f[2][1..].parse().expect("tick"))) };
    let frame = match f[3] {
        "c" => ObservationFrame::CommitBoundary,
        "r" => ObservationFrame::RecordedTruth,
        _ => ObservationFrame::QueryView,
    };
    let projection = match &f[4][..1] {
        "h" => ObservationProjection::Head,
        "s" => ObservationProjection::Snapshot,
        "t" => {
            let rest = &f[4][1..];
            let channels = match rest {
                "*" => None,
                "-" => Some(Vec::new()),
                _ => Some(rest.split(',').map(|c| chan(c.parse().expect("chan"))).collect()),
            };
            ObservationProjection::TruthChannels { channels }
        }
        _ => {
            let (q, v) = f[4][1..].split_once('.').expect("query");
            ObservationProjection::Query { query_id: q.parse().expect("qid"), vars_bytes: unhex(v) }
        }
    };
    let observer_instance = if f[6] == "-" {
        None
    } else {
        let s: u8 = f[6][1..].parse().expect("inst");
        Some(ObserverInstanceRef {
            instance_id: ObserverInstanceId::from_bytes([s; 32]),
            plan_id: ObserverPlanId::from_bytes([s.wrapping_add(1); 32]),
            state_hash: [s.wrapping_add(2); 32],
        })
    };
    let budget = if f[7] == "u" {
        ObservationReadBudget::UnboundedOneShot
    } else {
        let (a, b) = f[7][1..].split_once('.').expect("budget");
        ObservationReadBudget::Bounded { max_payload_bytes: a.parse().expect("maxp"), max_witness_refs: b.parse().expect("maxw") }
    };
    let rights = if f[8] == "k" {
        ObservationRights::KernelPublic
    } else {
        ObservationRights::CapabilityScoped { capability: OpticCapabilityId::from_bytes([f[8][1..].parse().expect("cap"); 32]) }
    };
    ObservationRequest {
        coordinate: ObservationCoordinate { worldline_id, at },
        frame,
        projection,
        observer_plan: parse_plan(f[5]),
        observer_instance,
        budget,
        rights,
    }
}

fn opt_u64(s: &str) -> Option<u64> {
    if s == "-" {
        None
    } else {
        Some(s.parse().expect("u64"))
    }
}

fn parse_optic(world: &World, f: &[&str]) -> ObserveOpticRequest {
    let focus = match &f[1][..1] {
        "w" => OpticFocus::Worldline { worldline_id: wl(f[1][1..].parse().expect("focus wl")) },
        "a" => OpticFocus::AttachmentBoundary {
            key: AttachmentKey::node_alpha(NodeKey { warp_id: world.base.root().warp_id, local_id: root_id() }),
        },
        _ => OpticFocus::Strand { strand_id: make_strand_id("vf-strand-none") },
    };
    let coordinate = if f[2] == "x" {
        EchoCoordinate::Strand { strand_id: make_strand_id("vf-strand-none"), at: CoordinateAt::Frontier, parent_basis: None }
    } else {
        let parts: Vec<&str> = f[2].split('.').collect();
        let worldline_id = wl(parts[0][1..].parse().expect("coord wl"));
        let at = match &parts[1][..1] {
            "f" => CoordinateAt::Frontier,
            "t" => CoordinateAt::Tick(wt(parts[1][1..].parse().expect("tick"))),
            _ => {
                let m: usize = parts[1][1..].parse().expect("pref wl");
                let k: u64 = parts[2].parse().expect("pref tick");
                let commit_hash = world.provenance.entry(wl(m), wt(k)).map(|e| e.expected.commit_hash).unwrap_or([0u8; 32]);
                CoordinateAt::Provenance(ProvenanceRef { worldline_id: wl(m), worldline_tick: wt(k), commit_hash })
            }
        };
        EchoCoordinate::Worldline { worldline_id, at }
    };
    let shape = match &f[3][..1] {
        "h" => OpticApertureShape::Head,
        "s" => OpticApertureShape::SnapshotMetadata,
        "t" => OpticApertureShape::TruthChannels { channels: None },
        "q" => OpticApertureShape::QueryBytes { query_id: 7, vars_digest: [9u8; 32] },
        "b" => {
            let (a, b) = f[3][1..].split_once('.').expect("byte range");
            OpticApertureShape::ByteRange { start: a.parse().expect("start"), len: b.parse().expect("len") }
        }
        _ => OpticApertureShape::AttachmentBoundary,
    };
    ObserveOpticRequest {
        optic_id: OpticId::from_bytes([70; 32]),
        focus,
        coordinate,
        aperture: OpticAperture {
            shape,
            budget: OpticReadBudget {
                max_bytes: opt_u64(f[4]),
                max_nodes: Some(8),
                max_ticks: opt_u64(f[5]),
                max_attachments: opt_u64(f[6]),
            },
            attachment_descent: if f[7] == "e" { AttachmentDescentPolicy::Explicit } else { AttachmentDescentPolicy::BoundaryOnly },
        },
        projection_version: ProjectionVersion::from_raw(1),
        reducer_version: None,
        capability: OpticCapabilityId::from_bytes([71; 32]),
    }
}

// ------------------------------------------------------------------------------------------- rendering

fn widx(id: &WorldlineId) -> String {
    // worldline ids are [n+1;32]
    format!("{}", id.as_bytes()[0] as i64 - 1)
}
fn pref_str(r: &ProvenanceRef) -> String {
    format!("{}.{}.{}", widx(&r.worldline_id), r.worldline_tick.as_u64(), hx(&r.commit_hash))
}
fn opt_str(o: Option<u64>) -> String {
    o.map_or("-".into(), |x| x.to_string())
}

fn hash_slot(hasher: &mut blake3::Hasher, slot: &SlotId) {
    match slot {
        SlotId::Node(node) => {
            hasher.update(&[1]);
            hasher.update(node.warp_id.as_bytes());
            hasher.update(node.local_id.as_bytes());
        }
        SlotId::Edge(edge) => {
            hasher.update(&[2]);
            hasher.update(edge.warp_id.as_bytes());
            hasher.update(edge.local_id.as_bytes());
        }
        SlotId::Attachment(att) => {
            hasher.update(&[3]);
            match att.owner {
                AttachmentOwner::Node(node) => {
                    hasher.update(&[1]);
                    hasher.update(node.warp_id.as_bytes());
                    hasher.update(node.local_id.as_bytes());
                }
                AttachmentOwner::Edge(edge) => {
                    hasher.update(&[2]);
                    hasher.update(edge.warp_id.as_bytes());
                    hasher.update(edge.local_id.as_bytes());
                }
            }
            match att.plane {
                AttachmentPlane::Alpha => hasher.update(&[1]),
                AttachmentPlane::Beta => hasher.update(&[2]),
            };
        }
        SlotId::Port((warp_id, port_key)) => {
            hasher.update(&[4]);
            hasher.update(warp_id.as_bytes());
            hasher.update(&port_key.to_le_bytes());
        }
    }
}

/// observation.rs `overlap_slots_digest`, recomputed from the strand's own live-basis report (independent of observe)
fn overlap_digest(slots: &[SlotId]) -> Hash {
    let mut hasher = blake3::Hasher::new();
    hasher.update(b"echo:observation-overlap-slots:v1\0");
    hasher.update(&(slots.len() as u64).to_le_bytes());
    for slot in slots {
        hash_slot(&mut hasher, slot);
    }
    hasher.finalize().into()
}

fn posture_str(p: &ObservationBasisPosture) -> String {
    match p {
        ObservationBasisPosture::Worldline => "W".into(),
        ObservationBasisPosture::StrandHistorical { strand_id } => format!("H~{}", hx(strand_id.as_bytes())),
        ObservationBasisPosture::StrandAtAnchor { strand_id } => format!("A~{}", hx(strand_id.as_bytes())),
        ObservationBasisPosture::StrandParentAdvancedDisjoint { strand_id, parent_from, parent_to } => {
            format!("D~{}~{}~{}", hx(strand_id.as_bytes()), pref_str(parent_from), pref_str(parent_to))
        }
        ObservationBasisPosture::StrandRevalidationRequired { strand_id, parent_from, parent_to, overlapping_slots } => format!(
            "V~{}~{}~{}~{}~{}",
            hx(strand_id.as_bytes()),
            pref_str(parent_from),
            pref_str(parent_to),
            overlapping_slots.len(),
            hx(&overlap_digest(overlapping_slots))
        ),
    }
}

fn witness_str(w: &[ReadingWitnessRef]) -> String {
    w.iter()
        .map(|x| match x {
            ReadingWitnessRef::ResolvedCommit { reference } => format!("C~{}", pref_str(reference)),
            ReadingWitnessRef::EmptyFrontier { worldline_id, state_root, commit_hash } => {
                format!("E~{}.{}.{}", widx(worldline_id), hx(state_root), hx(commit_hash))
            }
        })
        .collect::<Vec<_>>()
        .join("+")
}

fn budget_str(b: &ReadingBudgetPosture) -> String {
    match b {
        ReadingBudgetPosture::UnboundedOneShot => "u".into(),
        ReadingBudgetPosture::Bounded { max_payload_bytes, payload_bytes, max_witness_refs, witness_refs } => {
            format!("b{max_payload_bytes}.{payload_bytes}.{max_witness_refs}.{witness_refs}")
        }
    }
}

fn plan_str(p: &ReadingObserverPlan) -> String {
    match p {
        ReadingObserverPlan::Builtin { plan } => match plan {
            BuiltinObserverPlan::CommitBoundaryHead => "bh".into(),
            BuiltinObserverPlan::CommitBoundarySnapshot => "bs".into(),
            BuiltinObserverPlan::RecordedTruthChannels => "bt".into(),
            BuiltinObserverPlan::QueryBytes => "bq".into(),
        },
        ReadingObserverPlan::Authored { plan } => format!("a{}", plan.plan_id.as_bytes()[0]),
    }
}

fn chan_idx(c: &warp_core::materialization::ChannelId) -> String {
    (0..NCHAN).find(|i| chan(*i) == *c).map_or_else(|| hx(&c.0), |i| i.to_string())
}

fn payload_str(p: &ObservationPayload) -> String {
    match p {
        ObservationPayload::Head(h) => format!(
            "H~{}~{}~{}~{}",
            h.worldline_tick.as_u64(),
            opt_str(h.commit_global_tick.map(|g| g.as_u64())),
            hx(&h.state_root),
            hx(&h.commit_hash)
        ),
        ObservationPayload::Snapshot(h) => format!(
            "S~{}~{}~{}~{}",
            h.worldline_tick.as_u64(),
            opt_str(h.commit_global_tick.map(|g| g.as_u64())),
            hx(&h.state_root),
            hx(&h.commit_hash)
        ),
        ObservationPayload::TruthChannels(chs) => {
            format!("T~{}", chs.iter().map(|(c, d)| format!("{}.{}", chan_idx(c), tohex(d))).collect::<Vec<_>>().join("+"))
        }
        ObservationPayload::QueryBytes(d) => format!("Q~{}", tohex(d)),
    }
}

fn kind_str(k: ObservationProjectionKind) -> &'static str {
    match k {
        ObservationProjectionKind::Head => "h",
        ObservationProjectionKind::Snapshot => "s",
        ObservationProjectionKind::TruthChannels => "t",
        ObservationProjectionKind::Query => "q",
    }
}

fn err_str(e: &ObservationError) -> String {
    match e {
        ObservationError::InvalidWorldline(_) => "InvalidWorldline".into(),
        ObservationError::InvalidTick { tick, .. } => format!("InvalidTick:{}", tick.as_u64()),
        ObservationError::UnsupportedFrameProjection { frame, projection } => format!(
            "UnsupportedFrameProjection:{}{}",
            match frame {
                ObservationFrame::CommitBoundary => "c",
                ObservationFrame::RecordedTruth => "r",
                ObservationFrame::QueryView => "q",
            },
            kind_str(*projection)
        ),
        ObservationError::UnsupportedQuery { query_id } => format!("UnsupportedQuery:{query_id}"),
        ObservationError::ContractQueryObserverFailed { .. } => "ContractQueryObserverFailed".into(),
        ObservationError::UnsupportedObserverPlan(_) => "UnsupportedObserverPlan".into(),
        ObservationError::UnsupportedObserverInstance(_) => "UnsupportedObserverInstance".into(),
        ObservationError::UnsupportedRights(_) => "UnsupportedRights".into(),
        ObservationError::BudgetExceeded { max_payload_bytes, payload_bytes, max_witness_refs, witness_refs } => {
            format!("BudgetExceeded:{max_payload_bytes}.{payload_bytes}.{max_witness_refs}.{witness_refs}")
        }
        ObservationError::ObservationUnavailable { .. } => "ObservationUnavailable".into(),
        ObservationError::CodecFailure(_) => "CodecFailure".into(),
    }
}

fn resolved_str(a: &ObservationArtifact) -> String {
    let r = &a.resolved;
    format!(
        "tick={} cgt={} oagt={} root={} commit={}",
        r.resolved_worldline_tick.as_u64(),
        opt_str(r.commit_global_tick.map(|g| g.as_u64())),
        opt_str(r.observed_after_global_tick.map(|g| g.as_u64())),
        hx(&r.state_root),
        hx(&r.commit_hash)
    )
}

/// blake3(domain ++ canonical CBOR of the hash input rebuilt from the PUBLIC abi DTO); `mask` clears the freshness field.
fn hash_input_bytes(a: &ObservationArtifact, mask: bool) -> Vec<u8> {
    let abi = a.to_abi();
    let mut resolved = abi.resolved;
    if mask {
        resolved.observed_after_global_tick = None;
    }
    let input = echo_wasm_abi::kernel_port::ObservationHashInput {
        resolved,
        reading: abi.reading,
        frame: abi.frame,
        projection: abi.projection,
        payload: abi.payload,
    };
    echo_wasm_abi::encode_cbor(&input).expect("encode hash input")
}

fn okind_str(k: OpticObstructionKind) -> &'static str {
    match k {
        OpticObstructionKind::MissingWitness => "MissingWitness",
        OpticObstructionKind::MissingRetainedReading => "MissingRetainedReading",
        OpticObstructionKind::StaleBasis => "StaleBasis",
        OpticObstructionKind::CapabilityDenied => "CapabilityDenied",
        OpticObstructionKind::BudgetExceeded => "BudgetExceeded",
        OpticObstructionKind::UnsupportedAperture => "UnsupportedAperture",
        OpticObstructionKind::UnsupportedProjectionLaw => "UnsupportedProjectionLaw",
        OpticObstructionKind::UnsupportedIntentFamily => "UnsupportedIntentFamily",
        OpticObstructionKind::AttachmentDescentRequired => "AttachmentDescentRequired",
        OpticObstructionKind::AttachmentDescentDenied => "AttachmentDescentDenied",
        OpticObstructionKind::LiveTailRequiresReduction => "LiveTailRequiresReduction",
        OpticObstructionKind::ConflictingFrontier => "ConflictingFrontier",
        OpticObstructionKind::PluralityRequiresExplicitPolicy => "PluralityRequiresExplicitPolicy",
    }
}

// ------------------------------------------------------------------------------------------- facts

fn facts(world: &World) -> String {
    let mut s = format!("gt={}", world.runtime.global_tick().as_u64());
    s.push_str(" q=");
    if world.queries.is_empty() {
        s.push('-');
    } else {
        s.push_str(&world.queries.iter().map(|(q, p)| format!("{q}.{p}")).collect::<Vec<_>>().join(","));
    }
    s.push_str(&format!(" ch={}", (0..NCHAN).map(|c| hx(&chan(c).0)).collect::<Vec<_>>().join(",")));
    for (i, w) in world.wls.iter().enumerate() {
        let gen = world.engine.snapshot_for_state(&world.base);
        let strand = match world.runtime.strands().find_by_child_worldline(w) {
            None => "-".to_string(),
            Some(st) => {
                let sid = hx(st.strand_id().as_bytes());
                match st.live_basis_report(&world.provenance) {
                    Err(_) => format!("{sid}~U"),
                    Ok(rep) => match &rep.parent_revalidation {
                        StrandRevalidationState::AtAnchor => format!("{sid}~A"),
                        StrandRevalidationState::ParentAdvancedDisjoint { parent_from, parent_to } => {
                            format!("{sid}~D~{}~{}", pref_str(parent_from), pref_str(parent_to))
                        }
                        StrandRevalidationState::RevalidationRequired { parent_from, parent_to, overlapping_slots } => format!(
                            "{sid}~V~{}~{}~{}~{}",
                            pref_str(parent_from),
                            pref_str(parent_to),
                            overlapping_slots.len(),
                            hx(&overlap_digest(overlapping_slots))
                        ),
                    },
                }
            }
        };
        let n = world.provenance.len(*w).unwrap_or(0);
        let mut es = Vec::new();
        for t in 0..n {
            let e = world.provenance.entry(*w, wt(t)).expect("entry");
            let outs = if e.outputs.is_empty() {
                "-".to_string()
            } else {
                e.outputs.iter().map(|(c, d)| format!("{}.{}", chan_idx(c), tohex(d))).collect::<Vec<_>>().join("+")
            };
            es.push(format!("{},{},{},{}", e.commit_global_tick.as_u64(), hx(&e.expected.state_root), hx(&e.expected.commit_hash), outs));
        }
        let mut cps = Vec::new();
        let mut at = WorldlineTick::MAX;
        while let Some(cp) = world.provenance.checkpoint_before(*w, at) {
            cps.push(cp.worldline_tick.as_u64().to_string());
            at = cp.worldline_tick;
        }
        s.push_str(&format!(
            " wl={}:{}:{}:{}:{}:{}",
            i,
            hx(&gen.state_root),
            hx(&gen.hash),
            strand,
            if es.is_empty() { "-".to_string() } else { es.join("/") },
            if cps.is_empty() { "-".to_string() } else { cps.join(",") }
        ));
    }
    s
}

// ------------------------------------------------------------------------------------------- serving reads

fn check_fp(world: &mut World, before: &(String, String, String), what: &str) {
    let after = fingerprint(world);
    if after.0 != before.0 {
        world.flags.push(format!("read-mutated-runtime:{what}"));
    }
    if after.1 != before.1 {
        world.flags.push(format!("read-mutated-provenance:{what}"));
    }
    if after.2 != before.2 {
        world.flags.push(format!("read-mutated-engine:{what}"));
    }
}

fn serve_observe(world: &mut World, text: &str, f: &[&str]) -> String {
    let req = parse_observe(f);
    let before = fingerprint(world);
    let first = ObservationService::observe(&world.runtime, &world.provenance, &world.engine, req.clone());
    check_fp(world, &before, "observe");
    let second = ObservationService::observe(&world.runtime, &world.provenance, &world.engine, req.clone());
    world.reads += 2;
    // (b) identical request, identical history: identical artifact / identical typed obstruction
    if first != second {
        world.flags.push("repeat-read-differs".into());
    }
    let wid = req.coordinate.worldline_id;
    let known = world.wls.contains(&wid);
    let len = if known { world.provenance.len(wid).unwrap_or(0) } else { 0 };
    match &first {
        Ok(a) => {
            if let Ok(b) = &second {
                if a.to_abi() != b.to_abi() || a.artifact_hash != b.artifact_hash {
                    world.flags.push("repeat-read-abi-differs".into());
                }
            }
            if !known {
                world.flags.push("reading-for-unknown-worldline".into());
            }
            // (e) the artifact hash binds exactly resolved coordinate + envelope + frame + projection + payload
            let bytes = hash_input_bytes(a, false);
            let mut hasher = blake3::Hasher::new();
            hasher.update(b"echo:observation-artifact:v4\0");
            hasher.update(&bytes);
            let expect: Hash = hasher.finalize().into();
            if expect != a.artifact_hash {
                world.flags.push("artifact-hash-is-not-hash-of-its-parts".into());
            }
            if a.frame != req.frame || a.projection != req.projection || a.resolved.worldline_id != wid
                || a.resolved.requested_at != req.coordinate.at
            {
                world.flags.push("artifact-echoes-different-request".into());
            }
            // which committed tick does this reading claim to show?
            let shown: Option<u64> = match (req.coordinate.at, req.frame) {
                (ObservationAt::Tick(t), _) => Some(t.as_u64()),
                (ObservationAt::Frontier, ObservationFrame::RecordedTruth) => len.checked_sub(1),
                (ObservationAt::Frontier, _) => len.checked_sub(1),
            };
            if let ObservationAt::Tick(t) = req.coordinate.at {
                // (d) unavailable history must never produce a reading
                if t.as_u64() >= len {
                    world.flags.push("reading-for-unavailable-tick".into());
                }
                if a.resolved.resolved_worldline_tick != t {
                    world.flags.push("tick-read-resolved-to-other-tick".into());
                }
            }
            // (c) equals the projection of the state replayed at that coordinate
            if let Some(t) = shown {
                match world.provenance.replay_worldline_state_at(wid, &world.base, wt(t + 1)) {
                    Ok(st) => {
                        if st.state_root() != a.resolved.state_root {
                            world.flags.push("reading-root-differs-from-replayed-state".into());
                        }
                        match st.last_snapshot() {
                            Some(snap) if snap.hash == a.resolved.commit_hash => {}
                            _ => world.flags.push("reading-commit-differs-from-replayed-state".into()),
                        }
                        match &a.payload {
                            ObservationPayload::Head(h) => {
                                if h.state_root != st.state_root() || Some(h.commit_hash) != st.last_snapshot().map(|x| x.hash) {
                                    world.flags.push("head-payload-differs-from-replayed-state".into());
                                }
                            }
                            ObservationPayload::Snapshot(h) => {
                                if h.state_root != st.state_root() || Some(h.commit_hash) != st.last_snapshot().map(|x| x.hash) {
                                    world.flags.push("snapshot-payload-differs-from-replayed-state".into());
                                }
                            }
                            ObservationPayload::TruthChannels(chs) => {
                                let filter = match &req.projection {
                                    ObservationProjection::TruthChannels { channels } => channels.clone(),
                                    _ => None,
                                };
                                let expect: Vec<_> = st
                                    .last_materialization()
                                    .iter()
                                    .filter(|c| filter.as_ref().map_or(true, |f| f.contains(&c.channel)))
                                    .map(|c| (c.channel, c.data.clone()))
                                    .collect();
                                if *chs != expect {
                                    world.flags.push("truth-payload-differs-from-replayed-state".into());
                                }
                            }
                            ObservationPayload::QueryBytes(_) => {}
                        }
                    }
                    Err(e) => world.notes.push(format!("replay-failed:{}", format!("{e:?}").chars().take(30).collect::<String>())),
                }
            } else if len == 0 {
                // empty frontier: must be the replay base
                if a.resolved.state_root != world.base.state_root() || a.resolved.commit_global_tick.is_some() {
                    world.flags.push("empty-frontier-reading-is-not-the-base-state".into());
                }
            }
            // (c') unchanged by later commits / forks (modulo the documented freshness field)
            if matches!(req.coordinate.at, ObservationAt::Tick(_)) {
                let masked = hash_input_bytes(a, true);
                match world.historical.get(text) {
                    Some(prev) if *prev != masked => world.flags.push("historical-reading-changed-after-later-commits".into()),
                    Some(_) => {}
                    None => {
                        world.historical.insert(text.to_string(), masked);
                    }
                }
            }
            if let ObservationPayload::QueryBytes(_) = &a.payload {
                let qi = a.reading.query_identity.as_ref().map(|q| hx(&q.reading_id)).unwrap_or_else(|| "-".into());
                let residual = match a.reading.residual_posture {
                    ReadingResidualPosture::Complete => "complete",
                    ReadingResidualPosture::Residual => "residual",
                    _ => "other",
                };
                // model side: QueryDelegated (coordinate + posture); the rest is oracle-only
                format!(
                    "Q {} po={} | plan={} pl={} residual={} qid={} hash={}",
                    resolved_str(a),
                    posture_str(&a.reading.parent_basis_posture),
                    plan_str(&a.reading.observer_plan),
                    payload_str(&a.payload),
                    residual,
                    qi,
                    hx(&a.artifact_hash)
                )
            } else {
                format!(
                    "R {} plan={} wit={} po={} bp={} pl={} hash={}",
                    resolved_str(a),
                    plan_str(&a.reading.observer_plan),
                    witness_str(&a.reading.witness_refs),
                    posture_str(&a.reading.parent_basis_posture),
                    budget_str(&a.reading.budget_posture),
                    payload_str(&a.payload),
                    hx(&a.artifact_hash)
                )
            }
        }
        Err(e) => {
            if matches!(e, ObservationError::CodecFailure(_)) {
                world.flags.push("codec-failure".into());
            }
            format!("E {}", err_str(e))
        }
    }
}

fn serve_optic(world: &mut World, f: &[&str]) -> String {
    let req = parse_optic(world, f);
    let before = fingerprint(world);
    let first = ObservationService::observe_optic(&world.runtime, &world.provenance, &world.engine, req.clone());
    check_fp(world, &before, "observe_optic");
    let second = ObservationService::observe_optic(&world.runtime, &world.provenance, &world.engine, req.clone());
    world.reads += 2;
    if first != second {
        world.flags.push("repeat-optic-read-differs".into());
    }
    match &first {
        ObserveOpticResult::Reading(r) => {
            // a reading must be for an existing worldline and an available coordinate
            if let EchoCoordinate::Worldline { worldline_id, at } = &req.coordinate {
                let len = if world.wls.contains(worldline_id) { world.provenance.len(*worldline_id).unwrap_or(0) } else { 0 };
                if !world.wls.contains(worldline_id) {
                    world.flags.push("optic-reading-for-unknown-worldline".into());
                }
                let t = match at {
                    CoordinateAt::Tick(t) => Some(t.as_u64()),
                    CoordinateAt::Provenance(p) => Some(p.worldline_tick.as_u64()),
                    CoordinateAt::Frontier => None,
                };
                if let Some(t) = t {
                    if t >= len {
                        world.flags.push("optic-reading-for-unavailable-tick".into());
                    }
                }
                // identity binds the coordinate asked for
                if r.read_identity.coordinate != req.coordinate || r.read_identity.optic_id != req.optic_id {
                    world.flags.push("optic-read-identity-names-other-coordinate".into());
                }
                // the witness basis names the same commit as the payload
                if let WitnessBasis::ResolvedCommit { state_root, commit_hash, .. } = &r.read_identity.witness_basis {
                    let ok = match &r.payload {
                        ObservationPayload::Head(h) => h.state_root == *state_root && h.commit_hash == *commit_hash,
                        ObservationPayload::Snapshot(h) => h.state_root == *state_root && h.commit_hash == *commit_hash,
                        _ => true,
                    };
                    if !ok {
                        world.flags.push("optic-witness-basis-differs-from-payload".into());
                    }
                }
            } else {
                world.flags.push("optic-reading-for-non-worldline-coordinate".into());
            }
            let basis = match &r.read_identity.witness_basis {
                WitnessBasis::ResolvedCommit { .. } => "commit".to_string(),
                WitnessBasis::CheckpointPlusTail { checkpoint_ref, tail_witness_refs, .. } => format!(
                    "checkpoint@{}+tail[{}]",
                    checkpoint_ref.worldline_tick.as_u64(),
                    tail_witness_refs.iter().map(|t| t.worldline_tick.as_u64().to_string()).collect::<Vec<_>>().join(",")
                ),
                WitnessBasis::WitnessSet { .. } => "set".to_string(),
                WitnessBasis::Missing { .. } => "missing".to_string(),
            };
            format!(
                "OR plan={} wit={} po={} bp={} pl={} | basis={} rid={}",
                plan_str(&r.envelope.observer_plan),
                witness_str(&r.envelope.witness_refs),
                posture_str(&r.envelope.parent_basis_posture),
                budget_str(&r.envelope.budget_posture),
                payload_str(&r.payload),
                basis,
                hx(&r.read_identity.read_identity_hash)
            )
        }
        ObserveOpticResult::Obstructed(o) => format!("OE {}", okind_str(o.kind)),
    }
}

fn read_round(world: &mut World, reqs: &[&str]) {
    println!("W {}", facts(world));
    // frontier bookkeeping the model derives from provenance: check it on the implementation
    for w in world.wls.clone() {
        let n = world.provenance.len(w).unwrap_or(0);
        if let Some(frontier) = world.runtime.worldlines().get(&w) {
            if frontier.frontier_tick().as_u64() != n {
                world.flags.push("frontier-tick-differs-from-provenance-length".into());
            }
            if n > 0 {
                let e = world.provenance.entry(w, wt(n - 1)).expect("entry");
                match frontier.state().last_snapshot() {
                    Some(s) if s.hash == e.expected.commit_hash && s.state_root == e.expected.state_root => {}
                    _ => world.flags.push("frontier-snapshot-differs-from-last-recorded-commit".into()),
                }
            }
        }
    }
    for (i, text) in reqs.iter().enumerate() {
        let f: Vec<&str> = text.split(':').collect();
        let line = match f[0] {
            "o" if f.len() >= 9 => serve_observe(world, text, &f),
            "p" if f.len() >= 8 => serve_optic(world, &f),
            _ => "E bad-request".into(),
        };
        println!("r {i} {line}");
    }
}

fn main() {
    for line in read_cases() {
        let m = kv(&line);
        let id = m.get("id").cloned().unwrap_or_default();
        let nwl: usize = m.get("wls").and_then(|s| s.parse().ok()).unwrap_or(1);
        let queries: Vec<(u32, u8)> = m
            .get("q")
            .map(String::as_str)
            .unwrap_or("-")
            .split(',')
            .filter(|s| *s != "-" && !s.is_empty())
            .map(|s| {
                let (a, b) = s.split_once('.').expect("query spec");
                (a.parse().expect("qid"), b.parse().expect("plan seed"))
            })
            .collect();
        let reqs_s = m.get("reqs").cloned().unwrap_or_default();
        let reqs: Vec<&str> = items(&reqs_s);
        println!("case id={id}");
        let res = catch(std::panic::AssertUnwindSafe(|| {
            let mut world = build_world(nwl.clamp(1, 6), &queries);
            for step in m.get("steps").map(String::as_str).unwrap_or("R").split('|') {
                let f: Vec<&str> = step.split(':').collect();
                match f[0] {
                    "T" => tick(&mut world, f.get(1).copied().unwrap_or("-"), None),
                    "O" => {
                        let seed = f.get(2).and_then(|s| s.parse().ok()).unwrap_or(1);
                        tick(&mut world, f.get(1).copied().unwrap_or("-"), Some(seed));
                    }
                    "I" => ingest(&mut world, f.get(1).copied().unwrap_or("-")),
                    "F" => {
                        let src = f.get(1).and_then(|s| s.parse().ok()).unwrap_or(0);
                        let k = f.get(2).and_then(|s| s.parse().ok()).unwrap_or(0);
                        fork(&mut world, src, k);
                    }
                    "C" => {
                        let w: usize = f.get(1).and_then(|s| s.parse().ok()).unwrap_or(0);
                        if w < world.wls.len() {
                            // checkpoint the REPLAYED frontier state (it carries the re-recorded outputs)
                            let st = match world.provenance.replay_worldline_state(world.wls[w], &world.base) {
                                Ok(st) => st,
                                Err(_) => world.runtime.worldlines().get(&world.wls[w]).expect("frontier").state().clone(),
                            };
                            if let Err(e) = world.provenance.checkpoint(world.wls[w], &st) {
                                world.notes.push(format!("checkpoint-rejected:{}", format!("{e:?}").chars().take(30).collect::<String>()));
                            }
                        }
                    }
                    "R" => read_round(&mut world, &reqs),
                    _ => {}
                }
            }
            (world.flags, world.notes, world.reads)
        }));
        match res {
            Ok((mut flags, notes, reads)) => {
                flags.sort();
                flags.dedup();
                let orc = if flags.is_empty() { "ok".to_string() } else { format!("FAIL:{}", flags.join(",").replace(' ', "_")) };
                let notes = if notes.is_empty() { "-".to_string() } else { notes.join(",").replace(' ', "_") };
                println!("end id={id} oracle={orc} reads={reads} notes={notes}");
            }
            Err(p) => println!("end id={id} oracle=FAIL:panic:{} reads=0 notes=-", p.replace(' ', "_").chars().take(80).collect::<String>()),
        }
    }
}
