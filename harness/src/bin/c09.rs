//! C09 harness: one scheduler pass is all-or-nothing and strictly ordered.
//!
//! Drives the REAL `WorldlineRuntime` / `ProvenanceService` / `Engine` through the public API
//! (`register_worldline`, `register_writer_head`, `ingest`, `submit_intent`,
//! `ingest_ticketed_invocation`, `set_head_eligibility`, `SchedulerCoordinator::super_tick`,
//! `resolve_scheduler_fault`) on a scripted case and prints one canonical line.
//!
//! case (space separated key=value tokens):
//!   worlds=<wl>;<wl>                       worldline ids (hex, registration order)
//!   heads=<wl>.<head>.<pol>[.p];...        pol = a | b<n>   `.p` = registered paused
//!   ops=<op>,<op>,...
//!        i<h>.<beh>.<tag>            ingest an intent for head index h (ExactHead target), payload [beh, tag]
//!        t<h>.<beh>.<tag>.<ticket>   submit_intent + ingest_ticketed_invocation with ticket digest <ticket>
//!        p                           one pass (super_tick)
//!        r<gen>                      resolve the fault with that generation (recovery id = gen)
//!        e<h>.<0|1>                  set_head_eligibility Dormant / Admitted
//!        x                           replace the provenance service by a fresh, empty, registered one
//!        g<h>                        craft history: a fresh provenance service holding ONE real local commit of head h whose
//!                                    commit_global_tick is rewritten to u64::MAX, then restore_causal_runtime_history from it
//!                                    (public API): the runtime's global tick becomes u64::MAX (GlobalTickOverflow on the next pass)
//!   beh: 0 applies; 1 applies but shares one written node with every other beh-1 intent (footprint conflict
//!        => rejected candidates, still a committed tick); 2 emits DeleteEdge of a missing edge (typed engine error);
//!        3 executor panics; 4 writes a node outside its declared footprint (FootprintViolation unwind);
//!        5 emits DeleteWarpInstance of the root instance (UnauthorizedInstanceOp unwind)
//! output (one line):
//!   ids=<h>.<beh>.<tag>:<ingress id>;...  out=<tok>|<tok>...   (model-comparable)
//!   " fp=" implementation-only fingerprints  " oracle=ok|FAIL:<sig>,..." " stats=..."
use echo_verif_harness::*;
use std::collections::{BTreeMap, BTreeSet};
use warp_core::{
    make_node_id, make_type_id, AtomPayload, AttachmentKey, AttachmentValue, ConflictPolicy, EdgeId, EdgeKey,
    Engine, EngineBuilder, Footprint, GraphStore, GraphView, HeadEligibility, HeadId, HeadInbox, InboxPolicy,
    IngressDisposition, IngressEnvelope, IngressTarget, IntentKind, IntentSubmissionDisposition, NodeId, NodeKey,
    NodeRecord, OpticAdmissionTicket, OpticArtifactHandle, PatternGraph, PlaybackMode, ProvenanceService,
    ProvenanceStore, RewriteRule, RuntimeError, SchedulerCoordinator, SchedulerFaultRecoveryAuthority,
    SchedulerFaultScope, SchedulerFaultStatus, SchedulerKind, TickDelta, TickReceiptDisposition,
    TicketedRuntimeIngressAuthority, TicketedRuntimeIngressDisposition, WarpOp, WorldlineId, WorldlineRuntime,
    WorldlineState, WorldlineTick, WriterHead, WriterHeadKey, OPTIC_ADMISSION_TICKET_KIND,
    OPTIC_ARTIFACT_HANDLE_KIND,
};

fn sh(b: &[u8]) -> String {
    let s = hex::encode(b);
    let t = s.trim_start_matches('0');
    if t.is_empty() {
        "0".into()
    } else {
        t.to_string()
    }
}
fn short(id: &[u8; 32]) -> String {
    hex::encode(&id[..6])
}
fn head_str(k: &WriterHeadKey) -> String {
    format!("{}.{}", sh(k.worldline_id.as_bytes()), sh(k.head_id.as_bytes()))
}

// ----------------------------------------------------------------------------- the rule

fn payload<'a>(view: GraphView<'a>, scope: &NodeId) -> Option<&'a [u8]> {
    match view.node_attachment(scope) {
        Some(AttachmentValue::Atom(p)) => Some(p.bytes.as_ref()),
        _ => None,
    }
}
fn result_node(scope: &NodeId) -> NodeId {
    let mut h = blake3::Hasher::new();
    h.update(b"verif.c09.result.node");
    h.update(scope.as_bytes());
    NodeId(h.finalize().into())
}
fn missing_edge(scope: &NodeId) -> EdgeId {
    let mut h = blake3::Hasher::new();
    h.update(b"verif.c09.missing.edge");
    h.update(scope.as_bytes());
    EdgeId(h.finalize().into())
}
fn c09_matches(view: GraphView<'_>, scope: &NodeId) -> bool {
    payload(view, scope).is_some_and(|p| p.len() == 2 && p[0] <= 5)
}
fn c09_exec(view: GraphView<'_>, scope: &NodeId, delta: &mut TickDelta) {
    let Some(p) = payload(view, scope) else { return };
    let beh = p[0];
    let warp_id = view.warp_id();
    let result = result_node(scope);
    delta.push(WarpOp::UpsertNode {
        node: NodeKey { warp_id, local_id: result },
        record: NodeRecord { ty: make_type_id("verif/c09/result") },
    });
    delta.push(WarpOp::SetAttachment {
        key: AttachmentKey::node_alpha(NodeKey { warp_id, local_id: result }),
        value: Some(AttachmentValue::Atom(AtomPayload::new(make_type_id("verif/c09/result"), p.to_vec().into()))),
    });
    match beh {
        1 => delta.push(WarpOp::UpsertNode {
            node: NodeKey { warp_id, local_id: make_node_id("verif/c09/shared") },
            record: NodeRecord { ty: make_type_id("verif/c09/shared") },
        }),
        2 => delta.push(WarpOp::DeleteEdge { warp_id, from: *scope, edge_id: missing_edge(scope) }),
        3 => std::panic::panic_any("verif: scripted executor panic"),
        4 => delta.push(WarpOp::UpsertNode {
            node: NodeKey { warp_id, local_id: make_node_id("verif/c09/undeclared") },
            record: NodeRecord { ty: make_type_id("verif/c09/undeclared") },
        }),
        5 => delta.push(WarpOp::DeleteWarpInstance { warp_id }),
        _ => {}
    }
}
fn c09_footprint(view: GraphView<'_>, scope: &NodeId) -> Footprint {
    let warp_id = view.warp_id();
    let mut fp = Footprint::default();
    fp.n_read.insert_with_warp(warp_id, *scope);
    fp.a_read.insert(AttachmentKey::node_alpha(NodeKey { warp_id, local_id: *scope }));
    let result = result_node(scope);
    fp.n_write.insert_with_warp(warp_id, result);
    fp.a_write.insert(AttachmentKey::node_alpha(NodeKey { warp_id, local_id: result }));
    match payload(view, scope).map(|p| p[0]) {
        Some(1) => {
            fp.n_write.insert_with_warp(warp_id, make_node_id("verif/c09/shared"));
        }
        Some(2) => {
            let e = missing_edge(scope);
            fp.n_write.insert_with_warp(warp_id, *scope);
            fp.e_write.insert(EdgeKey { warp_id, local_id: e });
            fp.a_write.insert(AttachmentKey::edge_beta(EdgeKey { warp_id, local_id: e }));
        }
        _ => {}
    }
    fp
}
fn engine() -> Engine {
    let mut store = GraphStore::default();
    let root = make_node_id("root");
    store.insert_node(root, NodeRecord { ty: make_type_id("world") });
    let mut e = EngineBuilder::new(store, root).scheduler(SchedulerKind::Radix).workers(1).build();
    e.register_rule(RewriteRule {
        id: make_type_id("rule:cmd/verif/c09").0,
        name: "cmd/verif/c09",
        left: PatternGraph { nodes: vec![] },
        matcher: c09_matches,
        executor: c09_exec,
        compute_footprint: c09_footprint,
        factor_mask: 0,
        conflict_policy: ConflictPolicy::Abort,
        join_fn: None,
    })
    .expect("register rule");
    e
}

// ----------------------------------------------------------------------------- case

#[derive(Clone, Debug)]
struct HeadSpec {
    key: WriterHeadKey,
    pol: InboxPolicy,
    paused: bool,
}
#[derive(Clone, Debug)]
enum Op {
    Ingest(usize, u8, u8),
    Ticketed(usize, u8, u8, u64),
    Pass,
    Resolve(u64),
    Elig(usize, bool),
    SwapProv,
    JumpGlobal(usize),
}
struct Case {
    worlds: Vec<WorldlineId>,
    heads: Vec<HeadSpec>,
    ops: Vec<Op>,
}
fn wlid(s: &str) -> WorldlineId {
    WorldlineId::from_bytes(hex32(s))
}
fn parse_case(line: &str) -> Case {
    let m = kv(line);
    let worlds = items(m.get("worlds").map(String::as_str).unwrap_or("-")).iter().map(|s| wlid(s)).collect();
    let heads = items(m.get("heads").map(String::as_str).unwrap_or("-"))
        .iter()
        .map(|it| {
            let f: Vec<&str> = it.split('.').collect();
            let pol = if f[2] == "a" {
                InboxPolicy::AcceptAll
            } else {
                InboxPolicy::Budgeted { max_per_tick: f[2][1..].parse().expect("budget") }
            };
            HeadSpec {
                key: WriterHeadKey { worldline_id: wlid(f[0]), head_id: HeadId::from_bytes(hex32(f[1])) },
                pol,
                paused: f.get(3) == Some(&"p"),
            }
        })
        .collect();
    let ops = m
        .get("ops")
        .map(String::as_str)
        .unwrap_or("")
        .split(',')
        .filter(|s| !s.is_empty() && *s != "-")
        .map(|s| {
            let (c, rest) = s.split_at(1);
            let f: Vec<&str> = rest.split('.').collect();
            match c {
                "i" => Op::Ingest(f[0].parse().unwrap(), f[1].parse().unwrap(), f[2].parse().unwrap()),
                "t" => Op::Ticketed(f[0].parse().unwrap(), f[1].parse().unwrap(), f[2].parse().unwrap(), f[3].parse().unwrap()),
                "p" => Op::Pass,
                "r" => Op::Resolve(f[0].parse().unwrap()),
                "e" => Op::Elig(f[0].parse().unwrap(), f[1] == "1"),
                "x" => Op::SwapProv,
                "g" => Op::JumpGlobal(f[0].parse().unwrap()),
                _ => panic!("op {s}"),
            }
        })
        .collect();
    Case { worlds, heads, ops }
}

fn envelope(key: WriterHeadKey, beh: u8, tag: u8) -> IngressEnvelope {
    IngressEnvelope::local_intent(
        IngressTarget::ExactHead { key },
        IntentKind::from_hash(*blake3::hash(b"verif.c09.kind").as_bytes()),
        vec![beh, tag],
    )
}
fn ticket_for(n: u64) -> OpticAdmissionTicket {
    let mut h = blake3::Hasher::new();
    h.update(b"verif.c09.ticket");
    h.update(&n.to_le_bytes());
    let d: [u8; 32] = h.finalize().into();
    OpticAdmissionTicket {
        kind: OPTIC_ADMISSION_TICKET_KIND.to_owned(),
        artifact_handle: OpticArtifactHandle { kind: OPTIC_ARTIFACT_HANDLE_KIND.to_owned(), id: format!("c09-{n}") },
        artifact_hash: "artifact".into(),
        operation_id: "operation".into(),
        requirements_digest: "requirements".into(),
        canonical_variables_digest: d[..4].to_vec(),
        basis_request_digest: d,
        aperture_request_digest: d,
        budget_request_digest: d,
        law_witness_digest: d,
        ticket_digest: d,
    }
}

/// Pending ingress ids of an inbox in map order, read through a clone (real `admit` under AcceptAll).
fn pending_of(inbox: &HeadInbox) -> Vec<[u8; 32]> {
    let mut c = inbox.clone();
    c.set_policy(InboxPolicy::AcceptAll);
    c.admit().iter().map(IngressEnvelope::ingress_id).collect()
}
/// The batch the real `admit` would take now (on a clone).
fn batch_of(inbox: &HeadInbox) -> Vec<[u8; 32]> {
    inbox.clone().admit().iter().map(IngressEnvelope::ingress_id).collect()
}

struct World {
    rt: WorldlineRuntime,
    prov: ProvenanceService,
    eng: Engine,
    heads: Vec<WriterHeadKey>,              // by head index (registered ones only usable)
    live: Vec<WriterHeadKey>,               // sorted
    intents: BTreeMap<(WriterHeadKey, [u8; 32]), IngressEnvelope>, // every envelope ever offered
    fault_class: BTreeMap<u64, String>,     // generation -> class of the pass outcome that recorded it
}

/// Borrowed view of a world (so that probe copies can be fingerprinted with any engine).
struct View<'a> {
    rt: &'a WorldlineRuntime,
    prov: &'a ProvenanceService,
    eng: &'a Engine,
    live: &'a [WriterHeadKey],
    intents: &'a BTreeMap<(WriterHeadKey, [u8; 32]), IngressEnvelope>,
}
impl World {
    fn view(&self) -> View<'_> {
        View { rt: &self.rt, prov: &self.prov, eng: &self.eng, live: &self.live, intents: &self.intents }
    }
}

/// committed(k, id): the runtime answers Duplicate although the id is not pending.  One clone of the runtime
/// serves all probes of a dump (an Accepted probe only adds that very id to the clone's inbox).
fn committed_set(w: &View<'_>) -> BTreeSet<(WriterHeadKey, [u8; 32])> {
    let mut probe = w.rt.clone();
    let mut out = BTreeSet::new();
    let mut pend: BTreeMap<WriterHeadKey, Vec<[u8; 32]>> = BTreeMap::new();
    for k in w.live {
        pend.insert(*k, pending_of(w.rt.heads().get(k).unwrap().inbox()));
    }
    for ((k, id), env) in w.intents {
        if !w.live.contains(k) || pend[k].contains(id) {
            continue;
        }
        if matches!(probe.ingest(env.clone()), Ok(IngressDisposition::Duplicate { .. })) {
            out.insert((*k, *id));
        }
    }
    out
}

/// Components of the canonical fingerprint (name, value); fault evidence and the derived runnable
/// order are separate so that the atomicity oracle can exclude exactly them.
fn fingerprint(w: &View<'_>) -> Vec<(String, String)> {
    let mut v: Vec<(String, String)> = Vec::new();
    v.push(("gtick".into(), w.rt.global_tick().as_u64().to_string()));
    for (wl, f) in w.rt.worldlines().iter() {
        let s = f.state();
        let n = sh(wl.as_bytes());
        v.push((format!("wl{n}.tick"), f.frontier_tick().as_u64().to_string()));
        v.push((format!("wl{n}.state_root"), hex::encode(s.state_root())));
        v.push((format!("wl{n}.current_tick"), s.current_tick().as_u64().to_string()));
        v.push((format!("wl{n}.history"), s.tick_history().iter().map(|(sn, rc, p)| format!("{}:{}:{}", short(&sn.hash), short(&rc.digest()), short(&p.digest()))).collect::<Vec<_>>().join("+")));
        v.push((format!("wl{n}.last_snapshot"), s.last_snapshot().map(|x| hex::encode(x.hash)).unwrap_or_default()));
        v.push((format!("wl{n}.initial_root"), s.initial_state().store(&s.root().warp_id).map(|st| hex::encode(warp_core::compute_state_root_for_warp_store(st, s.root().warp_id))).unwrap_or_default()));
        v.push((format!("wl{n}.materialization"), format!("{}/{}", s.last_materialization().len(), s.last_materialization_errors().len())));
        // graph content of the root instance through public iterators
        let mut nodes: Vec<String> = Vec::new();
        if let Some(store) = s.store(&s.root().warp_id) {
            for (id, r) in store.iter_nodes() {
                nodes.push(format!("{}:{}", short(&id.0), short(&r.ty.0)));
            }
            nodes.sort();
            let mut att: Vec<String> = store
                .iter_node_attachments()
                .map(|(id, a)| match a {
                    AttachmentValue::Atom(p) => format!("{}={}", short(&id.0), tohex(p.bytes.as_ref())),
                    AttachmentValue::Descend(c) => format!("{}>{}", short(&id.0), short(&c.0)),
                })
                .collect();
            att.sort();
            nodes.extend(att);
            let mut edges: Vec<String> = store.iter_edges().flat_map(|(_, es)| es.iter()).map(|e| format!("{}:{}>{}", short(&e.id.0), short(&e.from.0), short(&e.to.0))).collect();
            edges.sort();
            nodes.extend(edges);
        } else {
            nodes.push("root-store-missing".into());
        }
        v.push((format!("wl{n}.graph"), hex::encode(&blake3::hash(nodes.join(",").as_bytes()).as_bytes()[..8])));
        v.push((format!("wl{n}.root_instance"), s.warp_state().instance(&s.root().warp_id).is_some().to_string()));
    }
    for k in w.live {
        let h = w.rt.heads().get(k).unwrap();
        let n = head_str(k);
        v.push((format!("head{n}.pending"), pending_of(h.inbox()).iter().map(short).collect::<Vec<_>>().join("+")));
        v.push((format!("head{n}.flags"), format!("{:?}/{}/{:?}", h.eligibility(), h.is_paused(), h.inbox().policy())));
    }
    for (k, id) in committed_set(w) {
        v.push((format!("committed.{}.{}", head_str(&k), short(&id)), "1".into()));
    }
    let subs: Vec<String> = w
        .rt
        .witnessed_submissions()
        .map(|r| {
            format!(
                "{}:{}:{}:{}:{}",
                short(&r.submission_id),
                short(&r.ingress_id),
                head_str(&r.head_key),
                r.submission_generation.as_u64(),
                format!("{:?}", w.rt.observe_intent_outcome(&r.submission_id)).len()
            )
        })
        .collect();
    v.push(("submissions".into(), subs.join("+")));
    v.push(("submissions.outcomes".into(), hex::encode(&blake3::hash(w.rt.witnessed_submissions().map(|r| format!("{:?}", w.rt.observe_intent_outcome(&r.submission_id))).collect::<Vec<_>>().join("|").as_bytes()).as_bytes()[..8])));
    v.push(("submissions.pending_count".into(), w.rt.pending_witnessed_submission_count().to_string()));
    v.push(("ticketed".into(), w.rt.ticketed_runtime_ingress_records().map(|r| format!("{}:{}:{}", short(&r.ticketed_ingress_id), short(&r.submission_id), short(&r.ticket_digest))).collect::<Vec<_>>().join("+")));
    let mut cors: Vec<String> = Vec::new();
    for c in w.rt.receipt_correlations() {
        let by_sub = w.rt.receipt_correlation_for_submission(&c.submission_id).map(|x| x.ticketed_ingress_id) == Some(c.ticketed_ingress_id);
        let by_ticket = w.rt.receipt_correlation_for_ticket(&c.ticket_digest).map(|x| x.ticketed_ingress_id) == Some(c.ticketed_ingress_id);
        let by_ref = w.rt.receipt_correlation_for_receipt_ref(&c.causal_receipt_ref).map(|x| x.ticketed_ingress_id) == Some(c.ticketed_ingress_id);
        let by_tid = w.rt.receipt_correlation_for_ticketed_ingress(&c.ticketed_ingress_id).is_some();
        cors.push(format!(
            "{}:{}:{}:{}@{}/{}:{}:{}:{}{}{}{}",
            short(&c.ticketed_ingress_id),
            short(&c.submission_id),
            short(&c.ticket_digest),
            head_str(&c.head_key),
            c.worldline_tick_after.as_u64(),
            c.commit_global_tick.as_u64(),
            short(&c.commit_hash),
            short(&c.tick_receipt_digest),
            by_sub as u8,
            by_ticket as u8,
            by_ref as u8,
            by_tid as u8
        ));
    }
    v.push(("correlations".into(), cors.join("+")));
    v.push(("correlations.count".into(), w.rt.receipt_correlation_count().to_string()));
    // lookups through every staged ticket must not resolve unless a correlation exists
    let dangling = w
        .rt
        .ticketed_runtime_ingress_records()
        .filter(|r| {
            let has = w.rt.receipt_correlation_for_ticketed_ingress(&r.ticketed_ingress_id).is_some();
            let s = w.rt.receipt_correlation_for_submission(&r.submission_id).is_some();
            let t = w.rt.receipt_correlation_for_ticket(&r.ticket_digest).is_some_and(|c| c.ticketed_ingress_id == r.ticketed_ingress_id);
            has != s || (has && !t)
        })
        .count();
    v.push(("correlations.dangling_index".into(), dangling.to_string()));
    for (wl, _) in w.rt.worldlines().iter() {
        let n = sh(wl.as_bytes());
        match w.prov.len(*wl) {
            Ok(len) => {
                let mut es = Vec::new();
                for t in 0..len {
                    let e = w.prov.entry(*wl, WorldlineTick::from_raw(t)).expect("entry");
                    es.push(format!(
                        "{}@{}:{}:{}:{}:{}",
                        e.worldline_tick.as_u64(),
                        e.commit_global_tick.as_u64(),
                        e.head_key.map(|k| head_str(&k)).unwrap_or_default(),
                        short(&e.expected.commit_hash),
                        short(&e.expected.state_root),
                        e.parents.iter().map(|p| short(&p.commit_hash)).collect::<Vec<_>>().join("^")
                    ));
                }
                v.push((format!("prov{n}"), es.join("+")));
                v.push((format!("prov{n}.tip"), w.prov.tip_ref(*wl).ok().flatten().map(|t| short(&t.commit_hash)).unwrap_or_default()));
            }
            Err(_) => v.push((format!("prov{n}"), "unregistered".into())),
        }
    }
    v.push(("prov.shells".into(), w.prov.braid_shells().count().to_string()));
    let snap = w.eng.snapshot();
    v.push(("engine.snapshot".into(), format!("{}:{}", short(&snap.hash), short(&snap.state_root))));
    v.push(("engine.ledger".into(), w.eng.get_ledger().len().to_string()));
    v.push(("engine.fresh".into(), w.eng.is_fresh_runtime_state().to_string()));
    v.push(("engine.materialization".into(), format!("{}/{}", w.eng.last_materialization().len(), w.eng.last_materialization_errors().len())));
    v.push(("engine.intent_log".into(), w.eng.get_intent_log().len().to_string()));
    v
}

fn fault_lines(w: &World) -> Vec<String> {
    let mut fs: Vec<_> = w.rt.scheduler_faults().cloned().collect();
    fs.sort_by_key(|f| f.fault_generation.as_u64());
    fs.iter()
        .map(|f| {
            format!(
                "{}.{}.{}.{}",
                f.fault_generation.as_u64(),
                match f.scope {
                    SchedulerFaultScope::Head(k) => format!("h{}", head_str(&k)),
                    SchedulerFaultScope::Runtime => "rt".into(),
                },
                match f.status {
                    SchedulerFaultStatus::Active => "A".to_string(),
                    SchedulerFaultStatus::Resolved { recovery_id } => format!("R{}", sh(&recovery_id)),
                },
                w.fault_class.get(&f.fault_generation.as_u64()).cloned().unwrap_or_else(|| "?".into())
            )
        })
        .collect()
}

/// The model-comparable dump.
fn dump(w: &World) -> String {
    let mut out = format!("g={}", w.rt.global_tick().as_u64());
    let cset = committed_set(&w.view());
    for (wl, f) in w.rt.worldlines().iter() {
        let s = f.state();
        let mut ev: Vec<String> = Vec::new();
        let mut seen = BTreeSet::new();
        for ((_k, id), _env) in &w.intents {
            if seen.insert(*id) {
                if s.store(&s.root().warp_id).is_some_and(|st| st.node(&NodeId(*id)).is_some()) {
                    ev.push(short(id));
                }
            }
        }
        ev.sort();
        let mut cm: Vec<String> = Vec::new();
        for (k, id) in &cset {
            if k.worldline_id == *wl {
                cm.push(format!("{}/{}", sh(k.head_id.as_bytes()), short(id)));
            }
        }
        let plen = w.prov.len(*wl).map(|n| n.to_string()).unwrap_or_else(|_| "x".into());
        out.push_str(&format!(";W{}={}:{}:{}:{}", sh(wl.as_bytes()), f.frontier_tick().as_u64(), plen, if ev.is_empty() { "-".into() } else { ev.join("+") }, if cm.is_empty() { "-".into() } else { cm.join("+") }));
    }
    for k in &w.live {
        let h = w.rt.heads().get(k).unwrap();
        let p: Vec<String> = pending_of(h.inbox()).iter().map(short).collect();
        out.push_str(&format!(
            ";H{}={}:{}{}{}",
            head_str(k),
            if p.is_empty() { "-".into() } else { p.join("+") },
            if h.is_admitted() { 'a' } else { 'd' },
            if h.is_paused() { "p" } else { "" },
            if w.rt.is_head_faulted(k) { "f" } else { "" }
        ));
    }
    let fl = fault_lines(w);
    out.push_str(&format!(";F={}{}", if fl.is_empty() { "-".into() } else { fl.join("+") }, if w.rt.is_runtime_faulted() { "!" } else { "" }));
    let mut cs: Vec<(String, String)> = w
        .rt
        .receipt_correlations()
        .map(|c| (format!("{}/{}", head_str(&c.head_key), short(&c.ingress_id)), format!("@{}/{}", c.worldline_tick_after.as_u64(), c.commit_global_tick.as_u64())))
        .collect();
    cs.sort();
    out.push_str(&format!(";C={}", if cs.is_empty() { "-".into() } else { cs.iter().map(|(a, b)| format!("{a}{b}")).collect::<Vec<_>>().join("+") }));
    out.push_str(&format!(";ps={}", w.rt.pending_witnessed_submission_count()));
    let order: Vec<String> = SchedulerCoordinator::peek_order(&w.rt).iter().map(head_str).collect();
    out.push_str(&format!(";rq={}", if order.is_empty() { "-".into() } else { order.join("+") }));
    out
}

fn err_class(e: &RuntimeError) -> String {
    match e {
        RuntimeError::Engine(_) => "engine".into(),
        RuntimeError::FrontierTickOverflow(_) => "frontier-overflow".into(),
        RuntimeError::GlobalTickOverflow => "global-overflow".into(),
        RuntimeError::Provenance(_) => "provenance".into(),
        RuntimeError::UnknownHead(_) => "unknown-head".into(),
        RuntimeError::UnknownWorldline(_) => "unknown-worldline".into(),
        RuntimeError::ReceiptCorrelationReplayMismatch(_) => "corr-mismatch".into(),
        RuntimeError::SchedulerRuntimeFaultActive(_) => "runtime-fault-active".into(),
        RuntimeError::SchedulerFaultGenerationOverflow => "gen-overflow".into(),
        other => format!("other:{}", format!("{other:?}").split(|c: char| !c.is_alphanumeric()).next().unwrap_or("?")),
    }
}

fn main() {
    std::panic::set_hook(Box::new(|_| {}));
    for line in read_cases() {
        let r = catch(std::panic::AssertUnwindSafe(|| run_case(&line)));
        match r {
            Ok(s) => println!("{s}"),
            Err(p) => println!("ids=- out=HARNESS-PANIC:{} fp=- oracle=FAIL:harness-panic stats=-", p.replace(' ', "_")),
        }
    }
}

fn run_case(line: &str) -> String {
    let c = parse_case(line);
    let mut flags: Vec<String> = Vec::new();
    let mut rt = WorldlineRuntime::new();
    for w in &c.worlds {
        rt.register_worldline(*w, WorldlineState::empty()).expect("register worldline");
    }
    let mut heads = Vec::new();
    let mut live = Vec::new();
    for h in &c.heads {
        let mode = if h.paused { PlaybackMode::Paused } else { PlaybackMode::Play };
        rt.register_writer_head(WriterHead::with_routing(h.key, mode, h.pol.clone(), None, false)).expect("register head");
        heads.push(h.key);
        live.push(h.key);
    }
    live.sort();
    let mut prov = ProvenanceService::new();
    for (w, f) in rt.worldlines().iter() {
        prov.register_worldline(*w, f.state()).expect("provenance register");
    }
    let mut w = World { rt, prov, eng: engine(), heads, live, intents: BTreeMap::new(), fault_class: BTreeMap::new() };
    // ids of every intent named by the case
    let mut ids: Vec<String> = Vec::new();
    let mut seen_ids = BTreeSet::new();
    for op in &c.ops {
        let named = match op {
            Op::Ingest(h, b, t) | Op::Ticketed(h, b, t, _) => Some((*h, *b, *t)),
            Op::JumpGlobal(h) => Some((*h, 0u8, 255u8)),
            _ => None,
        };
        if let Some((h, b, t)) = named {
            if seen_ids.insert((h, b, t)) {
                let env = envelope(w.heads[h], b, t);
                ids.push(format!("{h}.{b}.{t}:{}", hex::encode(env.ingress_id())));
            }
        }
    }
    let mut out: Vec<String> = Vec::new();
    let mut fps: Vec<String> = Vec::new();
    let (mut n_pass, mut n_fail, mut n_reject, mut n_commits, mut n_probe) = (0usize, 0usize, 0usize, 0usize, 0usize);
    for op in &c.ops {
        match op {
            Op::Ingest(h, b, t) => {
                let k = w.heads[*h];
                let env = envelope(k, *b, *t);
                w.intents.insert((k, env.ingress_id()), env.clone());
                out.push(match w.rt.ingest(env) {
                    Ok(IngressDisposition::Accepted { .. }) => "A".into(),
                    Ok(IngressDisposition::Duplicate { .. }) => "D".into(),
                    Err(e) => format!("E:{}", err_class(&e)),
                });
            }
            Op::Ticketed(h, b, t, ticket) => {
                let k = w.heads[*h];
                let env = envelope(k, *b, *t);
                w.intents.insert((k, env.ingress_id()), env.clone());
                let (sid, first) = match w.rt.submit_intent(env.clone()) {
                    Ok(IntentSubmissionDisposition::Accepted { submission_id, .. }) => (Some(submission_id), "A".to_string()),
                    Ok(IntentSubmissionDisposition::Duplicate { submission_id, .. }) => (Some(submission_id), "D".to_string()),
                    Err(e) => (None, format!("E:{}", err_class(&e))),
                };
                let second = match sid {
                    None => "-".to_string(),
                    Some(sid) => {
                        let auth = TicketedRuntimeIngressAuthority::assume_runtime_owner();
                        match w.rt.ingest_ticketed_invocation(&auth, sid, &ticket_for(*ticket), env) {
                            Ok(TicketedRuntimeIngressDisposition::Staged { .. }) => "S".into(),
                            Ok(TicketedRuntimeIngressDisposition::Duplicate { .. }) => "D".into(),
                            Err(RuntimeError::TicketedIngressDuplicateRuntimeIngress { .. }) => "R".into(),
                            Err(RuntimeError::TicketedIngressAlreadyStaged(_)) => "T".into(),
                            Err(RuntimeError::UnknownIntentSubmission(_)) => "U".into(),
                            Err(e) => format!("E:{}", err_class(&e)),
                        }
                    }
                };
                out.push(format!("{first}{second}"));
            }
            Op::Elig(h, on) => {
                let k = w.heads[*h];
                let e = if *on { HeadEligibility::Admitted } else { HeadEligibility::Dormant };
                out.push(if w.rt.set_head_eligibility(k, e).is_ok() { "E".into() } else { "e".into() });
            }
            Op::SwapProv => {
                let mut p = ProvenanceService::new();
                for (wl, _f) in w.rt.worldlines().iter() {
                    p.register_worldline(*wl, &WorldlineState::empty()).expect("provenance register");
                }
                w.prov = p;
                out.push("X".into());
            }
            Op::JumpGlobal(h) => {
                let k = w.heads[*h];
                let env = envelope(k, 0, 255);
                w.intents.insert((k, env.ingress_id()), env.clone());
                // a real commit of that intent on a scratch runtime with the same registration
                let mut rt2 = WorldlineRuntime::new();
                for wl in &c.worlds {
                    rt2.register_worldline(*wl, WorldlineState::empty()).expect("register worldline");
                }
                for hs in &c.heads {
                    // the scratch runtime only manufactures one real commit: every head plays and accepts all
                    rt2.register_writer_head(WriterHead::with_routing(hs.key, PlaybackMode::Play, InboxPolicy::AcceptAll, None, false)).expect("register head");
                }
                let mut prov2 = ProvenanceService::new();
                for (wl, f) in rt2.worldlines().iter() {
                    prov2.register_worldline(*wl, f.state()).expect("provenance register");
                }
                let mut eng2 = engine();
                rt2.ingest(env).expect("scratch ingest");
                let tok = match SchedulerCoordinator::super_tick(&mut rt2, &mut prov2, &mut eng2) {
                    Ok(recs) if recs.len() == 1 => {
                        let mut e = prov2.entry(k.worldline_id, WorldlineTick::from_raw(0)).expect("scratch entry");
                        e.commit_global_tick = warp_core::GlobalTick::from_raw(u64::MAX);
                        if let Some(p) = e.patch.as_mut() {
                            p.header.commit_global_tick = warp_core::GlobalTick::from_raw(u64::MAX);
                        }
                        let mut prov3 = ProvenanceService::new();
                        for (wl, _f) in w.rt.worldlines().iter() {
                            prov3.register_worldline(*wl, &WorldlineState::empty()).expect("provenance register");
                        }
                        match prov3.append_local_commit(e.clone()) {
                            Err(err) => format!("G:append:{}", format!("{err:?}").split(|c: char| !c.is_alphanumeric()).next().unwrap_or("?")),
                            Ok(()) => match w.rt.restore_causal_runtime_history(&prov3, &[e], &[]) {
                                Ok(()) => {
                                    w.prov = prov3;
                                    "G:ok".to_string()
                                }
                                Err(err) => format!("G:restore:{}", err_class(&err)),
                            },
                        }
                    }
                    Ok(recs) => format!("G:scratch-recs-{}", recs.len()),
                    Err(err) => format!("G:scratch:{}", err_class(&err)),
                };
                out.push(tok);
            }
            Op::Resolve(g) => {
                let fid = w.rt.scheduler_faults().find(|f| f.fault_generation.as_u64() == *g).map(|f| (f.fault_id, f.scope));
                match fid {
                    None => out.push("R:unknown".into()),
                    Some((fid, scope)) => {
                        let before = fingerprint(&w.view());
                        let auth = SchedulerFaultRecoveryAuthority::assume_runtime_owner();
                        let mut rid = [0u8; 32];
                        rid[24..].copy_from_slice(&g.to_be_bytes());
                        let res = w.rt.resolve_scheduler_fault(&auth, fid, rid);
                        out.push(match &res {
                            Ok(()) => "R:ok".into(),
                            Err(RuntimeError::SchedulerFaultAlreadyResolved(_)) => "R:already".into(),
                            Err(RuntimeError::UnknownSchedulerFault(_)) => "R:unknown".into(),
                            Err(e) => format!("R:{}", err_class(e)),
                        });
                        if fingerprint(&w.view()) != before {
                            flags.push("resolve-changed-non-fault-state".into());
                        }
                        if res.is_ok() {
                            // recovery restores runnability of an otherwise eligible head
                            if let SchedulerFaultScope::Head(k) = scope {
                                let h = w.rt.heads().get(&k).unwrap();
                                let should = h.is_admitted() && !h.is_paused() && !w.rt.is_runtime_faulted() && !w.rt.is_head_faulted(&k);
                                if SchedulerCoordinator::peek_order(&w.rt).contains(&k) != should {
                                    flags.push("recovery-runnable-mismatch".into());
                                }
                                if w.rt.is_head_faulted(&k) {
                                    flags.push("resolved-head-still-faulted".into());
                                }
                            } else if w.rt.is_runtime_faulted() {
                                flags.push("resolved-runtime-still-faulted".into());
                            }
                            if !w.rt.scheduler_faults().any(|f| f.fault_id == fid && matches!(f.status, SchedulerFaultStatus::Resolved { .. })) {
                                flags.push("resolved-fault-evidence-lost".into());
                            }
                        }
                    }
                }
            }
            Op::Pass => {
                n_pass += 1;
                let before = fingerprint(&w.view());
                let shadow_rt = w.rt.clone();
                let shadow_prov = w.prov.clone();
                let faults_before = fault_lines(&w);
                let fault_records_before: Vec<_> = w.rt.scheduler_faults().cloned().collect();
                let order = SchedulerCoordinator::peek_order(&w.rt);
                let rt_faulted = w.rt.is_runtime_faulted();
                let gt0 = w.rt.global_tick().as_u64();
                let mut predicted: Vec<(WriterHeadKey, Vec<[u8; 32]>)> = Vec::new();
                for k in &order {
                    let b = batch_of(w.rt.heads().get(k).unwrap().inbox());
                    if !b.is_empty() {
                        predicted.push((*k, b));
                    }
                }
                let pending_before: BTreeMap<WriterHeadKey, Vec<[u8; 32]>> = w.live.iter().map(|k| (*k, pending_of(w.rt.heads().get(k).unwrap().inbox()))).collect();
                let ticks_before: BTreeMap<WorldlineId, (u64, u64)> = w.rt.worldlines().iter().map(|(wl, f)| (*wl, (f.frontier_tick().as_u64(), w.prov.len(*wl).unwrap_or(u64::MAX)))).collect();
                let res = {
                    let World { rt, prov, eng, .. } = &mut w;
                    std::panic::catch_unwind(std::panic::AssertUnwindSafe(|| SchedulerCoordinator::super_tick(rt, prov, eng)))
                };
                let after = fingerprint(&w.view());
                let class = match &res {
                    Ok(Ok(_)) => "ok".to_string(),
                    Ok(Err(e)) => err_class(e),
                    Err(_) => "panic".to_string(),
                };
                // label new fault records with the class of this pass
                for f in w.rt.scheduler_faults() {
                    let g = f.fault_generation.as_u64();
                    if !fault_records_before.iter().any(|o| o.fault_id == f.fault_id) {
                        w.fault_class.insert(g, class.clone());
                    }
                }
                let new_faults: Vec<_> = w.rt.scheduler_faults().filter(|f| !fault_records_before.iter().any(|o| o.fault_id == f.fault_id)).cloned().collect();
                // old evidence is never rewritten by a pass
                for o in &fault_records_before {
                    if w.rt.scheduler_fault(&o.fault_id) != Some(o) {
                        flags.push("pass-rewrote-old-fault-evidence".into());
                    }
                }
                match &res {
                    Ok(Ok(recs)) => {
                        n_commits += recs.len();
                        // shape
                        if w.rt.global_tick().as_u64() != gt0 + 1 {
                            flags.push("global-tick-not-plus-one".into());
                        }
                        if !new_faults.is_empty() {
                            flags.push("fault-recorded-on-successful-pass".into());
                        }
                        let got: Vec<WriterHeadKey> = recs.iter().map(|r| r.head_key).collect();
                        let want: Vec<WriterHeadKey> = predicted.iter().map(|(k, _)| *k).collect();
                        if got != want {
                            flags.push("committed-heads-not-runnable-nonempty-in-canonical-order".into());
                        }
                        if !got.windows(2).all(|p| p[0] < p[1]) {
                            flags.push("records-not-in-head-key-order".into());
                        }
                        let mut per_wl: BTreeMap<WorldlineId, u64> = BTreeMap::new();
                        for (i, r) in recs.iter().enumerate() {
                            let n = per_wl.entry(r.head_key.worldline_id).or_insert(0);
                            *n += 1;
                            let (t0, _) = ticks_before[&r.head_key.worldline_id];
                            if r.worldline_tick_after.as_u64() != t0 + *n {
                                flags.push("record-tick-not-consecutive".into());
                            }
                            if r.commit_global_tick.as_u64() != gt0 + 1 {
                                flags.push("record-global-tick-wrong".into());
                            }
                            if predicted.get(i).is_some_and(|(_, b)| b.len() != r.admitted_count) {
                                flags.push("record-admitted-count-differs-from-admit-on-clone".into());
                            }
                            match w.prov.entry(r.head_key.worldline_id, WorldlineTick::from_raw(t0 + *n - 1)) {
                                Ok(e) => {
                                    if e.expected.commit_hash != r.commit_hash || e.head_key != Some(r.head_key) || e.commit_global_tick.as_u64() != gt0 + 1 || e.expected.state_root != r.state_root {
                                        flags.push("provenance-entry-does-not-match-record".into());
                                    }
                                    if let Some(rc) = &e.tick_receipt {
                                        let rej = rc.entries().iter().filter(|x| x.disposition != TickReceiptDisposition::Applied).count();
                                        n_reject += rej;
                                        if rc.entries().len() != r.admitted_count {
                                            flags.push("receipt-entry-count-differs-from-batch".into());
                                        }
                                        let ones = predicted.get(i).map(|(k, b)| b.iter().filter(|id| w.intents.get(&(*k, **id)).is_some_and(|env| matches!(env.payload(), warp_core::IngressPayload::LocalIntent { intent_bytes, .. } if intent_bytes[0] == 1))).count()).unwrap_or(0);
                                        if rej != ones.saturating_sub(1) {
                                            flags.push("rejections-not-exactly-conflict-group-minus-one".into());
                                        }
                                    } else {
                                        flags.push("provenance-entry-without-receipt".into());
                                    }
                                }
                                Err(_) => flags.push("provenance-entry-missing-for-record".into()),
                            }
                        }
                        for (wl, f) in w.rt.worldlines().iter() {
                            let (t0, p0) = ticks_before[wl];
                            let n = per_wl.get(wl).copied().unwrap_or(0);
                            if f.frontier_tick().as_u64() != t0 + n {
                                flags.push("worldline-tick-not-plus-one-per-committed-head".into());
                            }
                            if p0 != u64::MAX && w.prov.len(*wl).unwrap_or(0) != p0 + n {
                                flags.push("provenance-length-not-plus-one-per-committed-head".into());
                            }
                        }
                        for k in &w.live {
                            let now = pending_of(w.rt.heads().get(k).unwrap().inbox());
                            let mut exp = pending_before[k].clone();
                            if let Some((_, b)) = predicted.iter().find(|(pk, _)| pk == k) {
                                exp.retain(|id| !b.contains(id));
                            }
                            if now != exp {
                                flags.push("pending-after-pass-not-before-minus-batch".into());
                            }
                        }
                        let cset = committed_set(&w.view());
                        for (k, b) in &predicted {
                            for id in b {
                                if !cset.contains(&(*k, *id)) {
                                    flags.push("admitted-ingress-not-recorded-as-committed".into());
                                }
                            }
                        }
                    }
                    _ => {
                        n_fail += 1;
                        // hidden state: once the new fault is resolved, the runtime must BEHAVE like the pre-pass
                        // runtime: with no head / any one head made dormant, the next pass gives the same result and
                        // the same state on both copies (fresh engine for the pre-pass copy, the real engine for the
                        // post-failure one, so that engine-side leftovers show up as well)
                        if new_faults.len() == 1 && !rt_faulted {
                            let fid = new_faults[0].fault_id;
                            let mut probes: Vec<Option<WriterHeadKey>> = vec![None];
                            probes.extend(w.live.iter().map(|k| Some(*k)));
                            for dormant in probes {
                                let mut a_rt = shadow_rt.clone();
                                let mut a_prov = shadow_prov.clone();
                                let mut b_rt = w.rt.clone();
                                let mut b_prov = w.prov.clone();
                                let auth = SchedulerFaultRecoveryAuthority::assume_runtime_owner();
                                if b_rt.resolve_scheduler_fault(&auth, fid, [9u8; 32]).is_err() {
                                    flags.push("new-fault-not-resolvable".into());
                                    break;
                                }
                                if let Some(k) = dormant {
                                    let _ = a_rt.set_head_eligibility(k, HeadEligibility::Dormant);
                                    let _ = b_rt.set_head_eligibility(k, HeadEligibility::Dormant);
                                }
                                let mut a_eng = engine();
                                let ra = std::panic::catch_unwind(std::panic::AssertUnwindSafe(|| SchedulerCoordinator::super_tick(&mut a_rt, &mut a_prov, &mut a_eng)));
                                let rb = {
                                    let eng = &mut w.eng;
                                    std::panic::catch_unwind(std::panic::AssertUnwindSafe(|| SchedulerCoordinator::super_tick(&mut b_rt, &mut b_prov, eng)))
                                };
                                let show = |r: &std::thread::Result<Result<Vec<warp_core::StepRecord>, RuntimeError>>| match r {
                                    Ok(Ok(recs)) => format!("ok:{}", recs.iter().map(|x| format!("{}={}@{}:{}", head_str(&x.head_key), x.admitted_count, x.worldline_tick_after.as_u64(), short(&x.commit_hash))).collect::<Vec<_>>().join("+")),
                                    Ok(Err(e)) => err_class(e),
                                    Err(_) => "panic".into(),
                                };
                                n_probe += 1;
                                if show(&ra) != show(&rb) {
                                    flags.push("failed-pass-left-hidden-state:next-pass-differs".into());
                                    break;
                                }
                                let fa = fingerprint(&View { rt: &a_rt, prov: &a_prov, eng: &a_eng, live: &w.live, intents: &w.intents });
                                let fb = fingerprint(&View { rt: &b_rt, prov: &b_prov, eng: &w.eng, live: &w.live, intents: &w.intents });
                                if fa != fb {
                                    let comp = fa.iter().zip(fb.iter()).find(|(x, y)| x != y).map(|(x, _)| x.0.clone()).unwrap_or_default();
                                    flags.push(format!("failed-pass-left-hidden-state:{}", comp.split('.').last().unwrap_or("?")));
                                    break;
                                }
                            }
                        }
                        // all-or-nothing: everything except fault evidence is exactly as before
                        for (a, b) in before.iter().zip(after.iter()) {
                            if a != b {
                                let comp = a.0.split('.').last().unwrap_or("?");
                                let comp = if a.0.starts_with("committed") { "committed" } else if a.0.starts_with("prov") { "provenance" } else { comp };
                                flags.push(format!("not-atomic:{comp}"));
                                break;
                            }
                        }
                        if before.len() != after.len() {
                            flags.push("not-atomic:shape".into());
                        }
                        if rt_faulted {
                            if class != "runtime-fault-active" {
                                flags.push("runtime-faulted-pass-did-not-refuse".into());
                            }
                            if !new_faults.is_empty() || fault_lines(&w) != faults_before {
                                flags.push("refused-pass-changed-fault-evidence".into());
                            }
                        } else if class == "provenance" && new_faults.is_empty() && predicted.is_empty() {
                            // provenance checkpoint failure before any mutation: error without evidence
                        } else {
                            if new_faults.len() != 1 {
                                flags.push(format!("failed-pass-added-{}-fault-records", new_faults.len()));
                            }
                            for f in &new_faults {
                                if !matches!(f.status, SchedulerFaultStatus::Active) {
                                    flags.push("new-fault-not-active".into());
                                }
                                let max_old = fault_records_before.iter().map(|o| o.fault_generation.as_u64()).max().unwrap_or(0);
                                if f.fault_generation.as_u64() != max_old + 1 {
                                    flags.push("fault-generation-not-consecutive".into());
                                }
                                match (class.as_str(), f.scope) {
                                    ("engine", SchedulerFaultScope::Head(k)) | ("frontier-overflow", SchedulerFaultScope::Head(k)) => {
                                        if !order.contains(&k) {
                                            flags.push("fault-scoped-to-non-runnable-head".into());
                                        }
                                        if !w.rt.is_head_faulted(&k) || w.rt.is_runtime_faulted() {
                                            flags.push("head-fault-quarantine-wrong".into());
                                        }
                                    }
                                    ("engine", SchedulerFaultScope::Runtime) | ("frontier-overflow", SchedulerFaultScope::Runtime) => flags.push("head-scoped-error-faulted-runtime".into()),
                                    (_, SchedulerFaultScope::Head(_)) => flags.push("runtime-scoped-failure-faulted-a-head".into()),
                                    (_, SchedulerFaultScope::Runtime) => {
                                        if !w.rt.is_runtime_faulted() {
                                            flags.push("runtime-fault-not-active".into());
                                        }
                                    }
                                }
                            }
                        }
                    }
                }
                // quarantine: faulted heads take no part, whatever the outcome
                for k in &w.live {
                    let was_faulted = faults_before.iter().any(|l| l.contains(&format!(".h{}.A", head_str(k))));
                    if was_faulted {
                        if order.contains(k) {
                            flags.push("faulted-head-in-runnable-order".into());
                        }
                        if let Ok(Ok(recs)) = &res {
                            if recs.iter().any(|r| r.head_key == *k) {
                                flags.push("faulted-head-committed".into());
                            }
                        }
                        if pending_of(w.rt.heads().get(k).unwrap().inbox()) != pending_before[k] {
                            flags.push("faulted-head-inbox-changed".into());
                        }
                        if !w.rt.is_head_faulted(k) {
                            flags.push("fault-cleared-without-recovery".into());
                        }
                    }
                }
                let tok = match &res {
                    Ok(Ok(recs)) => format!(
                        "P:ok:{}",
                        if recs.is_empty() { "-".into() } else { recs.iter().map(|r| format!("{}={}@{}/{}", head_str(&r.head_key), r.admitted_count, r.worldline_tick_after.as_u64(), r.commit_global_tick.as_u64())).collect::<Vec<_>>().join("+") }
                    ),
                    _ => format!("P:{class}"),
                };
                out.push(format!("{tok}[{}]", dump(&w)));
                fps.push(hex::encode(&blake3::hash(after.iter().map(|(a, b)| format!("{a}={b}")).collect::<Vec<_>>().join("\n").as_bytes()).as_bytes()[..6]));
            }
        }
    }
    out.push(format!("END[{}]", dump(&w)));
    // the engine's own transaction counter never leaks a runtime commit
    let etx = w.eng.begin().value();
    if etx != 1 {
        flags.push("engine-tx-counter-leaked".into());
    }
    flags.sort();
    flags.dedup();
    format!(
        "ids={} out={} fp={} oracle={} stats=passes:{},failed:{},commits:{},rejected:{},probes:{}",
        if ids.is_empty() { "-".into() } else { ids.join(";") },
        out.join("|"),
        if fps.is_empty() { "-".into() } else { fps.join(",") },
        if flags.is_empty() { "ok".to_string() } else { format!("FAIL:{}", flags.join(",")) },
        n_pass,
        n_fail,
        n_commits,
        n_reject,
        n_probe
    )
}
