//! C17 harness: ExternalActionCoordinatorV1 request -> claim -> settlement over the WAL store port.
//!
//! case:   store=<mem|fs> ops=<op>;<op>;...      (op syntax: see `exec`)
//! output: res=<r1>|<r2>|... final=<A>~<B> oracle=<ok|FAIL:sig,...> checks=<n>
//!   r_i = <result>@<root>,<ready>,<ncommitted>,<ntail>,[<entry>;...]   (state of the system the op addressed)
//!
//! Two independent systems (a, b) so that tokens of one can be presented to the other.  Commit
//! digests are printed as the ordinal of the commit marker in the store that holds it
//! (a: n, b: 2^32+n) -- the model's abstraction of a commit digest.
//! After EVERY op the harness (independently of the model) drops nothing but re-reads the store:
//! recover(store) must equal the live coordinator (index dump, root, reconstructed grants); every
//! grant must be backed by a committed transaction already in the store; lifecycle of every
//! request id in the store is a prefix of requested, claimed, settled; crash points inside the
//! transaction just written (frame without commit marker; fs: torn bytes) must be invisible.
use echo_verif_harness::*;
use std::collections::BTreeMap;
use std::path::{Path, PathBuf};
use warp_core::causal_wal::{
    recover_filesystem_store, recover_in_memory_store, ExternalActionCoordinatorCapability,
    FilesystemWalFaultPlan, FilesystemWalFaultTarget, FilesystemWalStore, InMemoryWalStore, Lsn,
    PayloadCodecId, PayloadSchemaId, RecoveryAccessMode, WalDurabilityMode, WalFrame, WalManifest,
    WalRecordKind, WalSegmentId, WalSegmentSeal, WalStoreError, WalStorePort, WalStoreSnapshot,
    WalTransactionCommit, WalTransactionId, WriterEpoch, WriterEpochId, WriterEpochRequest,
};
use warp_core::external_action::{
    admit_external_action_settlement, claim_external_action,
    reconcile_external_action_settlement_retry, record_external_action_request,
    AdmittedExternalActionSettlementV1, DurablyRecordedExternalActionRequestV1,
    ExternalActionAdapterAuthorizationV1, ExternalActionAdapterBindingV1, ExternalActionAdapterIdV1,
    ExternalActionAdapterRegistryV1, ExternalActionAttemptIdV1, ExternalActionBudgetV1,
    ExternalActionClaimGrantV1, ExternalActionCoordinatorV1, ExternalActionOperationIdV1,
    ExternalActionProtocolErrorV1 as PErr, ExternalActionRequestIdV1, ExternalActionRequestV1,
    ExternalActionSettlementCandidateV1, ExternalActionSettlementKindV1,
    ExternalActionTransactionContextV1, RecoveredExternalActionPostureV1,
};
use warp_core::{Hash, WorldlineId};

fn digest(label: &str) -> Hash {
    blake3::hash(label.as_bytes()).into()
}

#[derive(Clone, Copy, PartialEq, Eq, Debug)]
enum Fault {
    None,
    Append,
    Flush,
    AfterSync,
    /// frame append fails after part of the record reached the segment file (filesystem only)
    Torn,
}

fn fault_of(s: &str) -> Fault {
    match s {
        "n" => Fault::None,
        "a" => Fault::Append,
        "f" => Fault::Flush,
        "s" => Fault::AfterSync,
        "t" => Fault::Torn,
        _ => panic!("fault {s}"),
    }
}

/// What the harness needs from a store besides the port.
trait TStore: WalStorePort {
    fn arm(&mut self, f: Fault);
    fn disarm(&mut self);
    /// Ordinary writable WAL recovery (removes the uncommitted tail).
    fn truncate_tail(&mut self);
    fn ctx(&self, label: &str) -> ExternalActionTransactionContextV1;
    /// Crash: drop the handle and reopen (fs); nothing for the in-memory store.
    fn reopen(&mut self);
    /// Recovers a coordinator from a crash copy of this store: the state before the last
    /// transaction (`pre`) plus, per crash point, part of what that transaction wrote.
    /// Returns (label, result-before-truncation, result-after-writable-recovery).
    fn crash_points(&self, pre: &Snapshot) -> Vec<CrashPoint>;
    fn snapshot(&self) -> Snapshot;
    /// Leaves a partially written record at the end of the segment (after an injected append failure).
    fn tear(&mut self);
    fn is_torn(&self) -> bool;
}

type CrashPoint = (String, Result<ExternalActionCoordinatorV1, PErr>, Result<ExternalActionCoordinatorV1, PErr>, Option<String>);

enum Snapshot {
    Mem(InMemoryWalStore),
    Fs(Vec<u8>),
}

// ---------------------------------------------------------------- in-memory store with faults
struct MemStore {
    inner: InMemoryWalStore,
    fault: Fault,
    epoch: WriterEpochId,
}

fn mem_epoch(tag: &str) -> WriterEpochRequest {
    WriterEpochRequest {
        epoch_id: WriterEpochId::from_hash(digest(&format!("c17:epoch:{tag}"))),
        storage_fencing_token: digest("c17:fencing"),
        process_identity: digest("c17:process"),
        host_identity: digest("c17:host"),
        started_at_lsn: Lsn::from_raw(0),
        previous_epoch_id: None,
        previous_epoch_final_commit_digest: None,
        lease_or_lock_evidence: digest("c17:lease"),
    }
}

impl MemStore {
    fn new(tag: &str) -> Self {
        let mut inner = InMemoryWalStore::new();
        let req = mem_epoch(tag);
        let epoch = req.epoch_id;
        inner.acquire_writer_epoch(req).expect("epoch");
        MemStore { inner, fault: Fault::None, epoch }
    }
}

fn injected() -> WalStoreError {
    WalStoreError::Io("c17 injected fault".to_owned())
}

impl WalStorePort for MemStore {
    fn acquire_writer_epoch(&mut self, request: WriterEpochRequest) -> Result<WriterEpoch, WalStoreError> {
        self.inner.acquire_writer_epoch(request)
    }
    fn append_frame(&mut self, epoch_id: WriterEpochId, frame: WalFrame) -> Result<(), WalStoreError> {
        if self.fault == Fault::Append {
            self.fault = Fault::None;
            return Err(injected());
        }
        self.inner.append_frame(epoch_id, frame)
    }
    fn flush_commit(&mut self, epoch_id: WriterEpochId, commit: WalTransactionCommit) -> Result<(), WalStoreError> {
        self.inner.flush_commit(epoch_id, commit)
    }
    fn flush_external_action_commit(
        &mut self,
        epoch_id: WriterEpochId,
        commit: WalTransactionCommit,
        capability: ExternalActionCoordinatorCapability,
    ) -> Result<(), WalStoreError> {
        match self.fault {
            Fault::Flush => {
                self.fault = Fault::None;
                Err(injected())
            }
            Fault::AfterSync => {
                self.fault = Fault::None;
                self.inner.flush_external_action_commit(epoch_id, commit, capability)?;
                Err(injected())
            }
            _ => self.inner.flush_external_action_commit(epoch_id, commit, capability),
        }
    }
    fn read_frames(&self) -> Vec<WalFrame> {
        self.inner.read_frames()
    }
    fn read_commits(&self) -> Vec<WalTransactionCommit> {
        self.inner.read_commits()
    }
    fn read_snapshot(&self) -> Result<WalStoreSnapshot, WalStoreError> {
        self.inner.read_snapshot()
    }
    fn seal_segment(&mut self, epoch_id: WriterEpochId, segment_id: WalSegmentId) -> Result<WalSegmentSeal, WalStoreError> {
        self.inner.seal_segment(epoch_id, segment_id)
    }
    fn truncate_tail_after(&mut self, after_lsn: Lsn) -> Result<(), WalStoreError> {
        self.inner.truncate_tail_after(after_lsn)
    }
    fn publish_manifest(&mut self, epoch_id: WriterEpochId, manifest: WalManifest) -> Result<(), WalStoreError> {
        self.inner.publish_manifest(epoch_id, manifest)
    }
    fn close_epoch(&mut self, epoch_id: WriterEpochId) -> Result<(), WalStoreError> {
        self.inner.close_epoch(epoch_id)
    }
}

fn base_ctx(label: &str, epoch: WriterEpochId, mode: WalDurabilityMode) -> ExternalActionTransactionContextV1 {
    ExternalActionTransactionContextV1 {
        writer_epoch: epoch,
        segment_id: WalSegmentId::from_raw(1),
        transaction_id: WalTransactionId::from_hash(digest(label)),
        durability_mode: mode,
        payload_codec_id: PayloadCodecId::from_hash(digest("c17:codec")),
        payload_schema_id: PayloadSchemaId::from_hash(digest("c17:schema")),
        payload_schema_version: 1,
        canonical_encoding_version: 1,
        digest_domain: digest("c17:domain"),
    }
}

impl TStore for MemStore {
    fn arm(&mut self, f: Fault) {
        self.fault = if f == Fault::Torn { Fault::Append } else { f };
    }
    fn disarm(&mut self) {
        self.fault = Fault::None;
    }
    fn truncate_tail(&mut self) {
        let _ = recover_in_memory_store(&mut self.inner, RecoveryAccessMode::Writable);
    }
    fn ctx(&self, label: &str) -> ExternalActionTransactionContextV1 {
        base_ctx(label, self.epoch, WalDurabilityMode::Buffered)
    }
    fn reopen(&mut self) {}
    fn snapshot(&self) -> Snapshot {
        Snapshot::Mem(self.inner.clone())
    }
    fn tear(&mut self) {
        panic!("torn-tail fault is defined for the filesystem store only");
    }
    fn is_torn(&self) -> bool {
        false
    }
    fn crash_points(&self, pre: &Snapshot) -> Vec<CrashPoint> {
        let Snapshot::Mem(pre) = pre else { return Vec::new() };
        let mut out = Vec::new();
        let before = pre.read_frames().len();
        let frames = self.inner.read_frames();
        // the transaction just written appended frames[before..]; crash after each frame, before the marker
        for k in before..frames.len() {
            let mut copy = pre.clone();
            for f in &frames[before..=k] {
                copy.append_uncommitted_frame(self.epoch, f.clone()).expect("uncommitted frame");
            }
            let r1 = ExternalActionCoordinatorV1::recover(&copy);
            let _ = recover_in_memory_store(&mut copy, RecoveryAccessMode::Writable);
            let r2 = ExternalActionCoordinatorV1::recover(&copy);
            out.push((format!("frame{}", k - before), r1, r2, None));
        }
        out
    }
}

// ---------------------------------------------------------------- filesystem store
struct FsStore {
    inner: Option<FilesystemWalStore>,
    root: PathBuf,
    epoch: WriterEpochId,
    torn: bool,
}

impl FsStore {
    fn open_at(root: &Path) -> (FilesystemWalStore, WriterEpochId) {
        let mut st = FilesystemWalStore::open(root, WalSegmentId::from_raw(1)).expect("fs open");
        let ep = st.acquire_fresh_writer_epoch(Lsn::from_raw(0)).expect("fs epoch");
        (st, ep.epoch_id)
    }
    fn new(root: PathBuf) -> Self {
        std::fs::create_dir_all(&root).expect("mkdir");
        let (st, epoch) = Self::open_at(&root);
        FsStore { inner: Some(st), root, epoch, torn: false }
    }
    fn st(&self) -> &FilesystemWalStore {
        self.inner.as_ref().expect("fs store")
    }
    fn stm(&mut self) -> &mut FilesystemWalStore {
        self.inner.as_mut().expect("fs store")
    }
    fn segment_bytes(&self) -> Vec<u8> {
        std::fs::read(self.st().segment_path()).unwrap_or_default()
    }
}

impl WalStorePort for FsStore {
    fn acquire_writer_epoch(&mut self, request: WriterEpochRequest) -> Result<WriterEpoch, WalStoreError> {
        self.stm().acquire_writer_epoch(request)
    }
    fn append_frame(&mut self, epoch_id: WriterEpochId, frame: WalFrame) -> Result<(), WalStoreError> {
        self.stm().append_frame(epoch_id, frame)
    }
    fn flush_commit(&mut self, epoch_id: WriterEpochId, commit: WalTransactionCommit) -> Result<(), WalStoreError> {
        self.stm().flush_commit(epoch_id, commit)
    }
    fn flush_external_action_commit(
        &mut self,
        epoch_id: WriterEpochId,
        commit: WalTransactionCommit,
        capability: ExternalActionCoordinatorCapability,
    ) -> Result<(), WalStoreError> {
        self.stm().flush_external_action_commit(epoch_id, commit, capability)
    }
    fn read_frames(&self) -> Vec<WalFrame> {
        self.st().read_frames()
    }
    fn read_commits(&self) -> Vec<WalTransactionCommit> {
        self.st().read_commits()
    }
    fn read_snapshot(&self) -> Result<WalStoreSnapshot, WalStoreError> {
        self.st().read_snapshot()
    }
    fn seal_segment(&mut self, epoch_id: WriterEpochId, segment_id: WalSegmentId) -> Result<WalSegmentSeal, WalStoreError> {
        self.stm().seal_segment(epoch_id, segment_id)
    }
    fn truncate_tail_after(&mut self, after_lsn: Lsn) -> Result<(), WalStoreError> {
        self.stm().truncate_tail_after(after_lsn)
    }
    fn publish_manifest(&mut self, epoch_id: WriterEpochId, manifest: WalManifest) -> Result<(), WalStoreError> {
        self.stm().publish_manifest(epoch_id, manifest)
    }
    fn close_epoch(&mut self, epoch_id: WriterEpochId) -> Result<(), WalStoreError> {
        self.stm().close_epoch(epoch_id)
    }
}

fn copy_dir(src: &Path, dst: &Path) {
    let _ = std::fs::remove_dir_all(dst);
    std::fs::create_dir_all(dst).expect("mkdir copy");
    for e in std::fs::read_dir(src).expect("read_dir") {
        let e = e.expect("entry");
        let p = e.path();
        let d = dst.join(e.file_name());
        if p.is_dir() {
            copy_dir(&p, &d);
        } else {
            std::fs::copy(&p, &d).expect("copy");
        }
    }
}

impl TStore for FsStore {
    fn arm(&mut self, f: Fault) {
        let plan = match f {
            Fault::None => FilesystemWalFaultPlan::default(),
            Fault::Append | Fault::Torn => FilesystemWalFaultPlan::fail_next(FilesystemWalFaultTarget::AppendFrame),
            Fault::Flush => FilesystemWalFaultPlan::fail_next(FilesystemWalFaultTarget::FlushCommit),
            Fault::AfterSync => FilesystemWalFaultPlan::fail_next(FilesystemWalFaultTarget::CommitMarkerSynced),
        };
        self.stm().replace_fault_plan_for_test(plan);
    }
    fn disarm(&mut self) {
        self.stm().replace_fault_plan_for_test(FilesystemWalFaultPlan::default());
    }
    fn truncate_tail(&mut self) {
        let _ = recover_filesystem_store(&self.root, RecoveryAccessMode::Writable);
        self.torn = false;
    }
    fn tear(&mut self) {
        use std::io::Write;
        let mut f = std::fs::OpenOptions::new().append(true).open(self.st().segment_path()).expect("segment");
        let mut bytes = b"ECWALR1!".to_vec();
        bytes.push(1);
        bytes.extend_from_slice(&500u64.to_le_bytes());
        bytes.extend_from_slice(&[0xAB; 20]);
        f.write_all(&bytes).expect("tear");
        self.torn = true;
    }
    fn is_torn(&self) -> bool {
        self.torn
    }
    fn ctx(&self, label: &str) -> ExternalActionTransactionContextV1 {
        base_ctx(label, self.epoch, WalDurabilityMode::StrictFilesystem)
    }
    fn reopen(&mut self) {
        self.inner = None; // releases the writer lease
        let (st, epoch) = Self::open_at(&self.root);
        self.inner = Some(st);
        self.epoch = epoch;
    }
    fn snapshot(&self) -> Snapshot {
        Snapshot::Fs(self.segment_bytes())
    }
    fn crash_points(&self, pre: &Snapshot) -> Vec<CrashPoint> {
        let Snapshot::Fs(pre) = pre else { return Vec::new() };
        let post = self.segment_bytes();
        let mut out = Vec::new();
        if post.len() <= pre.len() || post[..pre.len()] != pre[..] {
            return out;
        }
        // records written by the last transaction: [magic 8][kind 1][len 8][payload][digest 32]
        let mut bounds = Vec::new();
        let mut off = pre.len();
        while off + 17 <= post.len() {
            let mut l = [0u8; 8];
            l.copy_from_slice(&post[off + 9..off + 17]);
            let end = off + 17 + u64::from_le_bytes(l) as usize + 32;
            if end > post.len() {
                break;
            }
            bounds.push((off, end, post[off + 8]));
            off = end;
        }
        let mut cuts: Vec<(String, usize)> = Vec::new();
        for (i, (s, e, kind)) in bounds.iter().enumerate() {
            let nm = if *kind == 1 { "frame" } else { "commit" };
            if *kind == 1 {
                cuts.push((format!("{nm}{i}-whole"), *e));
            }
            cuts.push((format!("{nm}{i}-torn-head"), s + 5));
            cuts.push((format!("{nm}{i}-torn-body"), s + 17 + (e - s - 49) / 2));
            cuts.push((format!("{nm}{i}-torn-last"), e - 1));
        }
        let crash_root = self.root.with_extension("crash");
        let seg_rel = self.st().segment_path();
        let seg_rel = seg_rel.strip_prefix(&self.root).expect("segment under root").to_path_buf();
        for (label, cut) in cuts {
            copy_dir(&self.root, &crash_root);
            let _ = std::fs::remove_file(crash_root.join("writer-epoch.lock"));
            std::fs::write(crash_root.join(&seg_rel), &post[..cut]).expect("truncate copy");
            let r1 = FilesystemWalStore::open(&crash_root, WalSegmentId::from_raw(1))
                .map_err(PErr::from)
                .and_then(|st| ExternalActionCoordinatorV1::recover(&st));
            // A host that trusts a successful coordinator recovery keeps working on this store:
            // a step acknowledged there must survive the next reopen.
            let mut extra = None;
            if r1.is_ok() && std::env::var("C17_NO_RESUME").is_err() {
                let resume_root = self.root.with_extension("resume");
                copy_dir(&crash_root, &resume_root);
                extra = resume_after_crash(&resume_root);
                let _ = std::fs::remove_dir_all(&resume_root);
            }
            let _ = recover_filesystem_store(&crash_root, RecoveryAccessMode::Writable);
            let r2 = FilesystemWalStore::open(&crash_root, WalSegmentId::from_raw(1))
                .map_err(PErr::from)
                .and_then(|st| ExternalActionCoordinatorV1::recover(&st));
            out.push((label, r1, r2, extra));
        }
        let _ = std::fs::remove_dir_all(&crash_root);
        out
    }
}

/// Continue on a crashed filesystem store exactly like a restarted host does (open, fresh writer
/// epoch, coordinator recovery), record one new request, then restart again: the acknowledged
/// request must be recovered.  Returns a finding, if any.
fn resume_after_crash(root: &Path) -> Option<String> {
    let probe = probe_request(digest("c17:resume-probe"));
    {
        let mut st = FilesystemWalStore::open(root, WalSegmentId::from_raw(1)).ok()?;
        let ep = st.acquire_fresh_writer_epoch(Lsn::from_raw(0)).ok()?;
        let mut co = ExternalActionCoordinatorV1::recover(&st).ok()?;
        let ctx = base_ctx("c17:resume", ep.epoch_id, WalDurabilityMode::StrictFilesystem);
        if record_external_action_request(&mut st, &mut co, ctx, probe).is_err() {
            return None; // refused: nothing was acknowledged
        }
    }
    let st = match FilesystemWalStore::open(root, WalSegmentId::from_raw(1)) {
        Ok(st) => st,
        Err(e) => return Some(format!("reopen:{e:?}")),
    };
    match ExternalActionCoordinatorV1::recover(&st) {
        Ok(co) => {
            if co.observed_index().get(probe.request_id()).is_some() {
                None
            } else {
                Some("recovered-without-acknowledged-request".into())
            }
        }
        Err(e) => Some(format!("recover:{}", err_name(&e))),
    }
}

// ---------------------------------------------------------------- canonical rendering
fn err_name(e: &PErr) -> String {
    match e {
        PErr::EmptyBudget => "EmptyBudget".into(),
        PErr::RequestBudgetLimitExceeded => "RequestBudgetLimitExceeded".into(),
        PErr::UnsupportedAttemptBudget => "UnsupportedAttemptBudget".into(),
        PErr::RequestIdentityMismatch => "RequestIdentityMismatch".into(),
        PErr::UnauthorizedAdapter => "UnauthorizedAdapter".into(),
        PErr::AuthorizationBindingMismatch => "AuthorizationBindingMismatch".into(),
        PErr::MissingLeaseEvidence => "MissingLeaseEvidence".into(),
        PErr::MissingAuthorizationPolicyEvidence => "MissingAuthorizationPolicyEvidence".into(),
        PErr::StaleBasis => "StaleBasis".into(),
        PErr::AttemptBudgetExhausted => "AttemptBudgetExhausted".into(),
        PErr::ClaimBindingMismatch => "ClaimBindingMismatch".into(),
        PErr::SettlementSchemaMismatch => "SettlementSchemaMismatch".into(),
        PErr::SettlementResultDigestMismatch => "SettlementResultDigestMismatch".into(),
        PErr::SettlementBudgetExceeded => "SettlementBudgetExceeded".into(),
        PErr::SettlementClaimMismatch => "SettlementClaimMismatch".into(),
        PErr::DuplicateRequest => "DuplicateRequest".into(),
        PErr::DuplicateClaim => "DuplicateClaim".into(),
        PErr::DuplicateSettlement => "DuplicateSettlement".into(),
        PErr::ConflictingSettlement => "ConflictingSettlement".into(),
        PErr::MissingRequest => "MissingRequest".into(),
        PErr::MissingClaim => "MissingClaim".into(),
        PErr::MissingSettlement => "MissingSettlement".into(),
        PErr::CoordinatorRecoveryRequired => "CoordinatorRecoveryRequired".into(),
        PErr::WalTailNotClean => "WalTailNotClean".into(),
        PErr::MissingSchemaAdmissionEvidence => "MissingSchemaAdmissionEvidence".into(),
        PErr::MissingExternalEvidence => "MissingExternalEvidence".into(),
        PErr::ExternalActionFrontierMismatch { .. } => "ExternalActionFrontierMismatch".into(),
        PErr::WalStore(_) => "WalStoreErr".into(),
        other => format!("Other({})", format!("{other:?}").replace([' ', '|', '\n'], "_")),
    }
}

fn kind_code(k: ExternalActionSettlementKindV1) -> u8 {
    k.stable_code()
}

fn posture_code(p: RecoveredExternalActionPostureV1) -> u8 {
    match p {
        RecoveredExternalActionPostureV1::Requested => 0,
        RecoveredExternalActionPostureV1::Claimed => 1,
        RecoveredExternalActionPostureV1::Settled(k) => 1 + kind_code(k),
    }
}

const B_BASE: u64 = 1 << 32;

/// commit digest -> ordinal of its marker in the store that holds it (a: n, b: 2^32+n)
struct Commits {
    a: Vec<Hash>,
    b: Vec<Hash>,
}
impl Commits {
    fn ord(&self, d: &Hash) -> String {
        if let Some(i) = self.a.iter().position(|x| x == d) {
            return format!("{i}");
        }
        if let Some(i) = self.b.iter().position(|x| x == d) {
            return format!("{}", B_BASE + i as u64);
        }
        "?".into()
    }
    fn opt(&self, d: &Option<Hash>) -> String {
        match d {
            None => "0".into(),
            Some(d) => {
                let o = self.ord(d);
                match o.parse::<u64>() {
                    Ok(n) => format!("{}", n + 1),
                    Err(_) => o,
                }
            }
        }
    }
}

fn h16(h: &Hash) -> String {
    hex::encode(&h[..8])
}

fn is_ready(c: &ExternalActionCoordinatorV1) -> bool {
    let probe = digest("c17:probe-request-id");
    // request ids cannot be forged; borrow one by building a request (never recorded)
    let r = probe_request(probe);
    !matches!(c.recorded_request(r.request_id()), Err(PErr::CoordinatorRecoveryRequired))
}

fn probe_request(seed: Hash) -> ExternalActionRequestV1 {
    ExternalActionRequestV1::new(
        WorldlineId::from_bytes(seed),
        ExternalActionOperationIdV1::from_hash(seed),
        seed,
        seed,
        seed,
        seed,
        ExternalActionBudgetV1 { max_settlement_bytes: 1, max_attempts: 1 },
        seed,
        seed,
    )
    .expect("probe request")
}

/// Index dump of a coordinator over the known request ids (sorted by id).
fn dump(c: &ExternalActionCoordinatorV1, ids: &[ExternalActionRequestIdV1], cm: &Commits, full: bool) -> (String, usize) {
    let mut rows: Vec<(Hash, String)> = Vec::new();
    for id in ids {
        if let Some(e) = c.observed_index().get(*id) {
            let att = e.claim.map(|cl| cl.attempt_id.as_hash()).unwrap_or([0; 32]);
            let dig = e.settlement.as_ref().map(|s| s.result_digest).unwrap_or([0; 32]);
            let f = |h: &Hash| if full { hex::encode(h) } else { h16(h) };
            rows.push((
                id.as_hash(),
                format!(
                    "{}.{}.{}.{}.{}.{}.{}",
                    f(&id.as_hash()),
                    posture_code(e.posture),
                    cm.ord(&e.request_commit_digest),
                    cm.opt(&e.claim_commit_digest),
                    cm.opt(&e.settlement_commit_digest),
                    f(&att),
                    f(&dig)
                ),
            ));
        }
    }
    rows.sort();
    rows.dedup();
    let n = rows.len();
    (rows.into_iter().map(|r| r.1).collect::<Vec<_>>().join(";"), n)
}

// ---------------------------------------------------------------- one system
struct Sys<S: TStore> {
    store: S,
    coord: ExternalActionCoordinatorV1,
    tag: char,
}

#[derive(Default)]
struct Client {
    reqs: Vec<ExternalActionRequestV1>,
    auths: Vec<ExternalActionAdapterAuthorizationV1>,
    tokens: Vec<Option<DurablyRecordedExternalActionRequestV1>>,
    grants: Vec<Option<ExternalActionClaimGrantV1>>,
    cands: Vec<ExternalActionSettlementCandidateV1>,
    // oracle bookkeeping (implementation only)
    claims_granted: BTreeMap<(char, Hash), u32>,
    grant_seen: BTreeMap<(char, Hash), (Hash, Hash)>, // (attempt id, claim commit digest)
    admitted_seen: BTreeMap<(char, Hash), (Hash, Hash, Vec<u8>)>, // (result digest, settlement commit, bytes)
    flags: Vec<String>,
    checks: u64,
}

impl Client {
    fn flag(&mut self, s: String) {
        if self.flags.len() < 8 {
            self.flags.push(s.replace([' ', '|', '\n'], "_"));
        }
    }
    fn ids(&self) -> Vec<ExternalActionRequestIdV1> {
        self.reqs.iter().map(|r| r.request_id()).collect()
    }
}

enum Res {
    Skip,
    Err(PErr),
    Token(DurablyRecordedExternalActionRequestV1),
    Grant(ExternalActionClaimGrantV1),
    Admitted(AdmittedExternalActionSettlementV1),
    Ok,
    Req(ExternalActionRequestV1),
    Auth(ExternalActionAdapterAuthorizationV1),
    Cand(ExternalActionSettlementCandidateV1),
}

fn render_res(r: &Res, cm: &Commits) -> String {
    match r {
        Res::Skip => "skip".into(),
        Res::Err(e) => format!("err:{}", err_name(e)),
        Res::Token(t) => format!("token:{}:{}", hex::encode(t.request().request_id().as_hash()), cm.ord(&t.request_commit_digest())),
        Res::Grant(g) => format!(
            "grant:{}:{}:{}:{}",
            hex::encode(g.request().request_id().as_hash()),
            hex::encode(g.claim().attempt_id.as_hash()),
            hex::encode(g.claim().idempotency_key),
            cm.ord(&g.claim_commit_digest())
        ),
        Res::Admitted(a) => format!(
            "adm:{}:{}:{}:{}:{}",
            hex::encode(a.settlement().request_id.as_hash()),
            hex::encode(a.settlement().result_digest),
            kind_code(a.settlement().kind),
            a.settlement().canonical_result_bytes.len(),
            cm.ord(&a.settlement_commit_digest())
        ),
        Res::Ok => "ok".into(),
        Res::Req(r) => format!("req:{}", hex::encode(r.request_id().as_hash())),
        Res::Auth(_) => "auth".into(),
        Res::Cand(c) => format!("cand:{}:{}", hex::encode(c.attempt_id.as_hash()), hex::encode(c.declared_result_digest)),
    }
}

fn tail_len(store: &impl WalStorePort) -> usize {
    let last = store.read_commits().iter().map(|c| c.last_lsn).max();
    store.read_frames().iter().filter(|f| last.is_none_or(|l| f.header.lsn > l)).count()
}

fn state_line<S: TStore>(s: &Sys<S>, ids: &[ExternalActionRequestIdV1], cm: &Commits, full: bool) -> String {
    let (d, _) = dump(&s.coord, ids, cm, full);
    format!(
        "{},{},{},{},[{}]",
        hex::encode(s.coord.observed_index().root_digest()),
        if is_ready(&s.coord) { 1 } else { 0 },
        s.store.read_commits().len(),
        tail_len(&s.store),
        d
    )
}

fn commits_of(store: &impl WalStorePort) -> Vec<Hash> {
    store.read_commits().iter().map(|c| c.commit_digest).collect()
}

/// Reconstructed authorities of a coordinator for one id, as comparable strings.
fn authorities(c: &ExternalActionCoordinatorV1, id: ExternalActionRequestIdV1, cm: &Commits) -> String {
    let a = match c.recorded_request(id) {
        Ok(t) => render_res(&Res::Token(t), cm),
        Err(e) => err_name(&e),
    };
    let b = match c.claim_grant(id) {
        Ok(g) => render_res(&Res::Grant(g), cm),
        Err(e) => err_name(&e),
    };
    let d = match c.admitted_settlement(id) {
        Ok(s) => format!("{}#{}", render_res(&Res::Admitted(s.clone()), cm), hex::encode(&s.settlement().canonical_result_bytes)),
        Err(e) => err_name(&e),
    };
    format!("{a}/{b}/{d}")
}

/// Authorities a coordinator must refuse: an adapter work grant for a request that already has a
/// durable settlement of ANY kind (no step is repeated), a request token for a claimed request.
fn authority_violations(c: &ExternalActionCoordinatorV1, ids: &[ExternalActionRequestIdV1], tag: char, when: &str) -> Vec<String> {
    let mut out = Vec::new();
    for id in ids {
        let Some(e) = c.observed_index().get(*id) else { continue };
        if let Some(st) = &e.settlement {
            if c.claim_grant(*id).is_ok() {
                out.push(format!("grant-after-settlement[{tag}]:{}:{when}", kind_code(st.kind)));
            }
        }
        if e.claim.is_some() && c.recorded_request(*id).is_ok() {
            out.push(format!("token-after-claim[{tag}]:{when}"));
        }
    }
    out
}

fn full_view(c: &ExternalActionCoordinatorV1, ids: &[ExternalActionRequestIdV1], cm: &Commits) -> String {
    let (d, n) = dump(c, ids, cm, true);
    let auth: Vec<String> = ids.iter().map(|id| authorities(c, *id, cm)).collect();
    format!("{}|{}|{}|{}|{}", hex::encode(c.observed_index().root_digest()), c.observed_index().len(), n, d, auth.join(","))
}

/// Property oracle on the implementation alone, evaluated after every operation on system `s`.
fn oracle_after<S: TStore>(s: &Sys<S>, cl: &mut Client, cm: &Commits, pre_view: &str, pre_snap: Option<&Snapshot>, what: &str) {
    let ids = cl.ids();
    let tag = s.tag;
    cl.checks += 1;
    if s.store.is_torn() {
        // a torn tail obstructs admission until writable WAL recovery (fix d38671b; regression guard)
        let rec = ExternalActionCoordinatorV1::recover(&s.store);
        if !matches!(rec, Err(PErr::WalStore(_))) || is_ready(&s.coord) {
            cl.flag(format!("torn-tail-admitted[{tag}]:{what}"));
        }
        return;
    }
    // (1) lifecycle prefix in the durable log + one claim per id
    let snapshot = match s.store.read_snapshot() {
        Ok(x) => x,
        Err(e) => {
            cl.flag(format!("snapshot-unreadable[{tag}]:{e:?}"));
            return;
        }
    };
    let mut per_id: BTreeMap<Vec<u8>, Vec<u8>> = BTreeMap::new();
    for c in &snapshot.commits {
        for f in snapshot.frames.iter().filter(|f| f.header.transaction_id == c.transaction_id && f.header.lsn >= c.first_lsn && f.header.lsn <= c.last_lsn) {
            let step = match f.header.record_kind {
                WalRecordKind::ExternalActionRequestRecorded => 0u8,
                WalRecordKind::ExternalActionClaimRecorded => 1,
                WalRecordKind::ExternalActionSettlementRecorded => 2,
                _ => continue,
            };
            let b = &f.payload.canonical_bytes;
            if b.len() >= 36 {
                per_id.entry(b[4..36].to_vec()).or_default().push(step);
            }
        }
    }
    for (id, steps) in &per_id {
        if steps.len() > 3 || steps.iter().enumerate().any(|(i, st)| *st as usize != i) {
            cl.flag(format!("lifecycle-not-prefix[{tag}]:{}:{:?}", hex::encode(&id[..4]), steps));
        }
    }
    // (2) recover(store) == live
    let ready = is_ready(&s.coord);
    if ready {
        for f in authority_violations(&s.coord, &ids, tag, "live") {
            cl.flag(f);
        }
    }
    let dirty = tail_len(&s.store) > 0;
    let rec = ExternalActionCoordinatorV1::recover(&s.store);
    match (&rec, dirty) {
        (Err(PErr::WalTailNotClean), true) => {
            if ready {
                cl.flag(format!("ready-coordinator-over-dirty-tail[{tag}]:{what}"));
            }
        }
        (Ok(_), true) => cl.flag(format!("recovered-over-dirty-tail[{tag}]:{what}")),
        (Err(e), _) => cl.flag(format!("recover-failed[{tag}]:{what}:{}", err_name(e))),
        (Ok(rc), false) => {
            for f in authority_violations(rc, &ids, tag, "recovered") {
                cl.flag(f);
            }
            let rv = full_view(rc, &ids, cm);
            let lv = full_view(&s.coord, &ids, cm);
            if ready {
                if rv != lv {
                    cl.flag(format!("recover-ne-live[{tag}]:{what}"));
                }
                if *rc != s.coord {
                    cl.flag(format!("recovered-coordinator-ne-live[{tag}]:{what}"));
                }
            } else {
                // poisoned coordinator: the durable state is its index, or its index plus the one
                // transaction whose acknowledgement was lost
                let n_live = dump(&s.coord, &ids, cm, true).1;
                let n_rec = dump(rc, &ids, cm, true).1;
                if n_rec < n_live || n_rec > n_live + 1 {
                    cl.flag(format!("poisoned-recover-size[{tag}]:{what}"));
                }
            }
        }
    }
    // (3) crash points inside the transaction just written are invisible
    if let Some(pre) = pre_snap {
        for (label, r1, r2, extra) in s.store.crash_points(pre) {
            if let Some(x) = extra {
                cl.flag(format!("acknowledged-step-lost-after-torn-tail[{tag}]:{what}:{label}:{x}"));
            }
            cl.checks += 1;
            match r1 {
                // fail-closed: an uncommitted or torn tail obstructs admission until WAL recovery
                Err(PErr::WalTailNotClean) | Err(PErr::WalStore(_)) => {}
                Ok(c1) => {
                    if full_view(&c1, &ids, cm) != pre_view {
                        cl.flag(format!("partial-transaction-visible[{tag}]:{what}:{label}"));
                    }
                }
                Err(e) => cl.flag(format!("crash-recover-error[{tag}]:{what}:{label}:{}", err_name(&e))),
            }
            match r2 {
                Ok(c2) => {
                    if full_view(&c2, &ids, cm) != pre_view {
                        cl.flag(format!("partial-transaction-visible-after-truncation[{tag}]:{what}:{label}"));
                    }
                }
                Err(e) => cl.flag(format!("crash-recover-error-after-truncation[{tag}]:{what}:{label}:{}", err_name(&e))),
            }
        }
    }
}

/// A grant-bearing result must be backed by a committed transaction already in the store.
fn check_backed<S: TStore>(s: &Sys<S>, cl: &mut Client, commit: &Hash, id: &Hash, kind: WalRecordKind, what: &str) {
    cl.checks += 1;
    let Ok(snap) = s.store.read_snapshot() else {
        cl.flag(format!("grant-without-readable-log:{what}"));
        return;
    };
    let Some(c) = snap.commits.iter().find(|c| c.commit_digest == *commit) else {
        cl.flag(format!("grant-before-log[{}]:{what}:no-commit-marker", s.tag));
        return;
    };
    let ok = snap.frames.iter().any(|f| {
        f.header.transaction_id == c.transaction_id
            && f.header.lsn >= c.first_lsn
            && f.header.lsn <= c.last_lsn
            && f.header.record_kind == kind
            && f.payload.canonical_bytes.len() >= 36
            && f.payload.canonical_bytes[4..36] == id[..]
    });
    if !ok {
        cl.flag(format!("grant-before-log[{}]:{what}:no-matching-record", s.tag));
    }
}

fn note_result<S: TStore>(s: &Sys<S>, cl: &mut Client, r: &Res, what: &str, commits_before: usize, fault: Fault, is_claim_op: bool, is_retry: bool) {
    let tag = s.tag;
    let n_after = s.store.read_commits().len();
    match r {
        Res::Token(t) => {
            check_backed(s, cl, &t.request_commit_digest(), &t.request().request_id().as_hash(), WalRecordKind::ExternalActionRequestRecorded, what);
        }
        Res::Grant(g) => {
            let id = g.request().request_id().as_hash();
            check_backed(s, cl, &g.claim_commit_digest(), &id, WalRecordKind::ExternalActionClaimRecorded, what);
            if is_claim_op {
                let n = cl.claims_granted.entry((tag, id)).or_insert(0);
                *n += 1;
                if *n > 1 {
                    cl.flag(format!("second-claim-grant[{tag}]:{}", hex::encode(&id[..4])));
                }
            }
            let cur = (g.claim().attempt_id.as_hash(), g.claim_commit_digest());
            if let Some(prev) = cl.grant_seen.get(&(tag, id)) {
                if *prev != cur {
                    cl.flag(format!("grants-disagree[{tag}]:{}", hex::encode(&id[..4])));
                }
            }
            cl.grant_seen.insert((tag, id), cur);
        }
        Res::Admitted(a) => {
            let st = a.settlement();
            let id = st.request_id.as_hash();
            check_backed(s, cl, &a.settlement_commit_digest(), &id, WalRecordKind::ExternalActionSettlementRecorded, what);
            // exact attempt + bounds, read back from the coordinator's own index
            if let Some(e) = s.coord.observed_index().get(st.request_id) {
                let okc = e.claim.is_some_and(|c| c.attempt_id == st.attempt_id && c.adapter_id == st.adapter_id);
                if !okc {
                    cl.flag(format!("settlement-for-other-attempt[{tag}]:{}", hex::encode(&id[..4])));
                }
                if st.canonical_result_bytes.len() as u64 > e.request.budget.max_settlement_bytes
                    || e.request.budget.max_settlement_bytes > 1_048_576
                {
                    cl.flag(format!("settlement-exceeds-bounds[{tag}]:{}", hex::encode(&id[..4])));
                }
                if Hash::from(blake3::hash(&st.canonical_result_bytes)) != st.result_digest {
                    cl.flag(format!("settlement-digest-unbound[{tag}]:{}", hex::encode(&id[..4])));
                }
            } else {
                cl.flag(format!("settlement-without-entry[{tag}]"));
            }
            let cur = (st.result_digest, a.settlement_commit_digest(), st.canonical_result_bytes.clone());
            if let Some(prev) = cl.admitted_seen.get(&(tag, id)) {
                if *prev != cur {
                    cl.flag(format!("settled-result-changed[{tag}]:{}", hex::encode(&id[..4])));
                }
            } else if is_retry {
                // a retry may only return something that is already retained: it must be in the index
                cl.checks += 1;
            }
            cl.admitted_seen.insert((tag, id), cur);
            if is_retry && n_after != commits_before {
                cl.flag(format!("retry-appended[{tag}]"));
            }
        }
        Res::Err(_) => {
            if fault == Fault::None && n_after != commits_before {
                cl.flag(format!("failed-op-committed[{tag}]:{what}"));
            }
        }
        _ => {}
    }
    if fault != Fault::None && matches!(r, Res::Token(_) | Res::Grant(_) | Res::Admitted(_)) && n_after == commits_before {
        cl.flag(format!("grant-without-commit[{tag}]:{what}"));
    }
}

fn hash_field(s: &str) -> Hash {
    hex32(s)
}

fn kind_of(s: &str) -> ExternalActionSettlementKindV1 {
    match s {
        "1" => ExternalActionSettlementKindV1::Succeeded,
        "2" => ExternalActionSettlementKindV1::Rejected,
        "3" => ExternalActionSettlementKindV1::Failed,
        _ => ExternalActionSettlementKindV1::OutcomeUnknown,
    }
}

fn u64_of_hex(s: &str) -> u64 {
    u64::from_str_radix(s, 16).unwrap_or(u64::MAX)
}

/// Runs one case over two systems with stores of type S.
fn run_case<S: TStore>(mut a: Sys<S>, mut b: Sys<S>, ops: &[&str]) -> String {
    let mut cl = Client::default();
    let mut out: Vec<String> = Vec::new();
    for (opi, op) in ops.iter().enumerate() {
        let f: Vec<&str> = op.split(':').collect();
        let on_b = f.len() > 1 && f[1] == "b";
        let what = format!("op{opi}:{}", f[0]);
        // client-only ops
        let res: Res;
        let mut touched = false;
        match f[0] {
            "new" => {
                let r = ExternalActionRequestV1::new(
                    WorldlineId::from_bytes(hash_field(f[1])),
                    ExternalActionOperationIdV1::from_hash(hash_field(f[2])),
                    hash_field(f[3]),
                    hash_field(f[4]),
                    hash_field(f[5]),
                    hash_field(f[6]),
                    ExternalActionBudgetV1 { max_settlement_bytes: u64_of_hex(f[7]), max_attempts: u64_of_hex(f[8]) as u32 },
                    hash_field(f[9]),
                    hash_field(f[10]),
                );
                res = match r {
                    Ok(r) => {
                        cl.reqs.push(r);
                        Res::Req(r)
                    }
                    Err(e) => Res::Err(e),
                };
            }
            "mut" => {
                let q: usize = f[1].parse().unwrap();
                res = if let Some(r) = cl.reqs.get(q).copied() {
                    let mut r = r;
                    match f[2] {
                        "worldline" => r.worldline_id = WorldlineId::from_bytes(hash_field(f[3])),
                        "op" => r.operation_id = ExternalActionOperationIdV1::from_hash(hash_field(f[3])),
                        "inschema" => r.input_schema_digest = hash_field(f[3]),
                        "setschema" => r.settlement_schema_digest = hash_field(f[3]),
                        "scope" => r.authority_scope_digest = hash_field(f[3]),
                        "basis" => r.basis_digest = hash_field(f[3]),
                        "maxbytes" => r.budget.max_settlement_bytes = u64_of_hex(f[3]),
                        "maxattempts" => r.budget.max_attempts = u64_of_hex(f[3]) as u32,
                        "input" => r.input_digest = hash_field(f[3]),
                        "recon" => r.reconciliation_law_digest = hash_field(f[3]),
                        other => panic!("field {other}"),
                    }
                    cl.reqs.push(r);
                    Res::Req(r)
                } else {
                    Res::Skip
                };
            }
            "auth" => {
                let q: usize = f[1].parse().unwrap();
                let adapter = ExternalActionAdapterIdV1::from_hash(hash_field(f[2]));
                let bindings: Vec<ExternalActionAdapterBindingV1> = f[3]
                    .split('+')
                    .filter(|x| !x.is_empty() && *x != "-")
                    .map(|b| {
                        let p: Vec<&str> = b.split(',').collect();
                        ExternalActionAdapterBindingV1 {
                            operation_id: ExternalActionOperationIdV1::from_hash(hash_field(p[0])),
                            authority_scope_digest: hash_field(p[1]),
                            adapter_id: ExternalActionAdapterIdV1::from_hash(hash_field(p[2])),
                        }
                    })
                    .collect();
                res = if let Some(r) = cl.reqs.get(q).copied() {
                    match ExternalActionAdapterRegistryV1::new(bindings).authorize(&r, adapter) {
                        Ok(au) => {
                            cl.auths.push(au);
                            Res::Auth(au)
                        }
                        Err(e) => Res::Err(e),
                    }
                } else {
                    Res::Skip
                };
            }
            "cand" => {
                let g: usize = f[1].parse().unwrap();
                res = if let Some(Some(gr)) = cl.grants.get(g) {
                    let rq = gr.request();
                    let c = gr.claim();
                    let mut cand = ExternalActionSettlementCandidateV1::new(
                        rq.request_id(),
                        c.attempt_id,
                        c.adapter_id,
                        kind_of(f[2]),
                        rq.settlement_schema_digest,
                        rq.basis_digest,
                        unhex(f[3]),
                        hash_field(f[4]),
                        hash_field(f[5]),
                    );
                    match f[6] {
                        "none" => {}
                        "requestof" => {
                            if let Some(o) = cl.reqs.get(f[7].parse::<usize>().unwrap()) {
                                cand.request_id = o.request_id();
                            }
                        }
                        "attempt" => cand.attempt_id = ExternalActionAttemptIdV1::from_hash(hash_field(f[7])),
                        "adapter" => cand.adapter_id = ExternalActionAdapterIdV1::from_hash(hash_field(f[7])),
                        "basis" => cand.basis_digest = hash_field(f[7]),
                        "schema" => cand.settlement_schema_digest = hash_field(f[7]),
                        "digest" => cand.declared_result_digest = hash_field(f[7]),
                        "schemaev" => cand.schema_admission_evidence_digest = hash_field(f[7]),
                        "extev" => cand.external_evidence_digest = hash_field(f[7]),
                        "bytes" => cand.canonical_result_bytes = unhex(f[7]),
                        other => panic!("cand mutation {other}"),
                    }
                    cl.cands.push(cand.clone());
                    Res::Cand(cand)
                } else {
                    Res::Skip
                };
            }
            _ => {
                touched = true;
                let s = if on_b { &mut b } else { &mut a };
                let ids = cl.ids();
                let cm0 = Commits { a: Vec::new(), b: Vec::new() };
                let _ = &cm0;
                let commits_before = s.store.read_commits().len();
                let mut fault = Fault::None;
                let mut is_claim = false;
                let mut is_retry = false;
                let label = format!("c17:{}:{}", s.tag, opi);
                // pre-state for the crash-point oracle (only meaningful when the coordinator is in sync)
                let pre_snap = s.store.snapshot();
                let r: Res = match f[0] {
                    "req" => {
                        fault = fault_of(f[3]);
                        match cl.reqs.get(f[2].parse::<usize>().unwrap()).copied() {
                            None => Res::Skip,
                            Some(rq) => {
                                s.store.arm(fault);
                                let ctx = s.store.ctx(&label);
                                let r = record_external_action_request(&mut s.store, &mut s.coord, ctx, rq);
                                s.store.disarm();
                                match r {
                                    Ok(t) => Res::Token(t),
                                    Err(e) => Res::Err(e),
                                }
                            }
                        }
                    }
                    "claim" => {
                        fault = fault_of(f[7]);
                        is_claim = true;
                        let t: usize = f[2].parse().unwrap();
                        let au: usize = f[3].parse().unwrap();
                        let have = cl.tokens.get(t).is_some_and(|x| x.is_some()) && cl.auths.get(au).is_some();
                        if !have {
                            Res::Skip
                        } else {
                            let tok = cl.tokens[t].take().unwrap();
                            let auth = cl.auths[au];
                            s.store.arm(fault);
                            let ctx = s.store.ctx(&label);
                            let r = claim_external_action(
                                &mut s.store,
                                &mut s.coord,
                                ctx,
                                tok,
                                auth,
                                hash_field(f[4]),
                                u64_of_hex(f[5]) as u32,
                                hash_field(f[6]),
                            );
                            s.store.disarm();
                            match r {
                                Ok(g) => Res::Grant(g),
                                Err(e) => Res::Err(e),
                            }
                        }
                    }
                    "settle" => {
                        fault = fault_of(f[4]);
                        let g: usize = f[2].parse().unwrap();
                        let c: usize = f[3].parse().unwrap();
                        let have = cl.grants.get(g).is_some_and(|x| x.is_some()) && cl.cands.get(c).is_some();
                        if !have {
                            Res::Skip
                        } else {
                            let gr = cl.grants[g].take().unwrap();
                            let cand = cl.cands[c].clone();
                            s.store.arm(fault);
                            let ctx = s.store.ctx(&label);
                            let r = admit_external_action_settlement(&mut s.store, &mut s.coord, ctx, gr, cand);
                            s.store.disarm();
                            match r {
                                Ok(x) => Res::Admitted(x),
                                Err(e) => Res::Err(e),
                            }
                        }
                    }
                    "retry" => {
                        is_retry = true;
                        match cl.cands.get(f[2].parse::<usize>().unwrap()).cloned() {
                            None => Res::Skip,
                            Some(cand) => match reconcile_external_action_settlement_retry(&s.coord, cand) {
                                Ok(x) => Res::Admitted(x),
                                Err(e) => Res::Err(e),
                            },
                        }
                    }
                    "rec" | "grant" | "adm" => match cl.reqs.get(f[2].parse::<usize>().unwrap()).copied() {
                        None => Res::Skip,
                        Some(rq) => match f[0] {
                            "rec" => match s.coord.recorded_request(rq.request_id()) {
                                Ok(t) => Res::Token(t),
                                Err(e) => Res::Err(e),
                            },
                            "grant" => match s.coord.claim_grant(rq.request_id()) {
                                Ok(g) => {
                                    if let Some(st) = s.coord.observed_index().get(rq.request_id()).and_then(|e| e.settlement.as_ref()) {
                                        cl.flag(format!("grant-after-settlement[{}]:{}:op", s.tag, kind_code(st.kind)));
                                    }
                                    Res::Grant(g)
                                }
                                Err(e) => Res::Err(e),
                            },
                            _ => match s.coord.admitted_settlement(rq.request_id()) {
                                Ok(x) => Res::Admitted(x),
                                Err(e) => Res::Err(e),
                            },
                        },
                    },
                    "recover" => {
                        s.store.reopen();
                        match ExternalActionCoordinatorV1::recover(&s.store) {
                            Ok(c) => {
                                s.coord = c;
                                Res::Ok
                            }
                            Err(e) => {
                                if is_ready(&s.coord) {
                                    cl.flag(format!("recover-failed-with-ready-coordinator[{}]:{}", s.tag, err_name(&e)));
                                }
                                Res::Err(e)
                            }
                        }
                    }
                    "trunc" => {
                        s.store.truncate_tail();
                        Res::Ok
                    }
                    other => panic!("op {other}"),
                };
                if fault == Fault::Torn && matches!(r, Res::Err(PErr::WalStore(_))) {
                    s.store.tear();
                }
                // pre-op view (for crash points): recompute from a coordinator recovered from the pre snapshot
                // is not possible for fs without a copy, so use the live view taken lazily below.
                let _ = ids;
                // stash for post-processing
                res = r;
                let s = if on_b { &b } else { &a };
                let cm = Commits { a: commits_of(&a.store), b: commits_of(&b.store) };
                note_result(s, &mut cl, &res, &what, commits_before, fault, is_claim, is_retry);
                // crash-point oracle only for transactions that were committed by this op
                let wrote = s.store.read_commits().len() == commits_before + 1;
                let pre_view = if wrote { pre_view_of(s, &pre_snap, &cl.ids(), &cm) } else { None };
                oracle_after(s, &mut cl, &cm, pre_view.as_deref().unwrap_or(""), if pre_view.is_some() { Some(&pre_snap) } else { None }, &what);
            }
        }
        let cm = Commits { a: commits_of(&a.store), b: commits_of(&b.store) };
        let rs = render_res(&res, &cm);
        let ids = cl.ids();
        let st = if on_b { state_line(&b, &ids, &cm, false) } else { state_line(&a, &ids, &cm, false) };
        let _ = touched;
        match res {
            Res::Token(t) => cl.tokens.push(Some(t)),
            Res::Grant(g) => cl.grants.push(Some(g)),
            _ => {}
        }
        out.push(format!("{rs}@{st}"));
    }
    // final: recover both stores once more and print the full view
    let cm = Commits { a: commits_of(&a.store), b: commits_of(&b.store) };
    let ids = cl.ids();
    let fin = |s: &Sys<S>| -> String {
        match ExternalActionCoordinatorV1::recover(&s.store) {
            Ok(c) => {
                let tmp = Sys2 { coord: &c, store: &s.store };
                format!("ok@{}", tmp.line(&ids, &cm))
            }
            Err(e) => {
                let tmp = Sys2 { coord: &s.coord, store: &s.store };
                format!("err:{}@{}", err_name(&e), tmp.line(&ids, &cm))
            }
        }
    };
    let fa = fin(&a);
    let fb = fin(&b);
    let orc = if cl.flags.is_empty() { "ok".to_string() } else { format!("FAIL:{}", cl.flags.join(",")) };
    format!("res={} final={}~{} oracle={} checks={}", out.join("|"), fa, fb, orc, cl.checks)
}

struct Sys2<'a, S: TStore> {
    coord: &'a ExternalActionCoordinatorV1,
    store: &'a S,
}
impl<S: TStore> Sys2<'_, S> {
    fn line(&self, ids: &[ExternalActionRequestIdV1], cm: &Commits) -> String {
        let (d, _) = dump(self.coord, ids, cm, true);
        format!(
            "{},{},{},{},[{}]",
            hex::encode(self.coord.observed_index().root_digest()),
            if is_ready(self.coord) { 1 } else { 0 },
            self.store.read_commits().len(),
            tail_len(self.store),
            d
        )
    }
}

/// Full view of the state before the last committed transaction: recover from the pre snapshot.
fn pre_view_of<S: TStore>(s: &Sys<S>, pre: &Snapshot, ids: &[ExternalActionRequestIdV1], cm: &Commits) -> Option<String> {
    match pre {
        Snapshot::Mem(m) => ExternalActionCoordinatorV1::recover(m).ok().map(|c| full_view(&c, ids, cm)),
        Snapshot::Fs(bytes) => {
            let _ = s;
            let dir = std::env::temp_dir().join(format!("C17-pre-{}", std::process::id()));
            let _ = std::fs::remove_dir_all(&dir);
            let st = FilesystemWalStore::open(&dir, WalSegmentId::from_raw(1)).ok()?;
            std::fs::write(st.segment_path(), bytes).ok()?;
            let r = ExternalActionCoordinatorV1::recover(&st).ok().map(|c| full_view(&c, ids, cm));
            drop(st);
            let _ = std::fs::remove_dir_all(&dir);
            r
        }
    }
}

fn main() {
    let base = std::env::temp_dir().join(format!("C17-{}", std::process::id()));
    for (ci, line) in read_cases().iter().enumerate() {
        let m = kv(line);
        let ops: Vec<&str> = items(m.get("ops").map(String::as_str).unwrap_or("-"));
        let kind = m.get("store").map(String::as_str).unwrap_or("mem");
        let r = catch(std::panic::AssertUnwindSafe(|| match kind {
            "fs" => {
                let ra = base.join(format!("{ci}-a"));
                let rb = base.join(format!("{ci}-b"));
                let _ = std::fs::remove_dir_all(&ra);
                let _ = std::fs::remove_dir_all(&rb);
                let sa = FsStore::new(ra.clone());
                let sb = FsStore::new(rb.clone());
                let ca = ExternalActionCoordinatorV1::recover(&sa).expect("recover a");
                let cb = ExternalActionCoordinatorV1::recover(&sb).expect("recover b");
                let out = run_case(Sys { store: sa, coord: ca, tag: 'a' }, Sys { store: sb, coord: cb, tag: 'b' }, &ops);
                let _ = std::fs::remove_dir_all(&ra);
                let _ = std::fs::remove_dir_all(&rb);
                out
            }
            _ => {
                let sa = MemStore::new("a");
                let sb = MemStore::new("b");
                let ca = ExternalActionCoordinatorV1::recover(&sa).expect("recover a");
                let cb = ExternalActionCoordinatorV1::recover(&sb).expect("recover b");
                run_case(Sys { store: sa, coord: ca, tag: 'a' }, Sys { store: sb, coord: cb, tag: 'b' }, &ops)
            }
        }));
        match r {
            Ok(s) => println!("{s}"),
            Err(p) => println!("res=PANIC final=- oracle=FAIL:panic:{} checks=0", p.replace([' ', '|', '\n'], "_")),
        }
    }
    let _ = std::fs::remove_dir_all(&base);
}
