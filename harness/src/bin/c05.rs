//! C05 harness: hash-chained, tamper-evident history on REAL histories.
//!
//! A case builds a real multi-worldline history by driving a `WorldlineRuntime` through
//! `SchedulerCoordinator::super_tick` (one registered interpreter rule, generated intents), then enumerates
//! EVERY single-field alteration of every retained entry field at every position (each hash of the triplet, tick,
//! worldline, parents, head, kind, every patch header field, every op field, every atom payload byte, every slot,
//! receipt entries, outputs) plus entry swap / duplication / removal / truncation / cross-worldline transplant,
//! checkpoint and BTR and suffix-bundle field alterations, and feeds the altered material to the real verifiers:
//! `PlaybackCursor::seek_to` over a tampering `ProvenanceStore` view, `ProvenanceService::replay_worldline_state_at`
//! over a service rebuilt by `append_local_commit`, `validate_btr`, `add_checkpoint`, `import_suffix`.
//!
//! case:   id=<n> wls=<1|2> prog=<tick>/<tick>/...  (tick = `-` or `<wl>.<hex program>,<wl>.<hex>`) [cps=<t,t>] [only=<w>]
//! output: `E ...` one line per real entry (all retained fields, for the model), `M ...` one line per alteration,
//!         `R id=<n> ... oracle=<ok|FAIL:sig,...>` one summary line per case.
use echo_verif_harness::*;
use std::collections::BTreeMap;
use warp_core::{
    compute_commit_hash_v2, derive_witnessed_suffix_shell_digest, import_suffix, make_edge_id, make_head_id,
    make_intent_kind, make_node_id, make_type_id, AtomPayload, AtomWrite, AttachmentKey, AttachmentOwner,
    AttachmentPlane, AttachmentValue, BoundaryTransitionRecord, BtrError, CausalSuffixBundle, CheckpointRef,
    ConflictPolicy, CursorId, CursorRole, EdgeId, EdgeKey, EdgeRecord, Engine, EngineBuilder, Footprint, GlobalTick,
    GraphStore, GraphView, Hash, HistoryError, ImportSuffixRequest, InboxPolicy, IngressEnvelope, IngressTarget,
    NodeId, NodeKey, NodeRecord, PatternGraph, PlaybackCursor, PlaybackMode, PortalInit, ProvenanceEntry,
    ProvenanceEventKind, ProvenanceRef, ProvenanceService, ProvenanceStore, ReplayCheckpoint, ReplayError,
    RewriteRule, SchedulerCoordinator, SchedulerKind, SeekError, SlotId, TickDelta, TickReceipt,
    TickReceiptDisposition, TickReceiptRejection, TxId, TypeId, WarpId, WarpOp, WitnessedSuffixAdmissionContext,
    WitnessedSuffixAdmissionOutcome, WitnessedSuffixAdmissionRequest, WitnessedSuffixLocalAdmissionPosture,
    WitnessedSuffixShell, WorldlineId, WorldlineRuntime, WorldlineState, WorldlineTick, WriterHead, WriterHeadKey,
};

const NK: u8 = 8;

fn wl(n: u8) -> WorldlineId {
    WorldlineId::from_bytes([n; 32])
}
fn wt(t: u64) -> WorldlineTick {
    WorldlineTick::from_raw(t)
}
fn root_id() -> NodeId {
    make_node_id("root")
}
fn node_k(k: u8) -> NodeId {
    make_node_id(&format!("vf/n{k}"))
}
fn node_of(k: u8) -> NodeId {
    if k == 255 {
        root_id()
    } else {
        node_k(k)
    }
}
fn edge_ab(a: u8, b: u8) -> EdgeId {
    make_edge_id(&format!("vf/e/{a}/{b}"))
}
fn hx(h: &[u8; 32]) -> String {
    hex::encode(h)
}
fn h8(h: &[u8; 32]) -> String {
    hex::encode(&h[..4])
}
fn flip(h: &Hash) -> Hash {
    let mut x = *h;
    x[31] ^= 1;
    x
}

// ------------------------------------------------------------------------------------------- the rule (as C07)

fn program<'a>(view: GraphView<'a>, scope: &NodeId) -> Option<&'a [u8]> {
    match view.node_attachment(scope) {
        Some(AttachmentValue::Atom(p)) if p.bytes.len() >= 2 && &p.bytes[..2] == b"VF" => Some(&p.bytes[2..]),
        _ => None,
    }
}

#[derive(Clone, Debug)]
enum MiniOp {
    Nop,
    Node(u8, u8),
    SetAtt(u8, Vec<u8>),
    ClrAtt(u8),
    Edge(u8, u8),
    DelEdge(u8, u8),
    DelNode(u8),
}

fn decode(prog: &[u8]) -> Vec<MiniOp> {
    let mut out = Vec::new();
    let mut i = 0usize;
    let nk = |b: u8| if b == 255 { 255 } else { b % NK };
    while i < prog.len() {
        let op = prog[i];
        let arg = |j: usize| prog.get(i + j).copied().unwrap_or(0);
        match op {
            0 => {
                out.push(MiniOp::Nop);
                i += 2;
            }
            1 => {
                out.push(MiniOp::Node(arg(1) % NK, arg(2)));
                i += 3;
            }
            2 => {
                let n = (arg(2) as usize).min(16);
                let data = prog.get(i + 3..(i + 3 + n).min(prog.len())).unwrap_or(&[]).to_vec();
                out.push(MiniOp::SetAtt(nk(arg(1)), data));
                i += 3 + n;
            }
            3 => {
                out.push(MiniOp::ClrAtt(nk(arg(1))));
                i += 2;
            }
            4 => {
                out.push(MiniOp::Edge(arg(1) % NK, arg(2) % NK));
                i += 3;
            }
            5 => {
                out.push(MiniOp::DelEdge(arg(1) % NK, arg(2) % NK));
                i += 3;
            }
            6 => {
                out.push(MiniOp::DelNode(arg(1) % NK));
                i += 2;
            }
            _ => {
                i += 1;
            }
        }
    }
    out
}

fn interp_matches(view: GraphView<'_>, scope: &NodeId) -> bool {
    program(view, scope).is_some()
}

fn interp_footprint(view: GraphView<'_>, scope: &NodeId) -> Footprint {
    let warp = view.warp_id();
    let mut fp = Footprint::default();
    fp.n_read.insert_with_warp(warp, *scope);
    fp.a_read.insert(AttachmentKey::node_alpha(NodeKey { warp_id: warp, local_id: *scope }));
    let Some(prog) = program(view, scope) else {
        return fp;
    };
    let node = |fp: &mut Footprint, k: u8| {
        let id = node_of(k);
        fp.n_read.insert_with_warp(warp, id);
        fp.n_write.insert_with_warp(warp, id);
        let key = AttachmentKey::node_alpha(NodeKey { warp_id: warp, local_id: id });
        fp.a_read.insert(key);
        fp.a_write.insert(key);
    };
    let edge = |fp: &mut Footprint, a: u8, b: u8| {
        let id = edge_ab(a, b);
        fp.e_read.insert_with_warp(warp, id);
        fp.e_write.insert_with_warp(warp, id);
        let key = AttachmentKey::edge_beta(EdgeKey { warp_id: warp, local_id: id });
        fp.a_read.insert(key);
        fp.a_write.insert(key);
    };
    for op in decode(prog) {
        match op {
            MiniOp::Nop => {}
            MiniOp::Node(k, _) => {
                node(&mut fp, k);
                node(&mut fp, 255);
                edge(&mut fp, 255, k);
            }
            MiniOp::SetAtt(k, _) | MiniOp::ClrAtt(k) => node(&mut fp, k),
            MiniOp::Edge(a, b) | MiniOp::DelEdge(a, b) => {
                node(&mut fp, a);
                node(&mut fp, b);
                edge(&mut fp, a, b);
            }
            MiniOp::DelNode(k) => {
                node(&mut fp, k);
                node(&mut fp, 255);
                edge(&mut fp, 255, k);
                for a in 0..NK {
                    node(&mut fp, a);
                    edge(&mut fp, a, k);
                    edge(&mut fp, k, a);
                }
            }
        }
    }
    fp
}

fn interp_executor(view: GraphView<'_>, scope: &NodeId, delta: &mut TickDelta) {
    let warp = view.warp_id();
    let Some(prog) = program(view, scope) else {
        return;
    };
    let nkey = |k: u8| NodeKey { warp_id: warp, local_id: node_of(k) };
    for op in decode(prog) {
        match op {
            MiniOp::Nop => {}
            MiniOp::Node(k, ty) => {
                delta.push(WarpOp::UpsertNode {
                    node: nkey(k),
                    record: NodeRecord { ty: make_type_id(&format!("vf/ty{ty}")) },
                });
                if !view.has_edge(&edge_ab(255, k)) {
                    delta.push(WarpOp::UpsertEdge {
                        warp_id: warp,
                        record: EdgeRecord {
                            id: edge_ab(255, k),
                            from: root_id(),
                            to: node_k(k),
                            ty: make_type_id("vf/child"),
                        },
                    });
                }
            }
            MiniOp::SetAtt(k, data) => {
                if view.node(&node_of(k)).is_some() {
                    delta.push(WarpOp::SetAttachment {
                        key: AttachmentKey::node_alpha(nkey(k)),
                        value: Some(AttachmentValue::Atom(AtomPayload::new(make_type_id("vf/att"), data.into()))),
                    });
                }
            }
            MiniOp::ClrAtt(k) => {
                if view.node(&node_of(k)).is_some() && view.node_attachment(&node_of(k)).is_some() {
                    delta.push(WarpOp::SetAttachment { key: AttachmentKey::node_alpha(nkey(k)), value: None });
                }
            }
            MiniOp::Edge(a, b) => {
                if a != b && view.node(&node_k(a)).is_some() && view.node(&node_k(b)).is_some() {
                    delta.push(WarpOp::UpsertEdge {
                        warp_id: warp,
                        record: EdgeRecord {
                            id: edge_ab(a, b),
                            from: node_k(a),
                            to: node_k(b),
                            ty: make_type_id("vf/link"),
                        },
                    });
                }
            }
            MiniOp::DelEdge(a, b) => {
                if view.has_edge(&edge_ab(a, b)) {
                    delta.push(WarpOp::DeleteEdge { warp_id: warp, from: node_k(a), edge_id: edge_ab(a, b) });
                }
            }
            MiniOp::DelNode(k) => {
                if view.node(&node_k(k)).is_some() {
                    if view.has_edge(&edge_ab(255, k)) {
                        delta.push(WarpOp::DeleteEdge { warp_id: warp, from: root_id(), edge_id: edge_ab(255, k) });
                    }
                    for a in 0..NK {
                        if view.has_edge(&edge_ab(a, k)) {
                            delta.push(WarpOp::DeleteEdge { warp_id: warp, from: node_k(a), edge_id: edge_ab(a, k) });
                        }
                        if a != k && view.has_edge(&edge_ab(k, a)) {
                            delta.push(WarpOp::DeleteEdge { warp_id: warp, from: node_k(k), edge_id: edge_ab(k, a) });
                        }
                    }
                    delta.push(WarpOp::DeleteNode { node: nkey(k) });
                }
            }
        }
    }
}

fn interp_rule() -> RewriteRule {
    RewriteRule {
        id: make_type_id("rule:cmd/vf-interp").0,
        name: "cmd/vf-interp",
        left: PatternGraph { nodes: vec![] },
        matcher: interp_matches,
        executor: interp_executor,
        compute_footprint: interp_footprint,
        factor_mask: 0,
        conflict_policy: ConflictPolicy::Abort,
        join_fn: None,
    }
}

// ------------------------------------------------------------------------------------------- world

struct World {
    provenance: ProvenanceService,
    wls: Vec<WorldlineId>,
    /// live[w][t] = worldline state the runtime held at worldline tick t (t = 0 is the registered base)
    live: Vec<Vec<WorldlineState>>,
    flags: Vec<String>,
}

fn new_engine() -> Engine {
    let mut store = GraphStore::default();
    let root = root_id();
    store.insert_node(root, NodeRecord { ty: make_type_id("world") });
    let mut engine = EngineBuilder::new(store, root).scheduler(SchedulerKind::Radix).workers(1).build();
    engine.register_rule(interp_rule()).expect("register rule");
    engine
}

fn build_world(nwl: usize, nheads: usize, prog: &str) -> World {
    let mut runtime = WorldlineRuntime::new();
    let mut engine = new_engine();
    let mut wls = Vec::new();
    let mut live = Vec::new();
    let mut flags = Vec::new();
    for i in 0..nwl {
        let id = wl(i as u8 + 1);
        let base = WorldlineState::empty();
        runtime.register_worldline(id, base.clone()).expect("register worldline");
        runtime
            .register_writer_head(WriterHead::with_routing(
                WriterHeadKey { worldline_id: id, head_id: make_head_id("default") },
                PlaybackMode::Play,
                InboxPolicy::AcceptAll,
                None,
                true,
            ))
            .expect("register head");
        // further writer heads on the same worldline (not default writers; reached through ExactHead targets): two heads
        // with work in one SuperTick commit twice on the worldline in that pass
        for h in 1..nheads {
            runtime
                .register_writer_head(WriterHead::with_routing(
                    WriterHeadKey { worldline_id: id, head_id: make_head_id(&format!("h{h}")) },
                    PlaybackMode::Play,
                    InboxPolicy::AcceptAll,
                    None,
                    false,
                ))
                .expect("register extra head");
        }
        wls.push(id);
        live.push(vec![base]);
    }
    let mut provenance = ProvenanceService::new();
    for (id, frontier) in runtime.worldlines().iter() {
        provenance.register_worldline(*id, frontier.state()).expect("register provenance");
    }
    for tick in prog.split('/') {
        if tick == "-" || tick.is_empty() {
            continue;
        }
        for intent in tick.split(',') {
            let (w, hexprog) = intent.split_once('.').expect("intent");
            // "<w>" = default writer of worldline w, "<w>h<k>" = extra head k of worldline w
            let (w, h) = match w.split_once('h') {
                Some((w, h)) => (w, h.parse::<usize>().expect("head index")),
                None => (w, 0),
            };
            let w: usize = w.parse().expect("wl index");
            if w >= nwl || h >= nheads.max(1) {
                continue;
            }
            let mut bytes = b"VF".to_vec();
            bytes.extend(unhex(hexprog));
            let target = if h == 0 {
                IngressTarget::DefaultWriter { worldline_id: wls[w] }
            } else {
                IngressTarget::ExactHead { key: WriterHeadKey { worldline_id: wls[w], head_id: make_head_id(&format!("h{h}")) } }
            };
            let env = IngressEnvelope::local_intent(target, make_intent_kind("vf/prog"), bytes);
            let _ = runtime.ingest(env);
        }
        match SchedulerCoordinator::super_tick(&mut runtime, &mut provenance, &mut engine) {
            Ok(records) => {
                for (ri, rec) in records.iter().enumerate() {
                    let w = wls.iter().position(|x| *x == rec.head_key.worldline_id).expect("wl");
                    // the frontier holds the state after the LAST commit of this pass on the worldline; the state after an
                    // earlier commit of the same pass (another head of the worldline committed later) is re-materialized
                    // from the untampered history and anchored to the live step record's root below
                    let later = records[ri + 1..].iter().any(|r| r.head_key.worldline_id == rec.head_key.worldline_id);
                    let st = if later {
                        match provenance.replay_worldline_state_at(wls[w], &live[w][0], wt(live[w].len() as u64)) {
                            Ok(st) => st,
                            Err(e) => {
                                flags.push(format!("untampered-intermediate-commit-does-not-replay@{}:{}", live[w].len(), replay_err(&e)));
                                runtime.worldlines().get(&wls[w]).expect("frontier").state().clone()
                            }
                        }
                    } else {
                        runtime.worldlines().get(&wls[w]).expect("frontier").state().clone()
                    };
                    if st.state_root() != rec.state_root {
                        flags.push(format!("live-root-differs-from-step-record@{}", live[w].len()));
                    }
                    live[w].push(st);
                }
            }
            Err(e) => {
                flags.push(format!("NOTE-super-tick-error:{}", format!("{e:?}").chars().take(40).collect::<String>()));
                break;
            }
        }
    }
    World { provenance, wls, live, flags }
}

// ------------------------------------------------------------------------------------------- dumps

/// Canonical dump of the REACHABLE part of the root warp store (what the state root commits to, merkle-commit.md
/// decision 1): nodes reachable from the root node over outbound edges, their edges and attachments.
/// Unreachable residue (ingress bookkeeping) is reported separately as a count.
fn dump_store(state: &WorldlineState) -> String {
    let warp = state.root().warp_id;
    let mut out: Vec<String> = Vec::new();
    if let Some(store) = state.store(&warp) {
        let mut adj: BTreeMap<[u8; 32], Vec<EdgeRecord>> = BTreeMap::new();
        for (from, edges) in store.iter_edges() {
            adj.entry(from.0).or_default().extend(edges.iter().cloned());
        }
        let mut seen: std::collections::BTreeSet<[u8; 32]> = std::collections::BTreeSet::new();
        let mut queue = vec![state.root().local_id.0];
        while let Some(n) = queue.pop() {
            if !seen.insert(n) {
                continue;
            }
            if let Some(es) = adj.get(&n) {
                for e in es {
                    queue.push(e.to.0);
                }
            }
        }
        let mut edge_ids: std::collections::BTreeSet<[u8; 32]> = std::collections::BTreeSet::new();
        for (id, rec) in store.iter_nodes() {
            if seen.contains(&id.0) {
                out.push(format!("n{}={}", hx(&id.0), hx(&rec.ty.0)));
            }
        }
        for (from, edges) in store.iter_edges() {
            if seen.contains(&from.0) {
                for e in edges {
                    edge_ids.insert(e.id.0);
                    out.push(format!("e{}={}.{}.{}", hx(&e.id.0), hx(&from.0), hx(&e.to.0), hx(&e.ty.0)));
                }
            }
        }
        let att = |v: &AttachmentValue| match v {
            AttachmentValue::Atom(p) => format!("{}.{}", hx(&p.type_id.0), tohex(&p.bytes)),
            AttachmentValue::Descend(w) => format!("d{}", hx(&w.0)),
        };
        for (id, v) in store.iter_node_attachments() {
            if seen.contains(&id.0) {
                out.push(format!("a{}={}", hx(&id.0), att(v)));
            }
        }
        for (id, v) in store.iter_edge_attachments() {
            if edge_ids.contains(&id.0) {
                out.push(format!("b{}={}", hx(&id.0), att(v)));
            }
        }
    }
    out.sort();
    out.join(",")
}

/// interning of graph dumps into small state ids (0 = the first state interned, i.e. U0)
#[derive(Default)]
struct Intern {
    map: BTreeMap<String, usize>,
}
impl Intern {
    fn id(&mut self, st: &WorldlineState) -> usize {
        let d = dump_store(st);
        let n = self.map.len();
        *self.map.entry(d).or_insert(n)
    }
}

// ------------------------------------------------------------------------------------------- entry serialisation

fn s_akey(k: &AttachmentKey) -> String {
    let (o, w, l) = match k.owner {
        AttachmentOwner::Node(n) => ('n', n.warp_id.0, n.local_id.0),
        AttachmentOwner::Edge(e) => ('e', e.warp_id.0, e.local_id.0),
    };
    let p = match k.plane {
        AttachmentPlane::Alpha => 'a',
        AttachmentPlane::Beta => 'b',
    };
    format!("{o}{p}/{}/{}", hx(&w), hx(&l))
}
fn s_aval(v: &Option<AttachmentValue>) -> String {
    match v {
        None => "N".into(),
        Some(AttachmentValue::Atom(p)) => format!("A/{}/{}", hx(&p.type_id.0), tohex(&p.bytes)),
        Some(AttachmentValue::Descend(w)) => format!("D/{}", hx(&w.0)),
    }
}
fn s_op(op: &WarpOp) -> String {
    match op {
        WarpOp::OpenPortal { key, child_warp, child_root, init } => format!(
            "OP:{}:{}:{}:{}",
            s_akey(key),
            hx(&child_warp.0),
            hx(&child_root.0),
            match init {
                PortalInit::RequireExisting => "R".to_string(),
                PortalInit::Empty { root_record } => format!("E/{}", hx(&root_record.ty.0)),
            }
        ),
        WarpOp::UpsertWarpInstance { instance } => format!(
            "UW:{}:{}:{}",
            hx(&instance.warp_id.0),
            hx(&instance.root_node.0),
            instance.parent.as_ref().map(s_akey).unwrap_or_else(|| "N".into())
        ),
        WarpOp::DeleteWarpInstance { warp_id } => format!("DW:{}", hx(&warp_id.0)),
        WarpOp::UpsertNode { node, record } => {
            format!("UN:{}:{}:{}", hx(&node.warp_id.0), hx(&node.local_id.0), hx(&record.ty.0))
        }
        WarpOp::DeleteNode { node } => format!("DN:{}:{}", hx(&node.warp_id.0), hx(&node.local_id.0)),
        WarpOp::UpsertEdge { warp_id, record } => format!(
            "UE:{}:{}:{}:{}:{}",
            hx(&warp_id.0),
            hx(&record.from.0),
            hx(&record.id.0),
            hx(&record.to.0),
            hx(&record.ty.0)
        ),
        WarpOp::DeleteEdge { warp_id, from, edge_id } => {
            format!("DE:{}:{}:{}", hx(&warp_id.0), hx(&from.0), hx(&edge_id.0))
        }
        WarpOp::SetAttachment { key, value } => format!("SA:{}:{}", s_akey(key), s_aval(value)),
    }
}
fn s_slot(s: &SlotId) -> String {
    match s {
        SlotId::Node(k) => format!("N:{}:{}", hx(&k.warp_id.0), hx(&k.local_id.0)),
        SlotId::Edge(k) => format!("E:{}:{}", hx(&k.warp_id.0), hx(&k.local_id.0)),
        SlotId::Attachment(k) => format!("A:{}", s_akey(k)),
        SlotId::Port((w, p)) => format!("P:{}:{}", hx(&w.0), p),
    }
}
fn join<T>(v: &[T], f: impl Fn(&T) -> String, sep: &str) -> String {
    if v.is_empty() {
        "-".into()
    } else {
        v.iter().map(f).collect::<Vec<_>>().join(sep)
    }
}
fn disp_code(d: TickReceiptDisposition) -> u8 {
    match d {
        TickReceiptDisposition::Applied => 1,
        TickReceiptDisposition::Rejected(TickReceiptRejection::FootprintConflict) => 2,
        TickReceiptDisposition::Rejected(TickReceiptRejection::ExecutableOperationObstruction) => 3,
    }
}
fn kind_code(k: &ProvenanceEventKind) -> u8 {
    match k {
        ProvenanceEventKind::LocalCommit => 0,
        ProvenanceEventKind::CrossWorldlineMessage { .. } => 1,
        ProvenanceEventKind::MergeImport { .. } => 2,
        ProvenanceEventKind::ConflictArtifact { .. } => 3,
        ProvenanceEventKind::PluralArtifact { .. } => 4,
    }
}

/// every retained field of an entry, space-free
fn s_entry(e: &ProvenanceEntry) -> String {
    let head = match &e.head_key {
        None => "-".to_string(),
        Some(h) => format!("{}.{}", hx(h.worldline_id.as_bytes()), hx(h.head_id.as_bytes())),
    };
    let parents = join(
        &e.parents,
        |p| format!("{}.{}.{}", hx(p.worldline_id.as_bytes()), p.worldline_tick.as_u64(), hx(&p.commit_hash)),
        ",",
    );
    let patch = match &e.patch {
        None => "-".to_string(),
        Some(p) => format!(
            "{}|{}|{}|{}|{}|{}|{}|{}|{}|{}|{}",
            p.header.commit_global_tick.as_u64(),
            p.header.policy_id,
            hx(&p.header.rule_pack_id),
            hx(&p.header.plan_digest),
            hx(&p.header.decision_digest),
            hx(&p.header.rewrites_digest),
            hx(&p.warp_id.0),
            hx(&p.patch_digest),
            join(&p.ops, s_op, ";"),
            join(&p.in_slots, s_slot, ";"),
            join(&p.out_slots, s_slot, ";"),
        ),
    };
    let receipt = match &e.tick_receipt {
        None => "-".to_string(),
        Some(r) => format!(
            "{}|{}|{}",
            r.tx().value(),
            join(
                r.entries(),
                |x| format!(
                    "{}.{}.{}.{}.{}",
                    hx(&x.rule_id),
                    hx(&x.scope_hash),
                    hx(&x.scope.warp_id.0),
                    hx(&x.scope.local_id.0),
                    disp_code(x.disposition)
                ),
                ";"
            ),
            (0..r.entries().len())
                .map(|i| join(r.blocked_by(i), |b| b.to_string(), "."))
                .collect::<Vec<_>>()
                .join(";"),
        ),
    };
    format!(
        "wl={} tick={} gtick={} head={} parents={} kind={} root={} pdig={} commit={} patch={} receipt={} outs={} atoms={}",
        hx(e.worldline_id.as_bytes()),
        e.worldline_tick.as_u64(),
        e.commit_global_tick.as_u64(),
        head,
        parents,
        kind_code(&e.event_kind),
        hx(&e.expected.state_root),
        hx(&e.expected.patch_digest),
        hx(&e.expected.commit_hash),
        patch,
        receipt,
        join(&e.outputs, |(c, d)| format!("{}.{}", hx(&c.0), tohex(d)), ","),
        e.atom_writes.len()
    )
}

// ------------------------------------------------------------------------------------------- alterations

#[derive(Clone)]
struct Alt {
    /// full name incl. position / indices
    name: String,
    /// stable class (no indices) used in violation signatures
    class: String,
    /// the altered history of the worldline under test
    hist: Vec<ProvenanceEntry>,
    /// index of the single altered entry (None for structural edits)
    pos: Option<usize>,
    /// how the altered history is assembled: `b<i>` own original entry, `o<j>` other worldline's entry, `m` altered entry
    spec: Vec<String>,
}

fn op_ids(op: &mut WarpOp) -> Vec<&mut Hash> {
    fn ak(k: &mut AttachmentKey) -> Vec<&mut Hash> {
        match &mut k.owner {
            AttachmentOwner::Node(n) => vec![&mut n.warp_id.0, &mut n.local_id.0],
            AttachmentOwner::Edge(e) => vec![&mut e.warp_id.0, &mut e.local_id.0],
        }
    }
    match op {
        WarpOp::OpenPortal { key, child_warp, child_root, init } => {
            let mut v = ak(key);
            v.push(&mut child_warp.0);
            v.push(&mut child_root.0);
            if let PortalInit::Empty { root_record } = init {
                v.push(&mut root_record.ty.0);
            }
            v
        }
        WarpOp::UpsertWarpInstance { instance } => {
            let mut v = vec![&mut instance.warp_id.0, &mut instance.root_node.0];
            if let Some(k) = instance.parent.as_mut() {
                v.extend(ak(k));
            }
            v
        }
        WarpOp::DeleteWarpInstance { warp_id } => vec![&mut warp_id.0],
        WarpOp::UpsertNode { node, record } => vec![&mut node.warp_id.0, &mut node.local_id.0, &mut record.ty.0],
        WarpOp::DeleteNode { node } => vec![&mut node.warp_id.0, &mut node.local_id.0],
        WarpOp::UpsertEdge { warp_id, record } => {
            vec![&mut warp_id.0, &mut record.from.0, &mut record.id.0, &mut record.to.0, &mut record.ty.0]
        }
        WarpOp::DeleteEdge { warp_id, from, edge_id } => vec![&mut warp_id.0, &mut from.0, &mut edge_id.0],
        WarpOp::SetAttachment { key, value } => {
            let mut v = ak(key);
            match value {
                Some(AttachmentValue::Atom(p)) => v.push(&mut p.type_id.0),
                Some(AttachmentValue::Descend(w)) => v.push(&mut w.0),
                None => {}
            }
            v
        }
    }
}

fn slot_ids(s: &mut SlotId) -> Vec<&mut Hash> {
    match s {
        SlotId::Node(k) => vec![&mut k.warp_id.0, &mut k.local_id.0],
        SlotId::Edge(k) => vec![&mut k.warp_id.0, &mut k.local_id.0],
        SlotId::Attachment(k) => match &mut k.owner {
            AttachmentOwner::Node(n) => vec![&mut n.warp_id.0, &mut n.local_id.0],
            AttachmentOwner::Edge(e) => vec![&mut e.warp_id.0, &mut e.local_id.0],
        },
        SlotId::Port((w, _)) => vec![&mut w.0],
    }
}

fn bogus_node(warp: WarpId) -> WarpOp {
    WarpOp::UpsertNode {
        node: NodeKey { warp_id: warp, local_id: make_node_id("vf/tamper-x") },
        record: NodeRecord { ty: make_type_id("vf/tamper") },
    }
}

fn rebuild_receipt(r: &TickReceipt, tx: u64, f: impl Fn(&mut Vec<warp_core::TickReceiptEntry>, &mut Vec<Vec<u32>>)) -> Option<TickReceipt> {
    let mut entries = r.entries().to_vec();
    let mut blocked: Vec<Vec<u32>> = (0..entries.len()).map(|i| r.blocked_by(i).to_vec()).collect();
    f(&mut entries, &mut blocked);
    TickReceipt::try_from_retained_parts(TxId::from_raw(tx), entries, blocked).ok()
}

/// all single-field alterations of one entry: (name, class, altered entry)
fn entry_alterations(e: &ProvenanceEntry, other_wl: WorldlineId, warp: WarpId, thorough: bool) -> Vec<(String, String, ProvenanceEntry)> {
    let mut out: Vec<(String, String, ProvenanceEntry)> = Vec::new();
    let mut add = |name: String, class: &str, x: ProvenanceEntry| {
        if &x != e {
            out.push((name, class.to_string(), x));
        }
    };
    macro_rules! alt {
        ($name:expr, $class:expr, |$x:ident| $body:block) => {{
            let mut $x = e.clone();
            $body
            add($name, $class, $x);
        }};
    }
    alt!("root".into(), "state-root", |x| { x.expected.state_root = flip(&x.expected.state_root); });
    alt!("pdig".into(), "patch-digest", |x| { x.expected.patch_digest = flip(&x.expected.patch_digest); });
    alt!("commit".into(), "commit-hash", |x| { x.expected.commit_hash = flip(&x.expected.commit_hash); });
    alt!("tick+1".into(), "entry-tick", |x| { x.worldline_tick = wt(x.worldline_tick.as_u64() + 1); });
    alt!("tick=7777".into(), "entry-tick", |x| { x.worldline_tick = wt(7777); });
    alt!("wl".into(), "entry-worldline", |x| { x.worldline_id = other_wl; });
    alt!("gtick".into(), "entry-global-tick", |x| { x.commit_global_tick = GlobalTick::from_raw(x.commit_global_tick.as_u64() + 1); });
    alt!("head.none".into(), "head-key", |x| { x.head_key = None; });
    alt!("head.wl".into(), "head-key", |x| { if let Some(h) = x.head_key.as_mut() { h.worldline_id = other_wl; } });
    alt!("head.id".into(), "head-key", |x| { if let Some(h) = x.head_key.as_mut() { h.head_id = make_head_id("other"); } });
    alt!("kind".into(), "event-kind", |x| { x.event_kind = ProvenanceEventKind::ConflictArtifact { artifact_id: [9; 32] }; });
    for j in 0..e.parents.len() {
        alt!(format!("par{j}.commit"), "parent-commit", |x| { x.parents[j].commit_hash = flip(&x.parents[j].commit_hash); });
        alt!(format!("par{j}.tick"), "parent-tick", |x| { x.parents[j].worldline_tick = wt(x.parents[j].worldline_tick.as_u64() + 1); });
        alt!(format!("par{j}.wl"), "parent-worldline", |x| { x.parents[j].worldline_id = other_wl; });
        alt!(format!("par{j}.drop"), "parent-dropped", |x| { x.parents.remove(j); });
    }
    alt!("par.add".into(), "parent-added", |x| {
        x.parents.push(ProvenanceRef { worldline_id: x.worldline_id, worldline_tick: wt(0), commit_hash: [0xee; 32] });
    });
    alt!("nopatch".into(), "patch-removed", |x| { x.patch = None; });
    if let Some(p0) = &e.patch {
        alt!("p.gtick".into(), "patch-global-tick", |x| { let p = x.patch.as_mut().unwrap(); p.header.commit_global_tick = GlobalTick::from_raw(p.header.commit_global_tick.as_u64() + 1); });
        alt!("p.policy".into(), "patch-policy", |x| { let p = x.patch.as_mut().unwrap(); p.header.policy_id = p.header.policy_id.wrapping_add(1); });
        alt!("p.rulepack".into(), "patch-rule-pack", |x| { let p = x.patch.as_mut().unwrap(); p.header.rule_pack_id = flip(&p.header.rule_pack_id); });
        alt!("p.plan".into(), "diag-plan-digest", |x| { let p = x.patch.as_mut().unwrap(); p.header.plan_digest = flip(&p.header.plan_digest); });
        alt!("p.decision".into(), "diag-decision-digest", |x| { let p = x.patch.as_mut().unwrap(); p.header.decision_digest = flip(&p.header.decision_digest); });
        alt!("p.rewrites".into(), "diag-rewrites-digest", |x| { let p = x.patch.as_mut().unwrap(); p.header.rewrites_digest = flip(&p.header.rewrites_digest); });
        alt!("p.warp".into(), "patch-warp", |x| { let p = x.patch.as_mut().unwrap(); p.warp_id = WarpId(flip(&p.warp_id.0)); });
        alt!("p.digest".into(), "patch-stored-digest", |x| { let p = x.patch.as_mut().unwrap(); p.patch_digest = flip(&p.patch_digest); });
        for j in 0..p0.ops.len() {
            let nids = op_ids(&mut p0.ops[j].clone()).len();
            for k in 0..nids {
                alt!(format!("op{j}.id{k}"), "op-id-field", |x| { let p = x.patch.as_mut().unwrap(); let mut ids = op_ids(&mut p.ops[j]); *ids[k] = flip(ids[k]); });
            }
            if let WarpOp::SetAttachment { value, .. } = &p0.ops[j] {
                match value {
                    Some(AttachmentValue::Atom(a)) => {
                        let n = a.bytes.len();
                        let positions: Vec<usize> = if thorough || n <= 6 { (0..n).collect() } else { vec![0, 1, n / 2, n - 1] };
                        for b in positions {
                            for bit in if thorough { vec![0u8, 7] } else { vec![0u8] } {
                                alt!(format!("op{j}.byte{b}.{bit}"), "atom-payload-byte", |x| {
                                    let p = x.patch.as_mut().unwrap();
                                    if let WarpOp::SetAttachment { value: Some(AttachmentValue::Atom(a)), .. } = &mut p.ops[j] {
                                        let mut v = a.bytes.to_vec();
                                        v[b] ^= 1 << bit;
                                        *a = AtomPayload::new(a.type_id, v.into());
                                    }
                                });
                            }
                        }
                        alt!(format!("op{j}.append"), "atom-payload-length", |x| {
                            let p = x.patch.as_mut().unwrap();
                            if let WarpOp::SetAttachment { value: Some(AttachmentValue::Atom(a)), .. } = &mut p.ops[j] {
                                let mut v = a.bytes.to_vec();
                                v.push(0);
                                *a = AtomPayload::new(a.type_id, v.into());
                            }
                        });
                        if n > 0 {
                            alt!(format!("op{j}.truncate"), "atom-payload-length", |x| {
                                let p = x.patch.as_mut().unwrap();
                                if let WarpOp::SetAttachment { value: Some(AttachmentValue::Atom(a)), .. } = &mut p.ops[j] {
                                    let mut v = a.bytes.to_vec();
                                    v.pop();
                                    *a = AtomPayload::new(a.type_id, v.into());
                                }
                            });
                        }
                        alt!(format!("op{j}.clear"), "attachment-value-kind", |x| {
                            let p = x.patch.as_mut().unwrap();
                            if let WarpOp::SetAttachment { value, .. } = &mut p.ops[j] { *value = None; }
                        });
                    }
                    _ => {
                        alt!(format!("op{j}.setval"), "attachment-value-kind", |x| {
                            let p = x.patch.as_mut().unwrap();
                            if let WarpOp::SetAttachment { value, .. } = &mut p.ops[j] {
                                *value = Some(AttachmentValue::Atom(AtomPayload::new(make_type_id("vf/att"), vec![1u8].into())));
                            }
                        });
                    }
                }
            }
            alt!(format!("op{j}.del"), "op-removed", |x| { x.patch.as_mut().unwrap().ops.remove(j); });
            alt!(format!("op{j}.dup"), "op-duplicated", |x| { let p = x.patch.as_mut().unwrap(); let o = p.ops[j].clone(); p.ops.insert(j, o); });
            if j + 1 < p0.ops.len() {
                alt!(format!("op{j}.swap"), "op-swapped", |x| { x.patch.as_mut().unwrap().ops.swap(j, j + 1); });
            }
        }
        alt!("op.ins".into(), "op-inserted", |x| { x.patch.as_mut().unwrap().ops.insert(0, bogus_node(warp)); });
        alt!("op.push".into(), "op-inserted", |x| { x.patch.as_mut().unwrap().ops.push(bogus_node(warp)); });
        for (which, len) in [("in", p0.in_slots.len()), ("out", p0.out_slots.len())] {
            for j in 0..len {
                let nids = {
                    let mut s = if which == "in" { p0.in_slots[j] } else { p0.out_slots[j] };
                    slot_ids(&mut s).len()
                };
                for k in 0..nids {
                    alt!(format!("{which}{j}.id{k}"), "slot-id-field", |x| {
                        let p = x.patch.as_mut().unwrap();
                        let s = if which == "in" { &mut p.in_slots[j] } else { &mut p.out_slots[j] };
                        let mut ids = slot_ids(s);
                        *ids[k] = flip(ids[k]);
                    });
                }
                alt!(format!("{which}{j}.del"), "slot-removed", |x| {
                    let p = x.patch.as_mut().unwrap();
                    if which == "in" { p.in_slots.remove(j); } else { p.out_slots.remove(j); }
                });
                alt!(format!("{which}{j}.dup"), "slot-duplicated", |x| {
                    let p = x.patch.as_mut().unwrap();
                    if which == "in" { let s = p.in_slots[j]; p.in_slots.insert(j, s); } else { let s = p.out_slots[j]; p.out_slots.insert(j, s); }
                });
                alt!(format!("{which}{j}.kind"), "slot-kind", |x| {
                    let p = x.patch.as_mut().unwrap();
                    let s = if which == "in" { &mut p.in_slots[j] } else { &mut p.out_slots[j] };
                    *s = match *s {
                        SlotId::Node(k) => SlotId::Edge(EdgeKey { warp_id: k.warp_id, local_id: EdgeId(k.local_id.0) }),
                        SlotId::Edge(k) => SlotId::Node(NodeKey { warp_id: k.warp_id, local_id: NodeId(k.local_id.0) }),
                        SlotId::Attachment(k) => match k.owner {
                            AttachmentOwner::Node(n) => SlotId::Node(n),
                            AttachmentOwner::Edge(ed) => SlotId::Edge(ed),
                        },
                        SlotId::Port((w, pk)) => SlotId::Port((w, pk ^ 1)),
                    };
                });
            }
            alt!(format!("{which}.add"), "slot-added", |x| {
                let p = x.patch.as_mut().unwrap();
                let s = SlotId::Node(NodeKey { warp_id: warp, local_id: make_node_id("vf/tamper-x") });
                if which == "in" { p.in_slots.push(s); } else { p.out_slots.push(s); }
            });
        }
    }
    match &e.tick_receipt {
        Some(r) => {
            let tx = r.tx().value();
            alt!("r.drop".into(), "receipt-removed", |x| { x.tick_receipt = None; });
            alt!("r.tx".into(), "receipt-tx", |x| { x.tick_receipt = rebuild_receipt(r, tx + 1, |_, _| {}).or(x.tick_receipt.clone()); });
            for j in 0..r.entries().len() {
                alt!(format!("r{j}.rule"), "receipt-entry-rule", |x| { x.tick_receipt = rebuild_receipt(r, tx, |en, _| en[j].rule_id = flip(&en[j].rule_id)).or(x.tick_receipt.clone()); });
                alt!(format!("r{j}.scopehash"), "receipt-entry-scope-hash", |x| { x.tick_receipt = rebuild_receipt(r, tx, |en, _| en[j].scope_hash = flip(&en[j].scope_hash)).or(x.tick_receipt.clone()); });
                alt!(format!("r{j}.scope"), "receipt-entry-scope", |x| { x.tick_receipt = rebuild_receipt(r, tx, |en, _| en[j].scope.local_id = NodeId(flip(&en[j].scope.local_id.0))).or(x.tick_receipt.clone()); });
                alt!(format!("r{j}.scopewarp"), "receipt-entry-scope", |x| { x.tick_receipt = rebuild_receipt(r, tx, |en, _| en[j].scope.warp_id = WarpId(flip(&en[j].scope.warp_id.0))).or(x.tick_receipt.clone()); });
                alt!(format!("r{j}.disp"), "receipt-entry-disposition", |x| {
                    x.tick_receipt = rebuild_receipt(r, tx, |en, bl| {
                        match en[j].disposition {
                            TickReceiptDisposition::Applied => {
                                en[j].disposition = TickReceiptDisposition::Rejected(TickReceiptRejection::ExecutableOperationObstruction);
                            }
                            _ => {
                                en[j].disposition = TickReceiptDisposition::Applied;
                                bl[j].clear();
                            }
                        }
                    }).or(x.tick_receipt.clone());
                });
                alt!(format!("r{j}.del"), "receipt-entry-removed", |x| {
                    x.tick_receipt = rebuild_receipt(r, tx, |en, bl| { if en.len() == 1 || j + 1 == en.len() { en.remove(j); bl.remove(j); } }).or(x.tick_receipt.clone());
                });
                alt!(format!("r{j}.blocked"), "receipt-blocked-by", |x| {
                    x.tick_receipt = rebuild_receipt(r, tx, |en, bl| {
                        if let TickReceiptDisposition::Rejected(TickReceiptRejection::FootprintConflict) = en[j].disposition {
                            if bl[j].len() > 1 { bl[j].pop(); }
                        }
                    }).or(x.tick_receipt.clone());
                });
            }
        }
        None => {
            alt!("r.add".into(), "receipt-added", |x| {
                x.tick_receipt = TickReceipt::try_from_retained_parts(TxId::from_raw(x.worldline_tick.as_u64() + 1), vec![], vec![]).ok();
            });
        }
    }
    alt!("out.add".into(), "recorded-output", |x| { x.outputs.push((TypeId([7; 32]), vec![1, 2, 3])); });
    for j in 0..e.outputs.len() {
        alt!(format!("out{j}.byte"), "recorded-output", |x| { if x.outputs[j].1.is_empty() { x.outputs[j].1.push(1); } else { x.outputs[j].1[0] ^= 1; } });
        alt!(format!("out{j}.chan"), "recorded-output", |x| { x.outputs[j].0 = TypeId(flip(&x.outputs[j].0 .0)); });
        alt!(format!("out{j}.del"), "recorded-output", |x| { x.outputs.remove(j); });
    }
    alt!("atoms.add".into(), "atom-writes", |x| {
        x.atom_writes.push(AtomWrite::new(NodeKey { warp_id: warp, local_id: root_id() }, [3; 32], 0, None, vec![1]));
    });
    out
}

fn all_alterations(world: &World, w: usize, thorough: bool) -> Vec<Alt> {
    let id = world.wls[w];
    let other_w = if world.wls.len() > 1 { (w + 1) % world.wls.len() } else { w };
    let other_id = if other_w == w { wl(99) } else { world.wls[other_w] };
    let n = world.live[w].len() - 1;
    let base: Vec<ProvenanceEntry> = (0..n).map(|t| world.provenance.entry(id, wt(t as u64)).expect("entry")).collect();
    let warp = world.live[w][0].root().warp_id;
    let bspec = |len: usize| -> Vec<String> { (0..len).map(|i| format!("b{i}")).collect() };
    let mut alts = Vec::new();
    for i in 0..n {
        for (name, class, x) in entry_alterations(&base[i], other_id, warp, thorough) {
            let mut hist = base.clone();
            hist[i] = x;
            let mut spec = bspec(n);
            spec[i] = "m".into();
            alts.push(Alt { name: format!("{name}@{i}"), class, hist, pos: Some(i), spec });
        }
    }
    // a neighbouring entry served at coordinate i with its worldline_tick RE-LABELLED to i (a duplicated / skipped commit
    // made self-consistent): every per-entry hash still verifies, only the link to the previous commit can reject it -
    // also when it is the FIRST entry an incremental replay applies (cursor step, tick right after a checkpoint)
    // (positions i >= 1 only: at the genesis coordinate there is no previous commit to link to, so a relabelled entry 1
    // whose patch happens to apply to the base state is accepted there with its foreign parent list - a compound forgery
    // outside C05's single-field / structural quantifier, recorded in DESIGN section 9.3 as an observation)
    for i in 1..n {
        for j in [i - 1, i + 1] {
            if j >= n {
                continue;
            }
            let mut x = base[j].clone();
            x.worldline_tick = wt(i as u64);
            // the retained receipt's transaction counter is compared with the coordinate too (tx = tick + 1) but is not
            // covered by its digest: a consistent forgery rewrites it along with the tick
            if let Some(r) = &x.tick_receipt {
                if let Some(r2) = rebuild_receipt(r, i as u64 + 1, |_, _| {}) {
                    x.tick_receipt = Some(r2);
                }
            }
            let mut hist = base.clone();
            hist[i] = x;
            let mut spec = bspec(n);
            spec[i] = "m".into();
            let class = if j < i { "entry-duplication-relabelled" } else { "entry-gap-relabelled" };
            alts.push(Alt { name: format!("relabel@{i}<-{j}"), class: class.into(), hist, pos: Some(i), spec });
        }
    }
    // structural edits
    for i in 0..n {
        for j in 0..n {
            if i == j {
                continue;
            }
            if i < j {
                let mut hist = base.clone();
                hist.swap(i, j);
                let mut spec = bspec(n);
                spec.swap(i, j);
                alts.push(Alt { name: format!("swap@{i}.{j}"), class: "entry-swap".into(), hist, pos: None, spec });
            }
            let mut hist = base.clone();
            hist[i] = base[j].clone();
            let mut spec = bspec(n);
            spec[i] = format!("b{j}");
            alts.push(Alt { name: format!("dup@{i}<-{j}"), class: "entry-duplication".into(), hist, pos: None, spec });
        }
        let mut hist = base.clone();
        hist.remove(i);
        let mut spec = bspec(n);
        spec.remove(i);
        alts.push(Alt { name: format!("drop@{i}"), class: "entry-removal".into(), hist, pos: None, spec });
        let mut hist = base.clone();
        hist.insert(i, base[i].clone());
        let mut spec = bspec(n);
        spec.insert(i, format!("b{i}"));
        alts.push(Alt { name: format!("repeat@{i}"), class: "entry-duplication".into(), hist, pos: None, spec });
    }
    for k in 0..n {
        alts.push(Alt { name: format!("trunc@{k}"), class: "truncation".into(), hist: base[..k].to_vec(), pos: None, spec: bspec(k) });
    }
    if other_w != w {
        let m = world.live[other_w].len() - 1;
        for i in 0..n {
            for j in 0..m {
                let mut hist = base.clone();
                hist[i] = world.provenance.entry(other_id, wt(j as u64)).expect("entry");
                let mut spec = bspec(n);
                spec[i] = format!("o{j}");
                alts.push(Alt { name: format!("transplant@{i}<-{j}"), class: "cross-worldline-transplant".into(), hist, pos: None, spec });
            }
        }
    }
    alts
}

// ------------------------------------------------------------------------------------------- tampering view

/// A `ProvenanceStore` serving the real store's data, except that worldline `wl` has the altered history.
struct View<'a> {
    inner: &'a ProvenanceService,
    wl: WorldlineId,
    hist: &'a [ProvenanceEntry],
    /// checkpoints served for `wl` instead of the real ones (tick-sorted) when `Some`
    cps: Option<&'a [ReplayCheckpoint]>,
}

impl ProvenanceStore for View<'_> {
    fn u0(&self, w: WorldlineId) -> Result<WarpId, HistoryError> {
        self.inner.u0(w)
    }
    fn initial_boundary_hash(&self, w: WorldlineId) -> Result<Hash, HistoryError> {
        ProvenanceStore::initial_boundary_hash(self.inner, w)
    }
    fn len(&self, w: WorldlineId) -> Result<u64, HistoryError> {
        if w == self.wl {
            Ok(self.hist.len() as u64)
        } else {
            self.inner.len(w)
        }
    }
    fn entry(&self, w: WorldlineId, tick: WorldlineTick) -> Result<ProvenanceEntry, HistoryError> {
        if w == self.wl {
            self.hist.get(tick.as_u64() as usize).cloned().ok_or(HistoryError::HistoryUnavailable { tick })
        } else {
            self.inner.entry(w, tick)
        }
    }
    fn parents(&self, w: WorldlineId, tick: WorldlineTick) -> Result<Vec<ProvenanceRef>, HistoryError> {
        Ok(self.entry(w, tick)?.parents)
    }
    fn append_local_commit(&mut self, _entry: ProvenanceEntry) -> Result<(), HistoryError> {
        Err(HistoryError::HistoryUnavailable { tick: wt(0) })
    }
    fn append_recorded_event(&mut self, _entry: ProvenanceEntry) -> Result<(), HistoryError> {
        Err(HistoryError::HistoryUnavailable { tick: wt(0) })
    }
    fn checkpoint_before(&self, w: WorldlineId, tick: WorldlineTick) -> Option<CheckpointRef> {
        self.checkpoint_state_before(w, tick).map(|c| c.checkpoint)
    }
    fn checkpoint_state_before(&self, w: WorldlineId, tick: WorldlineTick) -> Option<ReplayCheckpoint> {
        if w == self.wl {
            if let Some(cps) = self.cps {
                return cps.iter().filter(|c| c.checkpoint.worldline_tick < tick).last().cloned();
            }
        }
        ProvenanceStore::checkpoint_state_before(self.inner, w, tick)
    }
}

// ------------------------------------------------------------------------------------------- results

fn seek_err(e: &SeekError) -> String {
    match e {
        SeekError::HistoryUnavailable { tick } => format!("EHist@{}", tick.as_u64()),
        SeekError::StateRootMismatch { tick } => format!("ERoot@{}", tick.as_u64()),
        SeekError::PatchDigestMismatch { tick } => format!("EPDig@{}", tick.as_u64()),
        SeekError::CommitHashMismatch { tick } => format!("ECommit@{}", tick.as_u64()),
        SeekError::ReceiptMismatch { tick } => format!("ERcpt@{}", tick.as_u64()),
        SeekError::ApplyError { tick, .. } => format!("EApply@{}", tick.as_u64()),
        SeekError::PinnedFrontierExceeded { target, pin } => format!("EPin@{}@{}", target.as_u64(), pin.as_u64()),
        SeekError::CheckpointStateRootMismatch { tick } => format!("ECpRoot@{}", tick.as_u64()),
        SeekError::ReplayBaseWarpMismatch { .. } => "EBaseWarp".into(),
        SeekError::InitialBoundaryHashMismatch { .. } => "EBaseBnd".into(),
    }
}
fn replay_err(e: &ReplayError) -> String {
    match e {
        ReplayError::History(HistoryError::HistoryUnavailable { tick }) => format!("EHist@{}", tick.as_u64()),
        ReplayError::History(_) => "EHistOther".into(),
        ReplayError::MissingPatch { tick } => format!("EMissingPatch@{}", tick.as_u64()),
        ReplayError::Apply { tick, .. } => format!("EApply@{}", tick.as_u64()),
        ReplayError::CheckpointStateRootMismatch { tick, .. } => format!("ECpRoot@{}", tick.as_u64()),
        ReplayError::ReplayBaseWarpMismatch { .. } => "EBaseWarp".into(),
        ReplayError::InitialBoundaryHashMismatch { .. } => "EBaseBnd".into(),
        ReplayError::TickOverflow { tick } => format!("EOverflow@{}", tick.as_u64()),
        ReplayError::PatchDigestMismatch { tick, .. } => format!("EPDig@{}", tick.as_u64()),
        ReplayError::ReceiptTxMismatch { tick, .. } => format!("ERcptTx@{}", tick.as_u64()),
        ReplayError::ReceiptDigestMismatch { tick, .. } => format!("ERcptDig@{}", tick.as_u64()),
        ReplayError::StateRootMismatch { tick, .. } => format!("ERoot@{}", tick.as_u64()),
        ReplayError::CommitHashMismatch { tick, .. } => format!("ECommit@{}", tick.as_u64()),
    }
}
fn hist_err(e: &HistoryError) -> String {
    match e {
        HistoryError::HistoryUnavailable { .. } => "HUnavailable".into(),
        HistoryError::WorldlineNotFound(_) => "HWorldlineNotFound".into(),
        HistoryError::WorldlineAlreadyExists(_) => "HExists".into(),
        HistoryError::TickGap { .. } => "HTickGap".into(),
        HistoryError::EntryWorldlineMismatch { .. } => "HEntryWorldline".into(),
        HistoryError::LocalCommitMissingHeadKey { .. } => "HMissingHeadKey".into(),
        HistoryError::LocalCommitMissingPatch { .. } => "HMissingPatch".into(),
        HistoryError::LocalCommitReceiptTxMismatch { .. } => "HReceiptTx".into(),
        HistoryError::LocalCommitReceiptDigestMismatch { .. } => "HReceiptDigest".into(),
        HistoryError::HeadWorldlineMismatch { .. } => "HHeadWorldlineMismatch".into(),
        HistoryError::InvalidLocalCommitEventKind { .. } => "HInvalidKind".into(),
        HistoryError::NonCanonicalParents { .. } => "HNonCanonicalParents".into(),
        HistoryError::MissingParentRef { .. } => "HMissingParentRef".into(),
        HistoryError::ParentCommitHashMismatch { .. } => "HParentCommitHashMismatch".into(),
        HistoryError::CheckpointRootWarpMismatch { .. } => "HRootWarp".into(),
        HistoryError::CheckpointInitialBoundaryHashMismatch { .. } => "HInitialBoundary".into(),
        HistoryError::CheckpointStateRootMismatch { .. } => "HCpStateRoot".into(),
        HistoryError::CheckpointReplayMetadataMismatch { .. } => "HCpMeta".into(),
        other => format!("HOther:{}", format!("{other:?}").chars().take(20).collect::<String>().replace(' ', "_")),
    }
}
fn btr_err(e: &BtrError) -> String {
    match e {
        BtrError::History(h) => format!("B{}", hist_err(h)),
        BtrError::EmptyPayload => "BEmpty".into(),
        BtrError::WorldlineMismatch { .. } => "BWorldline".into(),
        BtrError::MixedWorldline { .. } => "BMixed".into(),
        BtrError::NonContiguousTicks { .. } => "BNonContiguous".into(),
        BtrError::TickOverflow => "BOverflow".into(),
        BtrError::UnknownWorldline(_) => "BUnknownWorldline".into(),
        BtrError::U0RefMismatch { .. } => "BU0".into(),
        BtrError::InputBoundaryHashMismatch { .. } => "BInput".into(),
        BtrError::OutputBoundaryHashMismatch { .. } => "BOutput".into(),
        BtrError::EntryMismatch { .. } => "BEntryMismatch".into(),
    }
}

/// the compared ("core") result of an accepted replay: state id, state root, commit-id chain, tick
#[derive(Clone, PartialEq, Eq, Debug)]
struct Core {
    sid: usize,
    root: Hash,
    chain: Vec<Hash>,
    tick: u64,
}
impl Core {
    fn of(st: &WorldlineState, tick: u64, intern: &mut Intern) -> Core {
        Core {
            sid: intern.id(st),
            root: st.state_root(),
            chain: st.tick_history().iter().map(|(s, _, _)| s.hash).collect(),
            tick,
        }
    }
    fn render(&self) -> String {
        format!("ok:{}:{}:{}:{}", self.sid, h8(&self.root), self.tick, join(&self.chain, h8, "."))
    }
}

fn fresh_cursor(world: &World, w: usize) -> PlaybackCursor {
    let base = &world.live[w][0];
    PlaybackCursor::new(CursorId([7; 32]), world.wls[w], base.root().warp_id, CursorRole::Reader, base, wt(u64::MAX))
}

fn seek_core<P: ProvenanceStore>(world: &World, w: usize, store: &P, target: u64, intern: &mut Intern) -> Result<Core, String> {
    let mut cur = fresh_cursor(world, w);
    let base = world.live[w][0].clone();
    match catch(std::panic::AssertUnwindSafe(|| cur.seek_to(wt(target), store, &base))) {
        Ok(Ok(())) => {
            let st = cur.materialized_state();
            let mut c = Core::of(st, cur.current_tick().as_u64(), intern);
            if st.current_tick().as_u64() != c.tick {
                c.tick = 1_000_000 + st.current_tick().as_u64();
            }
            Ok(c)
        }
        Ok(Err(e)) => Err(seek_err(&e)),
        Err(_) => Err("PANIC".into()),
    }
}

/// apply the (altered) patches in order with no verification: the state ids / roots the model's `apply` / `root`
/// parameters are instantiated with
fn shadow(world: &World, w: usize, hist: &[ProvenanceEntry], intern: &mut Intern) -> String {
    let mut st = world.live[w][0].clone();
    let mut out = vec![format!("{}:{}", intern.id(&st), hx(&st.state_root()))];
    for e in hist {
        let Some(p) = &e.patch else {
            out.push("N".into());
            break;
        };
        match p.apply_to_worldline_state(&mut st) {
            Ok(()) => out.push(format!("{}:{}", intern.id(&st), hx(&st.state_root()))),
            Err(_) => {
                out.push("F".into());
                break;
            }
        }
    }
    out.join(",")
}

/// rebuild a real service by appending the altered entries (the transport path)
fn rebuild_service(world: &World, w: usize, hist: &[ProvenanceEntry]) -> Result<ProvenanceService, String> {
    let mut svc = ProvenanceService::new();
    for (i, id) in world.wls.iter().enumerate() {
        svc.register_worldline(*id, &world.live[i][0]).map_err(|e| format!("register:{}", hist_err(&e)))?;
    }
    for (i, id) in world.wls.iter().enumerate() {
        if i == w {
            continue;
        }
        for t in 0..world.live[i].len() - 1 {
            let e = world.provenance.entry(*id, wt(t as u64)).map_err(|e| hist_err(&e))?;
            svc.append_local_commit(e).map_err(|e| format!("other-append:{}", hist_err(&e)))?;
        }
    }
    for (k, e) in hist.iter().enumerate() {
        svc.append_local_commit(e.clone()).map_err(|e| format!("A{}@{k}", hist_err(&e)))?;
    }
    Ok(svc)
}

struct SuffixCtx {
    tip: ProvenanceRef,
    refs: Vec<ProvenanceRef>,
}
impl WitnessedSuffixAdmissionContext for SuffixCtx {
    fn source_shell_digest(&self, shell: &WitnessedSuffixShell) -> Option<Hash> {
        // the local evidence: only shells naming locally known coordinates have a digest
        if shell.source_entries.iter().all(|r| self.refs.contains(r))
            && shell.boundary_witness.iter().all(|r| self.refs.contains(r))
        {
            Some(derive_witnessed_suffix_shell_digest(shell))
        } else {
            None
        }
    }
    fn resolve_target_basis(&self, target_basis: ProvenanceRef) -> Option<ProvenanceRef> {
        if target_basis == self.tip {
            Some(self.tip)
        } else {
            None
        }
    }
    fn local_admission_posture(&self, request: &WitnessedSuffixAdmissionRequest) -> WitnessedSuffixLocalAdmissionPosture {
        WitnessedSuffixLocalAdmissionPosture::admissible(request.source_suffix.source_entries.clone())
            .unwrap_or(WitnessedSuffixLocalAdmissionPosture::Staged { staged_refs: vec![] })
    }
}

fn sig(api: &str, class: &str, what: &str) -> String {
    format!("{api}:{class}:{what}")
}

fn main() {
    // panics inside the verifiers are caught (and reported as results); keep stderr quiet
    std::panic::set_hook(Box::new(|_| {}));
    for line in read_cases() {
        let m = kv(&line);
        let id = m.get("id").cloned().unwrap_or_else(|| "0".into());
        let nwl: usize = m.get("wls").and_then(|s| s.parse().ok()).unwrap_or(1);
        let prog = m.get("prog").cloned().unwrap_or_else(|| "-".into());
        let thorough = m.get("tier").map(|s| s == "thorough").unwrap_or(false);
        let only: Option<usize> = m.get("only").and_then(|s| s.parse().ok());
        let quiet = m.get("quiet").map(|s| s == "1").unwrap_or(false);
        let nheads: usize = m.get("heads").and_then(|s| s.parse().ok()).unwrap_or(1);
        let world = build_world(nwl, nheads, &prog);
        let mut flags: Vec<String> = world.flags.iter().filter(|f| !f.starts_with("NOTE")).cloned().collect();
        let mut info: BTreeMap<String, usize> = BTreeMap::new();
        let mut nalt = 0usize;
        let mut accepted_same = 0usize;
        let mut rejected = 0usize;
        let mut by_class: BTreeMap<String, (usize, usize, usize)> = BTreeMap::new();

        for w in 0..nwl {
            let wid = world.wls[w];
            let n = world.live[w].len() - 1;
            let base_state = world.live[w][0].clone();
            let mut intern = Intern::default();
            intern.id(&base_state);
            let entries: Vec<ProvenanceEntry> =
                (0..n).map(|t| world.provenance.entry(wid, wt(t as u64)).expect("entry")).collect();
            for e in &entries {
                println!("E id={id} w={w} {}", s_entry(e));
            }
            // ------------------------------------------------------------------ untampered material verifies
            let mut orig: Vec<Core> = Vec::new();
            for t in 0..=n as u64 {
                match seek_core(&world, w, &world.provenance, t, &mut intern) {
                    Ok(c) => {
                        let live = Core::of(&world.live[w][t as usize], t, &mut intern);
                        if c.sid != live.sid || c.root != live.root {
                            flags.push(sig("seek", "untampered", "replayed-state-differs-from-live"));
                        }
                        if c.chain.len() as u64 != t || c.tick != t {
                            flags.push(sig("seek", "untampered", "chain-length-or-tick-wrong"));
                        }
                        orig.push(c);
                    }
                    Err(e) => {
                        flags.push(sig("seek", "untampered", &format!("rejected-{e}")));
                        orig.push(Core { sid: usize::MAX, root: [0; 32], chain: vec![], tick: t });
                    }
                }
                match world.provenance.replay_worldline_state_at(wid, &base_state, wt(t)) {
                    Ok(st) => {
                        if Core::of(&st, st.current_tick().as_u64(), &mut intern) != orig[t as usize] {
                            flags.push(sig("replay_at", "untampered", "differs-from-cursor"));
                        }
                    }
                    Err(e) => flags.push(sig("replay_at", "untampered", &format!("rejected-{}", replay_err(&e)))),
                }
            }
            // chain facts of the real history: gap-free, linked to the previous commit, ids recomputable
            for (i, e) in entries.iter().enumerate() {
                if e.worldline_tick.as_u64() != i as u64 || e.worldline_id != wid {
                    flags.push(sig("history", "untampered", "entry-coordinate-wrong"));
                }
                let want: Vec<ProvenanceRef> = if i == 0 { vec![] } else { vec![entries[i - 1].as_ref()] };
                if e.parents != want {
                    flags.push(sig("history", "untampered", "parents-are-not-the-previous-tip"));
                }
                let ph: Vec<Hash> = e.parents.iter().map(|p| p.commit_hash).collect();
                let pol = e.patch.as_ref().map(|p| p.policy_id()).unwrap_or(0);
                if compute_commit_hash_v2(&e.expected.state_root, &ph, &e.expected.patch_digest, pol) != e.expected.commit_hash {
                    flags.push(sig("history", "untampered", "commit-id-not-recomputable"));
                }
                if e.expected.state_root != world.live[w][i + 1].state_root() {
                    flags.push(sig("history", "untampered", "recorded-root-differs-from-live"));
                }
            }
            if only.is_some_and(|o| o != w) {
                continue;
            }
            let shadow0 = shadow(&world, w, &entries, &mut intern);
            println!("S id={id} w={w} n={n} shadow={shadow0} orig={}", orig.iter().map(Core::render).collect::<Vec<_>>().join(","));

            // ------------------------------------------------------------------ every alteration
            let clean_btr = if n > 0 { world.provenance.build_btr(wid, wt(0), wt(n as u64), 1, vec![1, 2]).ok() } else { None };
            if n > 0 && clean_btr.is_none() {
                flags.push(sig("btr", "untampered", "build-rejected"));
            }
            for alt in all_alterations(&world, w, thorough) {
                nalt += 1;
                let len = alt.hist.len() as u64;
                let view = View { inner: &world.provenance, wl: wid, hist: &alt.hist, cps: None };
                // targets: just past the altered entry, and the end of the altered history
                let mut targets: Vec<u64> = match alt.pos {
                    Some(i) => vec![(i as u64 + 1).min(len), len],
                    None => (1..=len).collect(),
                };
                if alt.class == "truncation" {
                    targets = (0..=n as u64).collect();
                }
                targets.dedup();
                let mut seeks = Vec::new();
                let mut any_ok = false;
                let mut any_err = false;
                for &t in &targets {
                    let r = seek_core(&world, w, &view, t, &mut intern);
                    match &r {
                        Ok(c) => {
                            any_ok = true;
                            let same = (t as usize) < orig.len() && *c == orig[t as usize];
                            if !same {
                                let what = if (t as usize) >= orig.len() {
                                    "accepted-beyond-original-history"
                                } else if c.sid != orig[t as usize].sid || c.root != orig[t as usize].root {
                                    "accepted-different-state"
                                } else if c.chain != orig[t as usize].chain {
                                    "accepted-different-commit-chain"
                                } else {
                                    "accepted-different-tick"
                                };
                                flags.push(sig("seek", &alt.class, what));
                                if !quiet {
                                    println!("V id={id} w={w} alt={} target={t} got={} want={}", alt.name, c.render(),
                                        orig.get(t as usize).map(Core::render).unwrap_or_else(|| "-".into()));
                                }
                            }
                        }
                        Err(e) => {
                            any_err = true;
                            if e == "PANIC" {
                                flags.push(sig("seek", &alt.class, "panic"));
                            }
                            if alt.class == "truncation" && (t > len) != e.starts_with("EHist@") {
                                flags.push(sig("seek", &alt.class, "wrong-error"));
                            }
                            if alt.class == "truncation" && t <= len {
                                flags.push(sig("seek", &alt.class, "available-tick-rejected"));
                            }
                        }
                    }
                    seeks.push(format!("{t}={}", match &r { Ok(c) => c.render(), Err(e) => e.clone() }));
                }
                // step-by-step advance with one cursor (the advance_replay_state path without restore)
                let mut stepres = String::from("-");
                if alt.pos.is_some() {
                    let mut cur = fresh_cursor(&world, w);
                    let mut last = String::from("ok");
                    for t in 1..=len {
                        match cur.seek_to(wt(t), &view, &base_state) {
                            Ok(()) => {
                                let c = Core::of(cur.materialized_state(), cur.current_tick().as_u64(), &mut intern);
                                if (t as usize) < orig.len() && c != orig[t as usize] {
                                    flags.push(sig("step", &alt.class, "accepted-different-result"));
                                }
                            }
                            Err(e) => {
                                last = seek_err(&e);
                                // a rejected seek must leave the cursor on its last verified result: the cursor still
                                // answers for tick t-1 (seek_to(t-1) is a no-op Ok) so what it exposes there must be
                                // exactly the original tick t-1
                                let back = cur.seek_to(wt(t - 1), &view, &base_state);
                                let c = Core::of(cur.materialized_state(), cur.current_tick().as_u64(), &mut intern);
                                if back.is_ok() && ((t as usize - 1) >= orig.len() || c != orig[t as usize - 1]) {
                                    flags.push(sig("step", &alt.class, "failed-seek-exposes-unverified-state"));
                                    if !quiet {
                                        println!("V id={id} w={w} alt={} failed-step={t} cursor-now={} want={}", alt.name, c.render(),
                                            orig.get(t as usize - 1).map(Core::render).unwrap_or_else(|| "-".into()));
                                    }
                                }
                                break;
                            }
                        }
                    }
                    stepres = last;
                }
                // transport path: re-append into a real service, then ProvenanceService::replay_worldline_state_at
                let svc = match rebuild_service(&world, w, &alt.hist) {
                    Ok(svc) => match svc.replay_worldline_state_at(wid, &base_state, wt(len)) {
                        Ok(st) => {
                            let c = Core::of(&st, st.current_tick().as_u64(), &mut intern);
                            if (len as usize) >= orig.len() || c != orig[len as usize] {
                                flags.push(sig("replay_at", &alt.class, "accepted-different-result"));
                            }
                            c.render()
                        }
                        Err(e) => replay_err(&e),
                    },
                    Err(e) => e,
                };
                // BTR: the altered entries as a transported payload, validated against the authoritative store
                let mut btr = String::from("-");
                if let (Some(clean), true) = (&clean_btr, !alt.hist.is_empty()) {
                    let mut rec: BoundaryTransitionRecord = clean.clone();
                    rec.payload.entries = alt.hist.clone();
                    rec.output_boundary_hash = alt.hist.last().map(|e| e.expected.state_root).unwrap_or([0; 32]);
                    btr = match world.provenance.validate_btr(&rec) {
                        Ok(()) => {
                            if alt.hist != entries {
                                let prefix_ok = alt.hist.len() <= entries.len() && alt.hist[..] == entries[..alt.hist.len()];
                                if !prefix_ok {
                                    flags.push(sig("btr", &alt.class, "altered-payload-accepted"));
                                }
                            }
                            "ok".into()
                        }
                        Err(e) => btr_err(&e),
                    };
                }
                let st = by_class.entry(alt.class.clone()).or_insert((0, 0, 0));
                st.0 += 1;
                if any_err {
                    rejected += 1;
                    st.1 += 1;
                }
                if any_ok && !any_err {
                    accepted_same += 1;
                    st.2 += 1;
                    *info.entry(format!("unbound:{}", alt.class)).or_insert(0) += 1;
                }
                if !quiet {
                    let mentry = match alt.pos {
                        Some(i) => s_entry(&alt.hist[i]).replace(' ', "~"),
                        None => "-".into(),
                    };
                    println!(
                        "M id={id} w={w} alt={} class={} spec={} shadow={} seek={} step={} svc={} btr={} e={}",
                        alt.name,
                        alt.class,
                        if alt.spec.is_empty() { "-".into() } else { alt.spec.join(",") },
                        shadow(&world, w, &alt.hist, &mut intern),
                        seeks.join(","),
                        stepres,
                        svc,
                        btr,
                        mentry
                    );
                }
            }

            // ------------------------------------------------------------------ checkpoints
            let cp_ticks: Vec<u64> = m
                .get("cps")
                .map(|s| s.split(',').filter_map(|x| x.parse().ok()).filter(|t| *t <= n as u64).collect())
                .unwrap_or_default();
            let mut cpres = Vec::new();
            for &c in &cp_ticks {
                let good = ReplayCheckpoint::from_state(&world.live[w][c as usize]);
                let mut store = world.provenance.clone();
                match store.add_checkpoint(wid, good.clone()) {
                    Ok(()) => {}
                    Err(e) => flags.push(sig("add_checkpoint", "untampered", &format!("rejected-{}", hist_err(&e)))),
                }
                // replay through the genuine checkpoint gives the original results
                for t in c..=n as u64 {
                    match seek_core(&world, w, &store, t, &mut intern) {
                        Ok(core) if core == orig[t as usize] => {}
                        Ok(_) => flags.push(sig("seek", "untampered-checkpoint", "accepted-different-result")),
                        Err(e) => flags.push(sig("seek", "untampered-checkpoint", &format!("rejected-{e}"))),
                    }
                }
                // altered history behind a genuine checkpoint: entries before the checkpoint are not read, the
                // result must still be the original one or an error
                for alt in all_alterations(&world, w, false).into_iter().filter(|a| a.pos.is_some()) {
                    let cps = vec![good.clone()];
                    let view = View { inner: &world.provenance, wl: wid, hist: &alt.hist, cps: Some(&cps) };
                    let t = alt.hist.len() as u64;
                    if let Ok(core) = seek_core(&world, w, &view, t, &mut intern) {
                        if (t as usize) >= orig.len() || core != orig[t as usize] {
                            flags.push(sig("seek-via-checkpoint", &alt.class, "accepted-different-result"));
                        }
                    }
                }
                // checkpoint field alterations through the real add_checkpoint
                let mut cp_alts: Vec<(String, ReplayCheckpoint)> = Vec::new();
                let mut x = good.clone();
                x.checkpoint.state_hash = flip(&x.checkpoint.state_hash);
                cp_alts.push(("cp-hash".into(), x));
                // relabelled to every other tick of the history (0 included: a state that returned to the genesis graph
                // passes every root comparison there) and one past the end
                for t2 in 0..=(n as u64 + 1) {
                    if t2 != c {
                        let mut x = good.clone();
                        x.checkpoint.worldline_tick = wt(t2);
                        cp_alts.push(("cp-tick".into(), x));
                    }
                }
                for k in 0..=n as u64 {
                    if k != c {
                        // the state of another tick, labelled (tick, hash) consistently with itself or with the slot
                        let other = ReplayCheckpoint::from_state(&world.live[w][k as usize]);
                        let mut x = other.clone();
                        x.checkpoint.worldline_tick = wt(c);
                        cp_alts.push(("cp-state-of-other-tick".into(), x));
                        let mut y = good.clone();
                        y.state = other.state.clone();
                        cp_alts.push(("cp-state-swapped".into(), y));
                    }
                }
                if nwl > 1 {
                    let ow = (w + 1) % nwl;
                    if (c as usize) < world.live[ow].len() {
                        let other = ReplayCheckpoint::from_state(&world.live[ow][c as usize]);
                        cp_alts.push(("cp-state-of-other-worldline".into(), other));
                    }
                }
                for (cname, cp) in cp_alts {
                    let mut store = world.provenance.clone();
                    let label = cp.checkpoint.worldline_tick.as_u64();
                    match store.add_checkpoint(wid, cp.clone()) {
                        Ok(()) => {
                            // accepted: every replay through it must still give the original results
                            let mut bad = false;
                            for t in 0..=n as u64 {
                                match seek_core(&world, w, &store, t, &mut intern) {
                                    Ok(core) => {
                                        if core != orig[t as usize] {
                                            bad = true;
                                        }
                                    }
                                    Err(_) => {}
                                }
                            }
                            if bad {
                                flags.push(sig("add_checkpoint", &cname, "accepted-and-changes-replay-result"));
                            }
                            cpres.push(format!("{cname}@{c}>{label}=ok"));
                        }
                        Err(e) => cpres.push(format!("{cname}@{c}>{label}={}", hist_err(&e))),
                    }
                    // the same altered checkpoint served at rest by the store view (no add_checkpoint validation)
                    let cps = vec![cp.clone()];
                    let view = View { inner: &world.provenance, wl: wid, hist: &entries, cps: Some(&cps) };
                    // rewinding cursors: positioned on the clean store at a later tick, then sent back through the view
                    // (seek_to restores from the checkpoint / U0 when target < tick; a fresh cursor at 0 never does)
                    for start in [n as u64, c.min(n as u64)] {
                        for t in 0..start {
                            let mut cur = fresh_cursor(&world, w);
                            if cur.seek_to(wt(start), &world.provenance, &base_state).is_err() {
                                continue;
                            }
                            if let Ok(Ok(())) = catch(std::panic::AssertUnwindSafe(|| cur.seek_to(wt(t), &view, &base_state))) {
                                let st = cur.materialized_state();
                                let mut core = Core::of(st, cur.current_tick().as_u64(), &mut intern);
                                if st.current_tick().as_u64() != core.tick {
                                    core.tick = 1_000_000 + st.current_tick().as_u64();
                                }
                                if core != orig[t as usize] {
                                    flags.push(sig("rewind-at-rest", &cname, "accepted-different-result"));
                                    if !quiet {
                                        println!("V id={id} w={w} cp={cname}@{c}>{label} rewind {start}->{t} got={} want={}", core.render(), orig[t as usize].render());
                                    }
                                }
                            }
                        }
                    }
                    for t in label.min(n as u64 + 1)..=n as u64 {
                        let res = seek_core(&world, w, &view, t, &mut intern);
                        if res.as_ref().err().is_some_and(|e| e == "PANIC") {
                            flags.push(sig("restore-at-rest", &cname, "panic"));
                        }
                        if let Ok(core) = res {
                            if core != orig[t as usize] {
                                let what = if core.sid != orig[t as usize].sid || core.root != orig[t as usize].root {
                                    "accepted-different-state"
                                } else {
                                    "accepted-different-replay-metadata"
                                };
                                flags.push(sig("restore-at-rest", &cname, what));
                            }
                        }
                    }
                }
            }
            if !cpres.is_empty() && !quiet {
                println!("C id={id} w={w} cps={}", cpres.join(","));
            }

            // ------------------------------------------------------------------ BTR header fields
            if let Some(clean) = &clean_btr {
                if world.provenance.validate_btr(clean).is_err() {
                    flags.push(sig("btr", "untampered", "rejected"));
                }
                let mut hdr: Vec<(&str, BoundaryTransitionRecord)> = Vec::new();
                let mut x = clean.clone();
                x.u0_ref = WarpId(flip(&x.u0_ref.0));
                hdr.push(("u0", x));
                let mut x = clean.clone();
                x.input_boundary_hash = flip(&x.input_boundary_hash);
                hdr.push(("input-boundary", x));
                let mut x = clean.clone();
                x.output_boundary_hash = flip(&x.output_boundary_hash);
                hdr.push(("output-boundary", x));
                let mut x = clean.clone();
                x.worldline_id = wl(77);
                hdr.push(("worldline", x));
                let mut x = clean.clone();
                x.payload.worldline_id = wl(77);
                hdr.push(("payload-worldline", x));
                let mut x = clean.clone();
                x.payload.start_worldline_tick = wt(1);
                hdr.push(("payload-start", x));
                for (hname, rec) in hdr {
                    if world.provenance.validate_btr(&rec).is_ok() {
                        flags.push(sig("btr", hname, "altered-header-accepted"));
                    }
                }
                // documented as unauthenticated in this phase: logical counter and the opaque auth tag
                let mut x = clean.clone();
                x.logical_counter += 1;
                if world.provenance.validate_btr(&x).is_ok() {
                    *info.entry("unbound:btr-logical-counter".into()).or_insert(0) += 1;
                }
                let mut x = clean.clone();
                x.auth_tag.push(9);
                if world.provenance.validate_btr(&x).is_ok() {
                    *info.entry("unbound:btr-auth-tag".into()).or_insert(0) += 1;
                }
            }

            // ------------------------------------------------------------------ witnessed suffix bundles
            if n >= 2 {
                let refs: Vec<ProvenanceRef> = entries.iter().map(ProvenanceEntry::as_ref).collect();
                let tip = *refs.last().unwrap();
                let ctx = SuffixCtx { tip, refs: refs.clone() };
                let shell = WitnessedSuffixShell {
                    source_worldline_id: wid,
                    source_suffix_start_tick: wt(1),
                    source_suffix_end_tick: Some(wt(n as u64 - 1)),
                    source_entries: refs[1..].to_vec(),
                    boundary_witness: None,
                    witness_digest: [0; 32],
                    basis_report: None,
                };
                let bundle = CausalSuffixBundle::new(refs[0], tip, shell);
                let req = |b: CausalSuffixBundle| ImportSuffixRequest { bundle: b, target_worldline_id: wid, target_basis: tip, basis_report: None };
                let clean = import_suffix(&req(bundle.clone()), &ctx);
                let admitted = matches!(clean.admission.outcome, WitnessedSuffixAdmissionOutcome::Admitted { .. });
                if !admitted {
                    flags.push(sig("import_suffix", "untampered", "not-admitted"));
                }
                let mut balts: Vec<(&str, CausalSuffixBundle)> = Vec::new();
                let mut x = bundle.clone();
                x.bundle_digest = flip(&x.bundle_digest);
                balts.push(("bundle-digest", x));
                let mut x = bundle.clone();
                x.base_frontier.commit_hash = flip(&x.base_frontier.commit_hash);
                balts.push(("base-frontier", x));
                let mut x = bundle.clone();
                x.target_frontier.worldline_tick = wt(x.target_frontier.worldline_tick.as_u64() + 1);
                balts.push(("target-frontier", x));
                let mut x = bundle.clone();
                x.source_suffix.witness_digest = flip(&x.source_suffix.witness_digest);
                balts.push(("witness-digest", x));
                for j in 0..bundle.source_suffix.source_entries.len() {
                    let mut x = bundle.clone();
                    x.source_suffix.source_entries[j].commit_hash = flip(&x.source_suffix.source_entries[j].commit_hash);
                    balts.push(("source-entry-commit", x));
                    let mut x = bundle.clone();
                    x.source_suffix.source_entries[j].worldline_tick = wt(x.source_suffix.source_entries[j].worldline_tick.as_u64() + 1);
                    balts.push(("source-entry-tick", x));
                    let mut x = bundle.clone();
                    x.source_suffix.source_entries.remove(j);
                    balts.push(("source-entry-removed", x));
                }
                let mut x = bundle.clone();
                x.source_suffix.source_suffix_start_tick = wt(0);
                balts.push(("suffix-start", x));
                let mut x = bundle.clone();
                x.source_suffix.source_suffix_end_tick = None;
                balts.push(("suffix-end", x));
                let mut x = bundle.clone();
                x.source_suffix.source_worldline_id = wl(77);
                balts.push(("source-worldline", x));
                for (bname, b) in balts {
                    let r = import_suffix(&req(b.clone()), &ctx);
                    let obstructed = matches!(r.admission.outcome, WitnessedSuffixAdmissionOutcome::Obstructed { .. });
                    if !obstructed && r != clean {
                        flags.push(sig("import_suffix", bname, "altered-bundle-not-obstructed"));
                    }
                }
            }
        }
        flags.sort();
        flags.dedup();
        let classes = by_class.iter().map(|(k, v)| format!("{k}:{}:{}:{}", v.0, v.1, v.2)).collect::<Vec<_>>().join(",");
        let infos = info.iter().map(|(k, v)| format!("{k}:{v}")).collect::<Vec<_>>().join(",");
        println!(
            "R id={id} alts={nalt} rejected={rejected} accepted_same={accepted_same} classes={} info={} oracle={}",
            if classes.is_empty() { "-".into() } else { classes },
            if infos.is_empty() { "-".into() } else { infos },
            if flags.is_empty() { "ok".to_string() } else { format!("FAIL:{}", flags.join(",")) }
        );
    }
}
