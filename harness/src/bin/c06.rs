//! C06 harness: state root (snapshot.rs), columnar accumulator root (snapshot_accum.rs via the
//! `echo_verif` hook), WSC build/write/read/validate, on states built through the public API.
//!
//! case:  root=<warp> s=<sop;...> [t=<sop;...>] [ops=<wop;...>] [shuf=<k>] [muts=<0|1>] seed=<u64>
//!   sop:  I:w:root:<akey|->   N:w:id:ty   E:w:id:from:to:ty   A:w:id:<att>   B:w:id:<att>
//!         X:w:id (delete_node_cascade)  Y:w:id (delete_node_isolated)  Z:w:from:id (delete_edge_exact)
//!   wop:  OP:<akey>:cw:croot:<e.ty|r>  UI:w:root:<akey|->  DI:w  UN:w:id:ty  DN:w:id
//!         UE:w:id:from:to:ty  DE:w:from:id  SA:<akey>:<att>
//!   akey: <owner 1|2>.<plane 1|2>.<warp>.<local>      att: - | a.<type>.<hexbytes|-> | d.<warp>
//! output (compared with the Coq model up to ` oracle=`):
//!   root=<hex|err> acc=<hex|panic> content=<hex> sk=<nodes.buckets,...>
//!   [root2= content2= sk2=] [res=<ok|Exxx> root3= acc3= content3=] oracle=<ok|FAIL:sig,...> stats=<..>
use echo_verif_harness::*;
use std::collections::{BTreeMap, BTreeSet};
use std::panic::AssertUnwindSafe;
use warp_core::verif_hooks;
use warp_core::wsc::{build_one_warp_input, validate_wsc, write_wsc_one_warp, WarpView, WscFile};
use warp_core::{
    AtomPayload, AttachmentKey, AttachmentOwner, AttachmentPlane, AttachmentValue, EdgeId, EdgeKey,
    EdgeRecord, Engine, NodeId, NodeKey, NodeRecord, PortalInit, SchedulerKind,
    TickPatchError, TypeId, WarpId, WarpInstance, WarpOp, WarpState, WorldlineState,
};

type H = [u8; 32];
const PREFIX: &[u8] = b"echo:state_root:v1\0";

#[derive(Clone, PartialEq, Eq, Debug)]
enum Att {
    Atom(H, Vec<u8>),
    Desc(H),
}
type OAtt = Option<Att>;

#[derive(Clone, Copy, PartialEq, Eq, Debug)]
struct AKey {
    owner: u8,
    plane: u8,
    warp: H,
    local: H,
}

#[derive(Clone, Debug)]
enum Sop {
    Inst(H, H, Option<AKey>),
    Node(H, H, H),
    Edge(H, H, H, H, H), // w id from to ty
    Natt(H, H, OAtt),
    Eatt(H, H, OAtt),
    DelCascade(H, H),
    DelIso(H, H),
    DelEdge(H, H, H), // w from id
}

fn parse_att(s: &str) -> OAtt {
    if s == "-" {
        return None;
    }
    let f: Vec<&str> = s.split('.').collect();
    match f[0] {
        "a" => Some(Att::Atom(hex32(f[1]), unhex(f[2]))),
        "d" => Some(Att::Desc(hex32(f[1]))),
        _ => panic!("att {s}"),
    }
}

fn parse_akey(s: &str) -> Option<AKey> {
    if s == "-" {
        return None;
    }
    let f: Vec<&str> = s.split('.').collect();
    Some(AKey { owner: f[0].parse().unwrap(), plane: f[1].parse().unwrap(), warp: hex32(f[2]), local: hex32(f[3]) })
}

fn parse_sop(s: &str) -> Sop {
    let f: Vec<&str> = s.split(':').collect();
    match f[0] {
        "I" => Sop::Inst(hex32(f[1]), hex32(f[2]), parse_akey(f[3])),
        "N" => Sop::Node(hex32(f[1]), hex32(f[2]), hex32(f[3])),
        "E" => Sop::Edge(hex32(f[1]), hex32(f[2]), hex32(f[3]), hex32(f[4]), hex32(f[5])),
        "A" => Sop::Natt(hex32(f[1]), hex32(f[2]), parse_att(f[3])),
        "B" => Sop::Eatt(hex32(f[1]), hex32(f[2]), parse_att(f[3])),
        "X" => Sop::DelCascade(hex32(f[1]), hex32(f[2])),
        "Y" => Sop::DelIso(hex32(f[1]), hex32(f[2])),
        "Z" => Sop::DelEdge(hex32(f[1]), hex32(f[2]), hex32(f[3])),
        _ => panic!("sop {s}"),
    }
}

fn to_value(a: &Att) -> AttachmentValue {
    match a {
        Att::Atom(t, b) => AttachmentValue::Atom(AtomPayload::new(TypeId(*t), b.clone().into())),
        Att::Desc(w) => AttachmentValue::Descend(WarpId(*w)),
    }
}
fn from_value(v: &AttachmentValue) -> Att {
    match v {
        AttachmentValue::Atom(a) => Att::Atom(a.type_id.0, a.bytes.to_vec()),
        AttachmentValue::Descend(w) => Att::Desc(w.0),
    }
}
fn to_key(k: &AKey) -> AttachmentKey {
    AttachmentKey {
        owner: if k.owner == 1 {
            AttachmentOwner::Node(NodeKey { warp_id: WarpId(k.warp), local_id: NodeId(k.local) })
        } else {
            AttachmentOwner::Edge(EdgeKey { warp_id: WarpId(k.warp), local_id: EdgeId(k.local) })
        },
        plane: if k.plane == 1 { AttachmentPlane::Alpha } else { AttachmentPlane::Beta },
    }
}
fn from_key(k: &AttachmentKey) -> AKey {
    let plane = match k.plane {
        AttachmentPlane::Alpha => 1,
        AttachmentPlane::Beta => 2,
    };
    match k.owner {
        AttachmentOwner::Node(n) => AKey { owner: 1, plane, warp: n.warp_id.0, local: n.local_id.0 },
        AttachmentOwner::Edge(e) => AKey { owner: 2, plane, warp: e.warp_id.0, local: e.local_id.0 },
    }
}

fn parse_wop(s: &str) -> WarpOp {
    let f: Vec<&str> = s.split(':').collect();
    match f[0] {
        "OP" => WarpOp::OpenPortal {
            key: to_key(&parse_akey(f[1]).unwrap()),
            child_warp: WarpId(hex32(f[2])),
            child_root: NodeId(hex32(f[3])),
            init: if f[4] == "r" {
                PortalInit::RequireExisting
            } else {
                PortalInit::Empty { root_record: NodeRecord { ty: TypeId(hex32(&f[4][2..])) } }
            },
        },
        "UI" => WarpOp::UpsertWarpInstance {
            instance: WarpInstance {
                warp_id: WarpId(hex32(f[1])),
                root_node: NodeId(hex32(f[2])),
                parent: parse_akey(f[3]).map(|k| to_key(&k)),
            },
        },
        "DI" => WarpOp::DeleteWarpInstance { warp_id: WarpId(hex32(f[1])) },
        "UN" => WarpOp::UpsertNode {
            node: NodeKey { warp_id: WarpId(hex32(f[1])), local_id: NodeId(hex32(f[2])) },
            record: NodeRecord { ty: TypeId(hex32(f[3])) },
        },
        "DN" => WarpOp::DeleteNode { node: NodeKey { warp_id: WarpId(hex32(f[1])), local_id: NodeId(hex32(f[2])) } },
        "UE" => WarpOp::UpsertEdge {
            warp_id: WarpId(hex32(f[1])),
            record: EdgeRecord {
                id: EdgeId(hex32(f[2])),
                from: NodeId(hex32(f[3])),
                to: NodeId(hex32(f[4])),
                ty: TypeId(hex32(f[5])),
            },
        },
        "DE" => WarpOp::DeleteEdge {
            warp_id: WarpId(hex32(f[1])),
            from: NodeId(hex32(f[2])),
            edge_id: EdgeId(hex32(f[3])),
        },
        "SA" => WarpOp::SetAttachment { key: to_key(&parse_akey(f[1]).unwrap()), value: parse_att(f[2]).map(|a| to_value(&a)) },
        _ => panic!("wop {s}"),
    }
}

/// A WarpState plus the warp ids ever mentioned (WarpState has no public iteration).
#[derive(Clone)]
struct World {
    state: WarpState,
    warps: BTreeSet<H>,
}

impl World {
    fn new() -> Self {
        World { state: WarpState::new(), warps: BTreeSet::new() }
    }
    fn apply(&mut self, op: &Sop) {
        match op {
            Sop::Inst(w, root, parent) => {
                self.warps.insert(*w);
                let inst = WarpInstance { warp_id: WarpId(*w), root_node: NodeId(*root), parent: parent.map(|k| to_key(&k)) };
                // one-op patch: the instance/store is upserted, the portal-invariant verdict is ignored
                let _ = verif_hooks::apply_ops_to_state(&mut self.state, &[WarpOp::UpsertWarpInstance { instance: inst }]);
            }
            Sop::Node(w, id, ty) => {
                if let Some(st) = self.state.store_mut(&WarpId(*w)) {
                    st.insert_node(NodeId(*id), NodeRecord { ty: TypeId(*ty) });
                }
            }
            Sop::Edge(w, id, from, to, ty) => {
                if let Some(st) = self.state.store_mut(&WarpId(*w)) {
                    st.insert_edge(NodeId(*from), EdgeRecord { id: EdgeId(*id), from: NodeId(*from), to: NodeId(*to), ty: TypeId(*ty) });
                }
            }
            Sop::Natt(w, id, v) => {
                if let Some(st) = self.state.store_mut(&WarpId(*w)) {
                    st.set_node_attachment(NodeId(*id), v.as_ref().map(to_value));
                }
            }
            Sop::Eatt(w, id, v) => {
                if let Some(st) = self.state.store_mut(&WarpId(*w)) {
                    st.set_edge_attachment(EdgeId(*id), v.as_ref().map(to_value));
                }
            }
            Sop::DelCascade(w, id) => {
                if let Some(st) = self.state.store_mut(&WarpId(*w)) {
                    st.delete_node_cascade(NodeId(*id));
                }
            }
            Sop::DelIso(w, id) => {
                if let Some(st) = self.state.store_mut(&WarpId(*w)) {
                    let _ = st.delete_node_isolated(NodeId(*id));
                }
            }
            Sop::DelEdge(w, from, id) => {
                if let Some(st) = self.state.store_mut(&WarpId(*w)) {
                    st.delete_edge_exact(NodeId(*from), EdgeId(*id));
                }
            }
        }
    }
    fn build(script: &[Sop]) -> Self {
        let mut w = World::new();
        for op in script {
            w.apply(op);
        }
        w
    }
    fn root_key(&self, w: &H) -> Option<NodeKey> {
        self.state.instance(&WarpId(*w)).map(|i| NodeKey { warp_id: WarpId(*w), local_id: i.root_node })
    }
    /// Every element of the state as construction ops (instances first).
    fn elements(&self) -> (Vec<Sop>, Vec<Sop>) {
        let mut insts = Vec::new();
        let mut rest = Vec::new();
        for w in &self.warps {
            if let Some(i) = self.state.instance(&WarpId(*w)) {
                insts.push(Sop::Inst(*w, i.root_node.0, i.parent.as_ref().map(from_key)));
            }
            if let Some(st) = self.state.store(&WarpId(*w)) {
                for (id, rec) in st.iter_nodes() {
                    rest.push(Sop::Node(*w, id.0, rec.ty.0));
                }
                for (_, b) in st.iter_edges() {
                    for e in b {
                        rest.push(Sop::Edge(*w, e.id.0, e.from.0, e.to.0, e.ty.0));
                    }
                }
                for (id, v) in st.iter_node_attachments() {
                    rest.push(Sop::Natt(*w, id.0, Some(from_value(v))));
                }
                for (id, v) in st.iter_edge_attachments() {
                    rest.push(Sop::Eatt(*w, id.0, Some(from_value(v))));
                }
            }
        }
        (insts, rest)
    }
}

// ---------------------------------------------------------------- implementation observables

fn quiet<T>(f: impl FnOnce() -> T) -> Result<T, String> {
    catch(AssertUnwindSafe(f))
}

/// State root through the public API: WorldlineState::state_root when the state has exactly one
/// parentless instance, Engine::snapshot otherwise.  `Ok(None)` = constructors rejected the root.
fn impl_root(state: &WarpState, root: NodeKey, cross: &mut Vec<String>) -> Result<Option<H>, String> {
    quiet(|| {
        let ws = WorldlineState::new(state.clone(), root).ok().map(|ws| ws.state_root());
        let en = Engine::with_state(state.clone(), root, SchedulerKind::Radix, 0).ok().map(|e| e.snapshot().state_root);
        if let (Some(a), Some(b)) = (ws, en) {
            if a != b {
                cross.push("worldline-and-engine-state-root-differ".into());
            }
        }
        ws.or(en)
    })
}

fn fast_root(state: &WarpState, root: NodeKey) -> Result<Option<H>, String> {
    quiet(|| match WorldlineState::new(state.clone(), root) {
        Ok(ws) => Some(ws.state_root()),
        Err(_) => Engine::with_state(state.clone(), root, SchedulerKind::Radix, 0).ok().map(|e| e.snapshot().state_root),
    })
}

fn acc_root(state: &WarpState, ops: Vec<WarpOp>, root: NodeKey) -> Result<(H, Vec<u8>), String> {
    quiet(|| verif_hooks::accumulator_root_and_wsc(state, ops, &root, [0x5c; 32], 7))
}

// ---------------------------------------------------------------- reachable content (abstraction)

#[derive(Clone, PartialEq, Eq, Debug)]
struct CWarp {
    w: H,
    iroot: H,
    parent: Option<AKey>,
    nodes: Vec<(H, H, OAtt)>,
    buckets: Vec<(H, Vec<(H, H, H, OAtt)>)>,
}
#[derive(Clone, PartialEq, Eq, Debug)]
struct Content {
    root: (H, H),
    warps: Vec<CWarp>,
}

/// Reachability and content computed only with public read accessors (own worklist, not the
/// crate's traversal).
fn content(state: &WarpState, root: NodeKey) -> Content {
    let mut rn: BTreeSet<(H, H)> = BTreeSet::new();
    let mut rw: BTreeSet<H> = BTreeSet::new();
    let mut stack = vec![(root.warp_id.0, root.local_id.0)];
    rn.insert((root.warp_id.0, root.local_id.0));
    rw.insert(root.warp_id.0);
    fn descend(state: &WarpState, v: Option<&AttachmentValue>, rn: &mut BTreeSet<(H, H)>, rw: &mut BTreeSet<H>, stack: &mut Vec<(H, H)>) {
        if let Some(AttachmentValue::Descend(c)) = v {
            rw.insert(c.0);
            if let Some(i) = state.instance(c) {
                if rn.insert((c.0, i.root_node.0)) {
                    stack.push((c.0, i.root_node.0));
                }
            }
        }
    }
    while let Some((w, n)) = stack.pop() {
        let Some(st) = state.store(&WarpId(w)) else { continue };
        for e in st.edges_from(&NodeId(n)) {
            if rn.insert((w, e.to.0)) {
                stack.push((w, e.to.0));
            }
            descend(state, st.edge_attachment(&e.id), &mut rn, &mut rw, &mut stack);
        }
        descend(state, st.node_attachment(&NodeId(n)), &mut rn, &mut rw, &mut stack);
    }
    let mut warps = Vec::new();
    for w in &rw {
        let (Some(i), Some(st)) = (state.instance(&WarpId(*w)), state.store(&WarpId(*w))) else { continue };
        let mut nodes = Vec::new();
        for (id, rec) in st.iter_nodes() {
            if rn.contains(&(*w, id.0)) {
                nodes.push((id.0, rec.ty.0, st.node_attachment(id).map(from_value)));
            }
        }
        let mut buckets = Vec::new();
        for (from, b) in st.iter_edges() {
            if rn.contains(&(*w, from.0)) {
                let mut es: Vec<(H, H, H, OAtt)> =
                    b.iter().map(|e| (e.id.0, e.ty.0, e.to.0, st.edge_attachment(&e.id).map(from_value))).collect();
                es.sort_by(|a, b| a.0.cmp(&b.0));
                buckets.push((from.0, es));
            }
        }
        warps.push(CWarp { w: *w, iroot: i.root_node.0, parent: i.parent.as_ref().map(from_key), nodes, buckets });
    }
    Content { root: (root.warp_id.0, root.local_id.0), warps }
}

fn put_oatt(o: &mut Vec<u8>, a: &OAtt) {
    match a {
        None => o.push(0),
        Some(Att::Atom(t, b)) => {
            o.extend_from_slice(&[1, 1]);
            o.extend_from_slice(t);
            o.extend_from_slice(&(b.len() as u64).to_le_bytes());
            o.extend_from_slice(b);
        }
        Some(Att::Desc(w)) => {
            o.extend_from_slice(&[1, 2]);
            o.extend_from_slice(w);
        }
    }
}
fn put_oakey(o: &mut Vec<u8>, k: &Option<AKey>) {
    match k {
        None => o.push(0),
        Some(k) => {
            o.extend_from_slice(&[1, k.owner, k.plane]);
            o.extend_from_slice(&k.warp);
            o.extend_from_slice(&k.local);
        }
    }
}

impl Content {
    /// Byte stream of the documented state-root encoding for this content; `counts` adds the
    /// section counts (an unambiguous serialisation used only to compare contents).
    fn bytes(&self, prefix: bool, counts: bool) -> Vec<u8> {
        let mut o = Vec::new();
        if prefix {
            o.extend_from_slice(PREFIX);
        }
        o.extend_from_slice(&self.root.0);
        o.extend_from_slice(&self.root.1);
        if counts {
            o.extend_from_slice(&(self.warps.len() as u64).to_le_bytes());
        }
        for w in &self.warps {
            o.extend_from_slice(&w.w);
            o.extend_from_slice(&w.iroot);
            put_oakey(&mut o, &w.parent);
            if counts {
                o.extend_from_slice(&(w.nodes.len() as u64).to_le_bytes());
            }
            for (id, ty, a) in &w.nodes {
                o.extend_from_slice(id);
                o.extend_from_slice(ty);
                put_oatt(&mut o, a);
            }
            if counts {
                o.extend_from_slice(&(w.buckets.len() as u64).to_le_bytes());
            }
            for (from, es) in &w.buckets {
                o.extend_from_slice(from);
                o.extend_from_slice(&(es.len() as u64).to_le_bytes());
                for (id, ty, to, a) in es {
                    o.extend_from_slice(id);
                    o.extend_from_slice(ty);
                    o.extend_from_slice(to);
                    put_oatt(&mut o, a);
                }
            }
        }
        o
    }
    fn digest(&self) -> String {
        hex::encode(blake3::hash(&self.bytes(false, true)).as_bytes())
    }
    fn skeleton(&self) -> String {
        let v: Vec<String> = self.warps.iter().map(|w| format!("{}.{}", w.nodes.len(), w.buckets.len())).collect();
        if v.is_empty() {
            "-".into()
        } else {
            v.join(",")
        }
    }
}

fn b3(b: &[u8]) -> H {
    *blake3::hash(b).as_bytes()
}

// ---------------------------------------------------------------- oracles

fn check_indexes(w: &World, flags: &mut Vec<String>) {
    for id in &w.warps {
        let Some(st) = w.state.store(&WarpId(*id)) else { continue };
        let mut seen = BTreeSet::new();
        for (from, b) in st.iter_edges() {
            if b.is_empty() {
                flags.push("store-has-empty-bucket".into());
            }
            for e in b {
                if e.from != *from || !st.has_edge(&e.id) || !seen.insert(e.id.0) {
                    flags.push("store-index-incoherent".into());
                }
            }
        }
    }
}

fn att_rows_eq(view: &WarpView<'_>, rows: &[warp_core::wsc::types::AttRow], want: &OAtt) -> bool {
    match want {
        None => rows.is_empty(),
        Some(Att::Atom(t, b)) => rows.len() == 1 && rows[0].is_atom() && rows[0].type_or_warp == *t && view.blob_for_attachment(&rows[0]) == Some(&b[..]),
        Some(Att::Desc(w)) => rows.len() == 1 && rows[0].is_descend() && rows[0].type_or_warp == *w,
    }
}

/// Checks that WSC bytes denote exactly `nodes` / `edges` (id-sorted) with the given attachments.
fn wsc_denotes(
    bytes: Vec<u8>,
    warp: &H,
    root: &H,
    nodes: &[(H, H, OAtt)],
    edges: &[(H, H, H, H, OAtt)], // id from to ty att
) -> Result<(), String> {
    let file = WscFile::from_bytes(bytes).map_err(|e| format!("from_bytes:{e:?}"))?;
    validate_wsc(&file).map_err(|_| "validate".to_string())?;
    if file.warp_count() != 1 {
        return Err("warp-count".into());
    }
    let v = file.warp_view(0).map_err(|_| "view".to_string())?;
    if v.warp_id() != warp || v.root_node_id() != root {
        return Err("header".into());
    }
    if v.nodes().len() != nodes.len() || v.edges().len() != edges.len() {
        return Err("row-count".into());
    }
    for (i, (id, ty, a)) in nodes.iter().enumerate() {
        let r = &v.nodes()[i];
        if r.node_id != *id || r.node_type != *ty {
            return Err("node-row".into());
        }
        if !att_rows_eq(&v, v.node_attachments(i), a) {
            return Err("node-att".into());
        }
        let mut want: Vec<H> = edges.iter().filter(|e| e.1 == *id).map(|e| e.0).collect();
        want.sort();
        let got: Vec<H> = v.out_edges_for_node(i).iter().map(|o| o.edge_id).collect();
        if got != want {
            return Err("out-edges".into());
        }
        for o in v.out_edges_for_node(i) {
            if v.edges().get(o.edge_ix() as usize).map(|e| e.edge_id) != Some(o.edge_id) {
                return Err("out-edge-ix".into());
            }
        }
    }
    for (i, (id, from, to, ty, a)) in edges.iter().enumerate() {
        let r = &v.edges()[i];
        if r.edge_id != *id || r.from_node_id != *from || r.to_node_id != *to || r.edge_type != *ty {
            return Err("edge-row".into());
        }
        if !att_rows_eq(&v, v.edge_attachments(i), a) {
            return Err("edge-att".into());
        }
    }
    Ok(())
}

fn check_wsc(w: &World, root: NodeKey, c: &Content, acc_wsc: Option<&Vec<u8>>, flags: &mut Vec<String>) -> bool {
    let Some(st) = w.state.store(&root.warp_id) else { return false };
    if st.node(&root.local_id).is_none() {
        return false;
    }
    // (a) whole root store through build_one_warp_input
    let nodes: Vec<(H, H, OAtt)> = st.iter_nodes().map(|(id, r)| (id.0, r.ty.0, st.node_attachment(id).map(from_value))).collect();
    let mut edges: Vec<(H, H, H, H, OAtt)> = st
        .iter_edges()
        .flat_map(|(_, b)| b.iter())
        .map(|e| (e.id.0, e.from.0, e.to.0, e.ty.0, st.edge_attachment(&e.id).map(from_value)))
        .collect();
    edges.sort_by(|a, b| a.0.cmp(&b.0));
    let r = quiet(|| {
        let input = build_one_warp_input(st, root.local_id);
        write_wsc_one_warp(&input, [0x5c; 32], 7).map_err(|_| "write".to_string()).and_then(|b| wsc_denotes(b, &root.warp_id.0, &root.local_id.0, &nodes, &edges))
    });
    match r {
        Ok(Ok(())) => {}
        Ok(Err(e)) => flags.push(format!("wsc-store-roundtrip:{e}")),
        Err(_) => flags.push("wsc-store-roundtrip:panic".into()),
    }
    // (b) accumulator's WSC = reachable part of ONE warp.  `SnapshotAccumulator::build` documents
    // that only single-instance output is supported and writes `warp_inputs[0]`, i.e. the reachable
    // instance with the smallest warp id (not necessarily the root warp); that documented
    // convention is followed here.
    if let (Some(bytes), Some(cw)) = (acc_wsc, c.warps.first()) {
        if !cw.nodes.iter().any(|n| n.0 == cw.iroot) {
            return true; // validate_wsc requires the root row; nothing to compare
        }
        let mut es: Vec<(H, H, H, H, OAtt)> = Vec::new();
        for (from, b) in &cw.buckets {
            for (id, ty, to, a) in b {
                es.push((*id, *from, *to, *ty, a.clone()));
            }
        }
        es.sort_by(|a, b| a.0.cmp(&b.0));
        if let Err(e) = wsc_denotes(bytes.clone(), &cw.w, &cw.iroot, &cw.nodes, &es) {
            flags.push(format!("wsc-accumulator-roundtrip:{e}"));
        }
    }
    true
}

/// Classifies an accumulator/legacy root disagreement with the help of the documented encoding.
fn acc_verdict(root: &H, acc: &H, c: &Content, flags: &mut Vec<String>, tag: &str) {
    if acc == root {
        return;
    }
    if *root == b3(&c.bytes(true, false)) && *acc == b3(&c.bytes(false, false)) {
        flags.push(format!("accumulator-root-omits-domain-prefix{tag}"));
    } else {
        flags.push(format!("accumulator-root-disagrees{tag}"));
    }
}

fn flip(h: &H) -> H {
    let mut x = *h;
    x[31] ^= 0x40;
    x
}

/// All single semantic mutations of the final state (as construction ops applied on a clone).
fn mutations(w: &World, rootw: &H, rng: &mut Rng) -> Vec<(String, Vec<Sop>)> {
    let mut out: Vec<(String, Vec<Sop>)> = Vec::new();
    let insts: Vec<H> = w.warps.iter().filter(|x| w.state.instance(&WarpId(**x)).is_some()).cloned().collect();
    let fresh = |rng: &mut Rng| -> H {
        let mut h = [0u8; 32];
        for b in h.iter_mut() {
            *b = rng.next() as u8;
        }
        h
    };
    let att_muts = |cur: &OAtt, rng: &mut Rng| -> Vec<(&'static str, OAtt)> {
        let mut v: Vec<(&'static str, OAtt)> = Vec::new();
        match cur {
            None => {
                v.push(("att-add-empty-atom", Some(Att::Atom([0; 32], vec![]))));
                v.push(("att-add-atom", Some(Att::Atom(fresh(rng), vec![1, 2, 3]))));
            }
            Some(Att::Atom(t, b)) => {
                v.push(("att-remove", None));
                v.push(("att-atom-type", Some(Att::Atom(flip(t), b.clone()))));
                let mut b2 = b.clone();
                b2.push(0);
                v.push(("att-atom-append-zero", Some(Att::Atom(*t, b2))));
                if !b.is_empty() {
                    let mut b3 = b.clone();
                    let i = rng.below(b3.len());
                    b3[i] ^= 1;
                    v.push(("att-atom-byte", Some(Att::Atom(*t, b3))));
                    v.push(("att-atom-truncate", Some(Att::Atom(*t, b[..b.len() - 1].to_vec()))));
                }
                // same 32 bytes re-tagged as a portal (only to an existing instance: a dangling
                // portal is an internal-corruption debug assertion, not a state)
                if let Some(c) = insts.first() {
                    v.push(("att-atom-to-descend", Some(Att::Desc(*c))));
                }
            }
            Some(Att::Desc(c)) => {
                v.push(("att-remove", None));
                v.push(("att-descend-to-atom", Some(Att::Atom(*c, vec![]))));
                if let Some(o) = insts.iter().find(|x| *x != c) {
                    v.push(("att-descend-retarget", Some(Att::Desc(*o))));
                }
            }
        }
        v
    };
    for wid in &w.warps {
        let Some(st) = w.state.store(&WarpId(*wid)) else { continue };
        let node_ids: Vec<H> = st.iter_nodes().map(|(id, _)| id.0).collect();
        for (id, rec) in st.iter_nodes() {
            out.push(("node-type".into(), vec![Sop::Node(*wid, id.0, flip(&rec.ty.0))]));
            out.push(("node-delete".into(), vec![Sop::DelCascade(*wid, id.0)]));
            for (k, a) in att_muts(&st.node_attachment(id).map(from_value), rng) {
                out.push((format!("node-{k}"), vec![Sop::Natt(*wid, id.0, a)]));
            }
        }
        for (_, b) in st.iter_edges() {
            for e in b {
                out.push(("edge-type".into(), vec![Sop::Edge(*wid, e.id.0, e.from.0, e.to.0, flip(&e.ty.0))]));
                out.push(("edge-delete".into(), vec![Sop::DelEdge(*wid, e.from.0, e.id.0)]));
                if let Some(t) = node_ids.iter().find(|n| **n != e.to.0) {
                    out.push(("edge-retarget".into(), vec![Sop::Edge(*wid, e.id.0, e.from.0, *t, e.ty.0)]));
                }
                if let Some(f) = node_ids.iter().find(|n| **n != e.from.0) {
                    out.push(("edge-reparent".into(), vec![Sop::Edge(*wid, e.id.0, *f, e.to.0, e.ty.0)]));
                }
                let a = st.edge_attachment(&e.id).map(from_value);
                out.push((
                    "edge-rename".into(),
                    vec![Sop::DelEdge(*wid, e.from.0, e.id.0), Sop::Edge(*wid, flip(&e.id.0), e.from.0, e.to.0, e.ty.0), Sop::Eatt(*wid, flip(&e.id.0), a.clone())],
                ));
                for (k, a2) in att_muts(&a, rng) {
                    out.push((format!("edge-{k}"), vec![Sop::Eatt(*wid, e.id.0, a2)]));
                }
            }
        }
        // additions
        let nn = fresh(rng);
        out.push(("add-isolated-node".into(), vec![Sop::Node(*wid, nn, fresh(rng))]));
        out.push(("add-orphan-node-attachment".into(), vec![Sop::Natt(*wid, fresh(rng), Some(Att::Atom(fresh(rng), vec![9])))]));
        out.push(("add-orphan-edge-attachment".into(), vec![Sop::Eatt(*wid, fresh(rng), Some(Att::Atom(fresh(rng), vec![9])))]));
        if !node_ids.is_empty() {
            let a = node_ids[rng.below(node_ids.len())];
            let b = node_ids[rng.below(node_ids.len())];
            out.push(("add-edge".into(), vec![Sop::Edge(*wid, fresh(rng), a, b, fresh(rng))]));
            out.push(("add-node-and-edge".into(), vec![Sop::Node(*wid, nn, fresh(rng)), Sop::Edge(*wid, fresh(rng), a, nn, fresh(rng))]));
            out.push(("add-dangling-edge".into(), vec![Sop::Edge(*wid, fresh(rng), a, fresh(rng), fresh(rng))]));
        }
        if let Some(i) = w.state.instance(&WarpId(*wid)) {
            let p = i.parent.as_ref().map(from_key);
            if wid != rootw {
                out.push(("instance-root".into(), vec![Sop::Inst(*wid, flip(&i.root_node.0), p)]));
                match p {
                    None => {}
                    Some(k) => {
                        out.push(("instance-parent-local".into(), vec![Sop::Inst(*wid, i.root_node.0, Some(AKey { local: flip(&k.local), ..k }))]));
                        out.push(("instance-parent-warp".into(), vec![Sop::Inst(*wid, i.root_node.0, Some(AKey { warp: flip(&k.warp), ..k }))]));
                        out.push(("instance-parent-plane".into(), vec![Sop::Inst(*wid, i.root_node.0, Some(AKey { plane: 3 - k.plane, ..k }))]));
                        out.push(("instance-parent-owner".into(), vec![Sop::Inst(*wid, i.root_node.0, Some(AKey { owner: 3 - k.owner, ..k }))]));
                    }
                }
            } else {
                // moving the root instance's root node moves the root key itself
                if let Some(n) = node_ids.iter().find(|n| **n != i.root_node.0) {
                    out.push(("root-key".into(), vec![Sop::Inst(*wid, *n, None)]));
                }
                out.push(("root-key-fresh".into(), vec![Sop::Inst(*wid, flip(&i.root_node.0), None)]));
            }
        }
    }
    out.push(("add-unreferenced-instance".into(), vec![Sop::Inst(fresh(rng), fresh(rng), Some(AKey { owner: 1, plane: 1, warp: *rootw, local: fresh(rng) }))]));
    out
}

fn err_name(e: &TickPatchError) -> &'static str {
    match e {
        TickPatchError::MissingWarp(_) => "EMissingWarp",
        TickPatchError::MissingNode(_) => "EMissingNode",
        TickPatchError::MissingEdge(_) => "EMissingEdge",
        TickPatchError::NodeNotIsolated(_) => "ENotIsolated",
        TickPatchError::InvalidAttachmentKey(_) => "EInvalidKey",
        TickPatchError::PortalInitRequired => "EPortalInit",
        TickPatchError::PortalInvariantViolation => "EPortalInv",
        TickPatchError::DigestMismatch => "EDigest",
    }
}

fn hx(r: &Result<Option<H>, String>) -> String {
    match r {
        Ok(Some(h)) => hex::encode(h),
        Ok(None) => "err".into(),
        Err(_) => "panic".into(),
    }
}

fn main() {
    std::panic::set_hook(Box::new(|_| {}));
    for line in read_cases() {
        let m = kv(&line);
        let rootw = hex32(m.get("root").map(String::as_str).unwrap_or("0"));
        let script: Vec<Sop> = items(m.get("s").map(String::as_str).unwrap_or("-")).iter().map(|s| parse_sop(s)).collect();
        let seed: u64 = m.get("seed").and_then(|s| s.parse().ok()).unwrap_or(1);
        let shuf: usize = m.get("shuf").and_then(|s| s.parse().ok()).unwrap_or(0);
        let muts = m.get("muts").map(|s| s == "1").unwrap_or(false);
        let mut rng = Rng(seed);
        let mut flags: Vec<String> = Vec::new();
        let mut stats: BTreeMap<&'static str, usize> = BTreeMap::new();

        let w = World::build(&script);
        check_indexes(&w, &mut flags);
        let mut out = String::new();
        let Some(root) = w.root_key(&rootw) else {
            println!("root=err acc=- content=- sk=- oracle=ok stats=-");
            continue;
        };
        let r1 = impl_root(&w.state, root, &mut flags);
        let c1 = content(&w.state, root);
        let a1 = acc_root(&w.state, vec![], root);
        out.push_str(&format!(
            "root={} acc={} content={} sk={}",
            hx(&r1),
            match &a1 {
                Ok((h, _)) => hex::encode(h),
                Err(_) => "panic".into(),
            },
            c1.digest(),
            c1.skeleton()
        ));
        if let Ok(Some(r)) = &r1 {
            if *r != b3(&c1.bytes(true, false)) {
                flags.push("state-root-differs-from-documented-encoding".into());
            }
            if let Ok((a, wsc)) = &a1 {
                acc_verdict(r, a, &c1, &mut flags, "");
                if check_wsc(&w, root, &c1, Some(wsc), &mut flags) {
                    *stats.entry("wsc").or_default() += 1;
                }
            } else {
                flags.push("accumulator-panics".into());
            }

            // construction-order shuffles of the final state's elements
            let (insts, rest) = w.elements();
            for _ in 0..shuf {
                let mut i2 = insts.clone();
                let mut r2 = rest.clone();
                rng.shuffle(&mut i2);
                rng.shuffle(&mut r2);
                i2.extend(r2);
                let w2 = World::build(&i2);
                *stats.entry("shuffles").or_default() += 1;
                match fast_root(&w2.state, root) {
                    Ok(Some(x)) if x == *r => {}
                    _ => flags.push("construction-order-changes-root".into()),
                }
                if content(&w2.state, root) != c1 {
                    flags.push("harness-rebuild-changed-content".into());
                }
                if let (Ok((a, _)), Ok((b, _))) = (&a1, acc_root(&w2.state, vec![], root)) {
                    if *a != b {
                        flags.push("construction-order-changes-accumulator-root".into());
                    }
                }
            }

            // single mutations: the root changes iff the reachable content changes
            if muts {
                for (kind, ops) in mutations(&w, &rootw, &mut rng) {
                    let mut w2 = w.clone();
                    for op in &ops {
                        w2.apply(op);
                    }
                    let Some(root2) = w2.root_key(&rootw) else { continue };
                    let r2 = match fast_root(&w2.state, root2) {
                        Ok(Some(x)) => x,
                        Ok(None) => continue,
                        Err(_) => {
                            *stats.entry("mut_skipped_debug_assert").or_default() += 1;
                            continue;
                        }
                    };
                    let c2 = content(&w2.state, root2);
                    let same_c = c2 == c1;
                    *stats.entry(if same_c { "mut_unreachable" } else { "mut_reachable" }).or_default() += 1;
                    if same_c && r2 != *r {
                        flags.push(format!("root-depends-on-unreachable-or-layout:{kind}"));
                    }
                    if !same_c && r2 == *r {
                        // F3 class only if the documented byte stream itself is the same for the two
                        // contents; anything else is a field/record the root fails to bind.
                        if c2.bytes(true, false) == c1.bytes(true, false) {
                            flags.push("state-root-preimage-not-uniquely-decodable".into());
                        } else {
                            flags.push(format!("root-misses-reachable-change:{kind}"));
                        }
                    }
                }
            }
        }

        // second script: equal roots iff equal reachable content
        if let Some(t) = m.get("t") {
            let script2: Vec<Sop> = items(t).iter().map(|s| parse_sop(s)).collect();
            let w2 = World::build(&script2);
            check_indexes(&w2, &mut flags);
            match w2.root_key(&rootw) {
                None => out.push_str(" root2=err content2=- sk2=-"),
                Some(root2) => {
                    let r2 = impl_root(&w2.state, root2, &mut flags);
                    let c2 = content(&w2.state, root2);
                    out.push_str(&format!(" root2={} content2={} sk2={}", hx(&r2), c2.digest(), c2.skeleton()));
                    if let (Ok(Some(a)), Ok(Some(b))) = (&r1, &r2) {
                        if c1 == c2 && a != b {
                            flags.push("equal-content-different-root".into());
                        }
                        if c1 != c2 && a == b {
                            // known format-level ambiguity (F3) = different contents whose documented
                            // byte streams coincide (necessarily with different section counts);
                            // equal roots for different byte streams are a different failure.
                            if c1.bytes(true, false) == c2.bytes(true, false) && c1.skeleton() != c2.skeleton() {
                                flags.push("state-root-preimage-not-uniquely-decodable".into());
                            } else {
                                flags.push("state-root-collision-distinct-encodings".into());
                            }
                        }
                    }
                }
            }
        }

        // op sequence applied to the store and to the accumulator
        if let Some(o) = m.get("ops") {
            let ops: Vec<WarpOp> = items(o).iter().map(|s| parse_wop(s)).collect();
            let mut w3 = w.clone();
            for op in &ops {
                if let WarpOp::UpsertWarpInstance { instance } = op {
                    w3.warps.insert(instance.warp_id.0);
                }
                if let WarpOp::OpenPortal { child_warp, .. } = op {
                    w3.warps.insert(child_warp.0);
                }
            }
            let res = quiet(|| verif_hooks::apply_ops_to_state(&mut w3.state, &ops));
            match res {
                Err(_) => out.push_str(" res=panic root3=- acc3=- content3=-"),
                Ok(Err(e)) => out.push_str(&format!(" res={} root3=- acc3=- content3=-", err_name(&e))),
                Ok(Ok(())) => {
                    check_indexes(&w3, &mut flags);
                    match w3.root_key(&rootw) {
                        None => out.push_str(" res=ok root3=err acc3=- content3=-"),
                        Some(root3) => {
                            let r3 = impl_root(&w3.state, root3, &mut flags);
                            let c3 = content(&w3.state, root3);
                            let a3 = acc_root(&w.state, ops.clone(), root3);
                            out.push_str(&format!(
                                " res=ok root3={} acc3={} content3={}",
                                hx(&r3),
                                match &a3 {
                                    Ok((h, _)) => hex::encode(h),
                                    Err(_) => "panic".into(),
                                },
                                c3.digest()
                            ));
                            if let Ok(Some(r)) = &r3 {
                                match &a3 {
                                    Ok((a, _)) => acc_verdict(r, a, &c3, &mut flags, ":after-ops"),
                                    Err(_) => flags.push("accumulator-panics-on-ops-the-store-accepts".into()),
                                }
                                // accumulator built from the post-state must agree with base+ops
                                if let (Ok((a, _)), Ok((b, _))) = (&a3, acc_root(&w3.state, vec![], root3)) {
                                    if *a != b {
                                        flags.push("accumulator-ops-differ-from-accumulator-of-post-state".into());
                                    }
                                }
                                if *r != b3(&c3.bytes(true, false)) {
                                    flags.push("state-root-differs-from-documented-encoding:after-ops".into());
                                }
                            }
                        }
                    }
                }
            }
        }

        flags.sort();
        flags.dedup();
        let orc = if flags.is_empty() { "ok".to_string() } else { format!("FAIL:{}", flags.join(",")) };
        let st: Vec<String> = stats.iter().map(|(k, v)| format!("{k}:{v}")).collect();
        println!("{} oracle={} stats={}", out, orc, if st.is_empty() { "-".into() } else { st.join(",") });
    }
}
