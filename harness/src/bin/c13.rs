//! C13 harness: byte-level totality of decoders / readers / host entry points.
//!
//! parent:  c13 <casefile> [--jobs N] [--cap BYTES] [--stack BYTES] [--timeout-ms N]
//!   case:   dec=<decoder> in=<spec>          spec = part+part+...; part = <hex> | <hex>*<count> | r<seed>x<len>
//!   output: dec=<decoder> len=<n> class=<value|error|PANIC|ABORT|OOM|STACK|TIMEOUT> peak=<bytes> detail=<..>
//!           [val=<flat tokens>] oracle=<ok|FAIL:sig>
//! child:   c13 --child <cap> <stack>   (cases on stdin, one result line per case, flushed)
//!
//! Every input is executed inside a child process (re-exec of this binary) that has a counting
//! global allocator (peak live bytes relative to the start of the call; requests that would exceed
//! the cap fail, which makes Rust abort => OOM) and runs the decoders on a thread with a fixed stack
//! (deep recursion => guard page => abort => STACK).  The parent batches cases per child; when a
//! child dies or stalls, the in-flight case is re-run alone in a fresh child (that verdict is the
//! reported one) and the rest of the batch continues in another fresh child.
#![allow(clippy::all)]
use echo_verif_harness::*;
use std::alloc::{GlobalAlloc, Layout, System};
use std::io::{BufRead, BufReader, Write};
use std::process::{Command, Stdio};
use std::sync::atomic::{AtomicUsize, Ordering::Relaxed};
use std::sync::mpsc;
use std::time::Duration;

// ---------------------------------------------------------------------------------- allocator

struct Counting;
static CUR: AtomicUsize = AtomicUsize::new(0);
static PEAK: AtomicUsize = AtomicUsize::new(0);
static LIMIT: AtomicUsize = AtomicUsize::new(usize::MAX);
static BIGGEST: AtomicUsize = AtomicUsize::new(0);
static MARK: AtomicUsize = AtomicUsize::new(usize::MAX);

/// Called by a decoder wrapper right after the call under test returned (before it renders the
/// result): freezes the peak reading so that rendering is not charged to the decoder.
pub fn mark() {
    if MARK.load(Relaxed) == usize::MAX {
        MARK.store(PEAK.load(Relaxed), Relaxed);
    }
}

#[inline]
fn note(new_cur: usize) {
    let mut p = PEAK.load(Relaxed);
    while new_cur > p {
        match PEAK.compare_exchange_weak(p, new_cur, Relaxed, Relaxed) {
            Ok(_) => break,
            Err(x) => p = x,
        }
    }
}

unsafe impl GlobalAlloc for Counting {
    unsafe fn alloc(&self, l: Layout) -> *mut u8 {
        let n = l.size();
        let c = CUR.load(Relaxed).saturating_add(n);
        if c > LIMIT.load(Relaxed) {
            BIGGEST.fetch_max(n, Relaxed);
            return std::ptr::null_mut();
        }
        let p = unsafe { System.alloc(l) };
        if !p.is_null() {
            note(CUR.fetch_add(n, Relaxed) + n);
        }
        p
    }
    unsafe fn alloc_zeroed(&self, l: Layout) -> *mut u8 {
        let n = l.size();
        let c = CUR.load(Relaxed).saturating_add(n);
        if c > LIMIT.load(Relaxed) {
            BIGGEST.fetch_max(n, Relaxed);
            return std::ptr::null_mut();
        }
        let p = unsafe { System.alloc_zeroed(l) };
        if !p.is_null() {
            note(CUR.fetch_add(n, Relaxed) + n);
        }
        p
    }
    unsafe fn dealloc(&self, p: *mut u8, l: Layout) {
        unsafe { System.dealloc(p, l) };
        CUR.fetch_sub(l.size(), Relaxed);
    }
    unsafe fn realloc(&self, p: *mut u8, l: Layout, new: usize) -> *mut u8 {
        // conservative: old and new blocks are both live while the data moves
        let c = CUR.load(Relaxed).saturating_add(new);
        if c > LIMIT.load(Relaxed) {
            BIGGEST.fetch_max(new, Relaxed);
            return std::ptr::null_mut();
        }
        let q = unsafe { System.realloc(p, l, new) };
        if !q.is_null() {
            note(CUR.load(Relaxed) + new);
            if new >= l.size() {
                CUR.fetch_add(new - l.size(), Relaxed);
            } else {
                CUR.fetch_sub(l.size() - new, Relaxed);
            }
        }
        q
    }
}

#[global_allocator]
static GLOBAL: Counting = Counting;

// ---------------------------------------------------------------------------------- inputs

fn expand(spec: &str) -> Vec<u8> {
    let mut out = Vec::new();
    if spec == "-" || spec.is_empty() {
        return out;
    }
    for part in spec.split('+') {
        if let Some(rest) = part.strip_prefix('r') {
            let (seed, len) = rest.split_once('x').expect("r<seed>x<len>");
            let mut rng = Rng(seed.parse().expect("seed"));
            let len: usize = len.parse().expect("len");
            out.reserve(len);
            while out.len() < len {
                let w = rng.next().to_le_bytes();
                let take = (len - out.len()).min(8);
                out.extend_from_slice(&w[..take]);
            }
        } else if let Some((h, n)) = part.split_once('*') {
            let pat = unhex(h);
            let n: usize = n.parse().expect("count");
            out.reserve(pat.len() * n);
            for _ in 0..n {
                out.extend_from_slice(&pat);
            }
        } else {
            out.extend_from_slice(&unhex(part));
        }
    }
    out
}

// ---------------------------------------------------------------------------------- decoders

/// What a decoder call produced: Ok(summary) = value, Err(kind) = typed error.
type Outcome = Result<String, String>;

mod decoders {
    use super::Outcome;
    use ciborium::value::Value;
    use echo_wasm_abi::kernel_port as kp;
    use warp_core::causal_wal as wal;

    pub type Dec = fn(&[u8]) -> Outcome;

    /// flat pre-order token rendering of a decoded ABI value (iterative: no recursion of our own)
    fn flat(v: &Value) -> String {
        let mut out: Vec<String> = Vec::new();
        let mut stack: Vec<&Value> = vec![v];
        while let Some(x) = stack.pop() {
            match x {
                Value::Integer(i) => out.push(format!("0:{}", i128::from(*i))),
                Value::Bytes(b) => out.push(format!("2:{}:{}", b.len(), super::tohex(b))),
                Value::Text(s) => out.push(format!("3:{}:{}", s.len(), super::tohex(s.as_bytes()))),
                Value::Array(a) => {
                    out.push(format!("4:{}", a.len()));
                    for y in a.iter().rev() {
                        stack.push(y);
                    }
                }
                Value::Map(m) => {
                    out.push(format!("5:{}", m.len()));
                    for (k, w) in m.iter().rev() {
                        stack.push(w);
                        stack.push(k);
                    }
                }
                Value::Bool(b) => out.push(format!("7:{}", u8::from(*b))),
                Value::Null => out.push("7:2".into()),
                Value::Float(f) => {
                    if f.is_nan() {
                        out.push("8:nan".into())
                    } else {
                        out.push(format!("8:{:016x}", f.to_bits()))
                    }
                }
                _ => out.push("X".into()),
            }
        }
        out.join(",")
    }

    fn canon_err(e: &echo_wasm_abi::CanonError) -> String {
        use echo_wasm_abi::CanonError as E;
        match e {
            E::Incomplete => "EIncomplete".into(),
            E::Trailing => "ETrailing".into(),
            E::Tag => "ETag".into(),
            E::Indefinite => "EIndefinite".into(),
            E::NonCanonicalInt => "ENonCanonInt".into(),
            E::NonCanonicalFloat => "ENonCanonFloat".into(),
            E::FloatShouldBeInt => "EFloatShouldBeInt".into(),
            E::MapKeyOrder => "EMapKeyOrder".into(),
            E::MapKeyDuplicate => "EMapKeyDup".into(),
            E::Decode(s) => {
                if s.starts_with("invalid length info") {
                    "EBadLenInfo".into()
                } else if s.starts_with("integer out of range") {
                    "EIntRange".into()
                } else if s.starts_with("utf8") {
                    "EUtf8".into()
                } else if s.starts_with("simple value not supported") {
                    "ESimple".into()
                } else if s.starts_with("unknown major type") {
                    "EMajor".into()
                } else if s.starts_with("nesting too deep") {
                    "EDepth".into()
                } else {
                    "Decode".into()
                }
            }
            E::Encode(_) => "Encode".into(),
        }
    }

    fn abi_cbor(b: &[u8]) -> Outcome {
        let r = echo_wasm_abi::decode_value(b);
        super::mark();
        match r {
            Ok(v) => Ok(if b.len() <= 600 { flat(&v) } else { "big".into() }),
            Err(e) => Err(canon_err(&e)),
        }
    }

    /// typed result -> Outcome with the peak frozen right after the call
    fn fin<T, E>(r: Result<T, E>, e: impl FnOnce(&E) -> String) -> Outcome {
        super::mark();
        match r {
            Ok(_) => Ok("ok".into()),
            Err(x) => Err(e(&x)),
        }
    }
    fn dbg_head<E: std::fmt::Debug>(e: &E) -> String {
        let s = format!("{e:?}");
        s.chars().take_while(|c| c.is_ascii_alphanumeric() || *c == '_').collect()
    }

    macro_rules! dto {
        ($name:ident, $t:ty) => {
            fn $name(b: &[u8]) -> Outcome {
                fin(echo_wasm_abi::decode_cbor::<$t>(b), canon_err)
            }
        };
    }
    dto!(dto_warpgraph, echo_wasm_abi::WarpGraph);
    dto!(dto_rewrite, echo_wasm_abi::Rewrite);
    dto!(dto_obsreq, kp::ObservationRequest);
    dto!(dto_obsoptic, kp::ObserveOpticRequest);
    dto!(dto_dispoptic, kp::DispatchOpticIntentRequest);
    dto!(dto_settle, kp::SettlementRequest);
    dto!(dto_control, kp::ControlIntentV1);
    dto!(dto_import, kp::ImportSuffixRequest);
    dto!(dto_sched, kp::SchedulerStatus);
    dto!(dto_dispresp, kp::OkEnvelope<kp::DispatchResponse>);
    dto!(dto_reginfo, kp::OkEnvelope<kp::RegistryInfo>);
    dto!(dto_headinfo, kp::HeadInfo);
    dto!(dto_errenv, kp::ErrEnvelope);
    dto!(dto_obsart, kp::OkEnvelope<kp::ObservationArtifact>);

    fn env_intent(b: &[u8]) -> Outcome {
        fin(echo_wasm_abi::unpack_intent_v1(b), dbg_head)
    }
    fn env_control(b: &[u8]) -> Outcome {
        fin(echo_wasm_abi::unpack_control_intent_v1(b), dbg_head)
    }
    fn env_import(b: &[u8]) -> Outcome {
        fin(echo_wasm_abi::unpack_import_suffix_intent_v1(b), dbg_head)
    }

    // codec.rs Reader driven through every read_* method by a composite Decode impl
    #[allow(dead_code)]
    struct Item {
        tag: u8,
        opt: Option<i64>,
        name: String,
    }
    #[allow(dead_code)]
    struct Composite {
        a: u32,
        arr: [u8; 4],
        b: u16,
        c: i32,
        f: f32,
        flag: bool,
        blob: Vec<u8>,
        items: Vec<Item>,
        nested: Vec<Vec<u8>>,
    }
    impl echo_wasm_abi::codec::Decode for Composite {
        fn decode(r: &mut echo_wasm_abi::codec::Reader<'_>) -> Result<Self, echo_wasm_abi::codec::CodecError> {
            Ok(Composite {
                a: r.read_u32_le()?,
                arr: r.read_byte_array::<4>()?,
                b: r.read_u16_le()?,
                c: r.read_i32_le()?,
                f: r.read_f32_le()?,
                flag: r.read_bool()?,
                blob: r.read_len_prefixed_bytes(1 << 16)?.to_vec(),
                items: r.read_list(|r| {
                    Ok(Item { tag: r.read_u8()?, opt: r.read_option(|r| r.read_i64_le())?, name: r.read_string(64)? })
                })?,
                nested: r.read_list(|r| r.read_list(|r| r.read_u8()))?,
            })
        }
    }
    impl echo_wasm_abi::codec::Encode for Composite {
        fn encode(&self, w: &mut echo_wasm_abi::codec::Writer) -> Result<(), echo_wasm_abi::codec::CodecError> {
            let _ = w;
            Ok(())
        }
    }
    fn abi_codec(b: &[u8]) -> Outcome {
        fin(echo_wasm_abi::codec::decode_from_bytes::<Composite>(b), dbg_head)
    }
    fn codec_seed() -> Vec<u8> {
        let mut v = Vec::new();
        v.extend_from_slice(&7u32.to_le_bytes());
        v.extend_from_slice(&[1, 2, 3, 4]);
        v.extend_from_slice(&9u16.to_le_bytes());
        v.extend_from_slice(&(-5i32).to_le_bytes());
        v.extend_from_slice(&1.5f32.to_le_bytes());
        v.push(1);
        v.extend_from_slice(&3u32.to_le_bytes());
        v.extend_from_slice(b"abc");
        v.extend_from_slice(&2u32.to_le_bytes());
        for t in 0..2u8 {
            v.push(t);
            v.push(1);
            v.extend_from_slice(&(t as i64 - 1).to_le_bytes());
            v.extend_from_slice(&2u32.to_le_bytes());
            v.extend_from_slice(b"hi");
        }
        v.extend_from_slice(&1u32.to_le_bytes());
        v.extend_from_slice(&2u32.to_le_bytes());
        v.extend_from_slice(&[8, 9]);
        v
    }

    fn abi_elog(b: &[u8]) -> Outcome {
        let mut cur: &[u8] = b;
        let r = (|| -> std::io::Result<usize> {
            echo_wasm_abi::read_elog_header(&mut cur)?;
            let mut n = 0;
            while let Some(_f) = echo_wasm_abi::read_elog_frame(&mut cur)? {
                n += 1;
            }
            Ok(n)
        })();
        fin(r, |e| format!("{:?}", e.kind()))
    }

    fn edict(b: &[u8]) -> Outcome {
        fin(echo_edict_canonical::decode_canonical_cbor_v1(b), |e| format!("{:?}", e.kind()))
    }

    fn ingress(b: &[u8]) -> Outcome {
        fin(warp_core::IngressEnvelope::from_retained_bytes(b), dbg_head)
    }

    macro_rules! walrec {
        ($name:ident, $t:ty) => {
            fn $name(b: &[u8]) -> Outcome {
                fin(<$t>::from_payload_bytes(b), dbg_head)
            }
        };
    }
    walrec!(wal_subacc, wal::SubmissionAcceptanceRecord);
    walrec!(wal_subenv, wal::WalSubmissionEnvelopeRecord);
    walrec!(wal_statedelta, wal::WalRuntimeStateDeltaRecord);
    walrec!(wal_tick, wal::TickReceiptRecord);
    walrec!(wal_corr, wal::WalReceiptCorrelationRecord);
    walrec!(wal_material, wal::RetainedMaterialRecord);
    walrec!(wal_reading, wal::ReadingRefRecord);
    walrec!(wal_checkpoint, wal::CheckpointRecord);
    walrec!(wal_cppub, wal::CheckpointPublicationRecord);
    walrec!(wal_matintent, wal::MaterializationIntentRecord);
    walrec!(wal_matobs, wal::MaterializationObservationRecord);
    walrec!(wal_fork, wal::StrandForkRecord);
    walrec!(wal_drop, wal::StrandDropRecord);
    walrec!(wal_braid, wal::TopologyBraidEventRecord);
    walrec!(wal_shell, wal::BraidShellRetentionRecord);
    walrec!(wal_suffix, wal::SuffixImportRecord);

    fn wal_segment_ro(b: &[u8]) -> Outcome {
        fin(wal::recover_wal_segment_bytes(wal::WalSegmentId::from_raw(1), b, wal::RecoveryAccessMode::ReadOnly), dbg_head)
    }
    fn wal_segment_rw(b: &[u8]) -> Outcome {
        fin(wal::recover_wal_segment_bytes(wal::WalSegmentId::from_raw(1), b, wal::RecoveryAccessMode::Writable), dbg_head)
    }

    /// WscFile::from_bytes + validate_wsc; when both accept, every public accessor is exercised.
    fn wsc_touch(file: &warp_core::wsc::WscFile) -> Result<usize, warp_core::wsc::ReadError> {
        let mut acc = 0usize;
        let _ = (file.header(), file.tick(), file.schema_hash(), file.data().len());
        for i in 0..file.warp_count() {
            let v = file.warp_view(i)?;
            acc ^= v.warp_id()[0] as usize ^ v.root_node_id()[0] as usize ^ v.blobs().len() ^ v.raw_data().len();
            v.validate_index_ranges()?;
            for (ix, n) in v.nodes().iter().enumerate() {
                acc ^= v.node_ix(&n.node_id).unwrap_or(0);
                for a in v.node_attachments(ix) {
                    acc ^= v.blob_for_attachment(a).map(|b| b.len()).unwrap_or(0);
                }
                for o in v.out_edges_for_node(ix) {
                    acc ^= v.edges().get(o.edge_ix() as usize).map(|e| e.edge_id[0] as usize).unwrap_or(1);
                }
            }
            for (ix, e) in v.edges().iter().enumerate() {
                acc ^= v.edge_ix(&e.edge_id).unwrap_or(0);
                for a in v.edge_attachments(ix) {
                    acc ^= v.blob_for_attachment(a).map(|b| b.len()).unwrap_or(0);
                }
            }
        }
        Ok(acc)
    }
    fn wsc(b: &[u8]) -> Outcome {
        let r = (|| {
            let file = warp_core::wsc::WscFile::from_bytes(b.to_vec())?;
            warp_core::wsc::validate_wsc(&file)?;
            wsc_touch(&file)
        })();
        fin(r, dbg_head)
    }
    /// header accepted by from_bytes, accessors used WITHOUT validate_wsc (what a careless caller does)
    fn wsc_view(b: &[u8]) -> Outcome {
        let r = (|| {
            let file = warp_core::wsc::WscFile::from_bytes(b.to_vec())?;
            let mut acc = 0usize;
            for i in 0..file.warp_count().min(64) {
                let v = file.warp_view(i)?;
                v.validate_index_ranges()?;
                acc ^= v.nodes().len() ^ v.edges().len();
            }
            Ok::<usize, warp_core::wsc::ReadError>(acc)
        })();
        fin(r, dbg_head)
    }
    /// read.rs::read_bytes / read_slice driven directly: input = offset u64 LE | count u64 LE | data.
    /// The summary is compared with Model/WscReadPA.v (base = address of the data modulo 2^16).
    fn wsc_read(b: &[u8]) -> Outcome {
        use warp_core::wsc::read::{read_bytes, read_slice};
        use warp_core::wsc::types::{NodeRow, Range};
        if b.len() < 16 {
            super::mark();
            return Err("short".into());
        }
        let off = u64::from_le_bytes(b[0..8].try_into().unwrap());
        let cnt = u64::from_le_bytes(b[8..16].try_into().unwrap());
        // 8-aligned copy of the data so that the base alignment is meaningful and reported
        let words = (b.len() - 16 + 7) / 8;
        let mut store: Vec<u64> = vec![0; words.max(1)];
        let data: &mut [u8] = &mut bytemuck_bytes(&mut store)[..b.len() - 16];
        data.copy_from_slice(&b[16..]);
        let data: &[u8] = data;
        let base = (data.as_ptr() as usize) % 65536;
        let f = |r: Result<(usize, usize), warp_core::wsc::ReadError>| match r {
            Ok((s, l)) => format!("ok:{s}:{l}"),
            Err(warp_core::wsc::ReadError::SectionOutOfBounds { .. }) => "oob".to_string(),
            Err(warp_core::wsc::ReadError::Alignment(_)) => "cast".to_string(),
            Err(e) => format!("other:{}", dbg_head(&e)),
        };
        let p0 = data.as_ptr() as usize;
        let rb = f(read_bytes(data, off, cnt, "x").map(|s| (s.as_ptr() as usize - p0, s.len())));
        let rr = f(read_slice::<Range>(data, off, cnt, "x").map(|s| (s.as_ptr() as usize - p0, s.len() * 16)));
        let rn = f(read_slice::<NodeRow>(data, off, cnt, "x").map(|s| (s.as_ptr() as usize - p0, s.len() * 64)));
        super::mark();
        Ok(format!("base:{base},len:{},off:{off},cnt:{cnt},bytes:{rb},range:{rr},node:{rn}", data.len()))
    }
    fn bytemuck_bytes(v: &mut [u64]) -> &mut [u8] {
        // safe reinterpretation of u64 storage as bytes
        let len = v.len() * 8;
        unsafe { std::slice::from_raw_parts_mut(v.as_mut_ptr() as *mut u8, len) }
    }

    fn wsc_store_env(b: &[u8]) -> Outcome {
        fin(warp_core::wsc::WscStoreEnvelope::decode(b), dbg_head)
    }
    fn wsc_projection(b: &[u8]) -> Outcome {
        fin(wal::observe_wal_projection_graph_wsc(b), dbg_head)
    }

    fn scene_delta(b: &[u8]) -> Outcome {
        fin(echo_scene_codec::decode_scene_delta(b), |_| "DecodeError".into())
    }
    fn scene_camera(b: &[u8]) -> Outcome {
        fin(echo_scene_codec::decode_camera_state(b), |_| "DecodeError".into())
    }
    fn scene_highlight(b: &[u8]) -> Outcome {
        fin(echo_scene_codec::decode_highlight_state(b), |_| "DecodeError".into())
    }

    /// byte-in/byte-out host boundary: the reply must itself be a decodable Ok/Err envelope
    fn envelope_reply(out: Vec<u8>) -> Outcome {
        super::mark();
        match echo_wasm_abi::decode_value(&out) {
            Ok(Value::Map(m)) => {
                let ok = m.iter().find_map(|(k, v)| match (k, v) {
                    (Value::Text(t), Value::Bool(b)) if t == "ok" => Some(*b),
                    _ => None,
                });
                match ok {
                    Some(true) => Ok("ok".into()),
                    Some(false) => {
                        let code = m.iter().find_map(|(k, v)| match (k, v) {
                            (Value::Text(t), Value::Integer(i)) if t == "code" => Some(i128::from(*i)),
                            _ => None,
                        });
                        Err(format!("code{}", code.unwrap_or(-1)))
                    }
                    None => panic!("host reply is not an ok/err envelope"),
                }
            }
            _ => panic!("host reply is not canonical CBOR map"),
        }
    }
    fn wasm_dispatch(b: &[u8]) -> Outcome {
        envelope_reply(warp_wasm::dispatch_intent_cbor(b))
    }
    fn wasm_observe(b: &[u8]) -> Outcome {
        envelope_reply(warp_wasm::observe_cbor(b))
    }
    fn wasm_control(b: &[u8]) -> Outcome {
        envelope_reply(warp_wasm::dispatch_control_intent_trusted_cbor(b))
    }
    fn wasm_setup() -> Option<warp_wasm::EmbeddedHandle> {
        warp_wasm::init_embedded().ok()
    }

    fn mbus_frames(b: &[u8]) -> Outcome {
        fin(warp_core::materialization::decode_frames(b).ok_or(()), |_| "None".into())
    }
    fn mbus_frame(b: &[u8]) -> Outcome {
        fin(warp_core::materialization::MaterializationFrame::decode(b).ok_or(()), |_| "None".into())
    }
    fn mbus_v2(b: &[u8]) -> Outcome {
        fin(warp_core::materialization::decode_v2_packet(b), dbg_head)
    }
    fn mbus_v2s(b: &[u8]) -> Outcome {
        fin(warp_core::materialization::decode_v2_packets(b), dbg_head)
    }
    fn motion(b: &[u8]) -> Outcome {
        let by = bytes::Bytes::copy_from_slice(b);
        fin(warp_core::decode_motion_payload(&by).ok_or(()), |_| "None".into())
    }

    const TABLE: &[(&str, Dec)] = &[
        ("abi-cbor", abi_cbor),
        ("abi-dto-warpgraph", dto_warpgraph),
        ("abi-dto-rewrite", dto_rewrite),
        ("abi-dto-obsreq", dto_obsreq),
        ("abi-dto-obsoptic", dto_obsoptic),
        ("abi-dto-dispoptic", dto_dispoptic),
        ("abi-dto-settle", dto_settle),
        ("abi-dto-control", dto_control),
        ("abi-dto-import", dto_import),
        ("abi-dto-sched", dto_sched),
        ("abi-dto-dispresp", dto_dispresp),
        ("abi-dto-reginfo", dto_reginfo),
        ("abi-dto-headinfo", dto_headinfo),
        ("abi-dto-errenv", dto_errenv),
        ("abi-dto-obsart", dto_obsart),
        ("abi-env-intent", env_intent),
        ("abi-env-control", env_control),
        ("abi-env-import", env_import),
        ("abi-codec", abi_codec),
        ("abi-elog", abi_elog),
        ("edict", edict),
        ("ingress", ingress),
        ("wal-subacc", wal_subacc),
        ("wal-subenv", wal_subenv),
        ("wal-statedelta", wal_statedelta),
        ("wal-tick", wal_tick),
        ("wal-corr", wal_corr),
        ("wal-material", wal_material),
        ("wal-reading", wal_reading),
        ("wal-checkpoint", wal_checkpoint),
        ("wal-cppub", wal_cppub),
        ("wal-matintent", wal_matintent),
        ("wal-matobs", wal_matobs),
        ("wal-fork", wal_fork),
        ("wal-drop", wal_drop),
        ("wal-braid", wal_braid),
        ("wal-shell", wal_shell),
        ("wal-suffix", wal_suffix),
        ("wal-segment-ro", wal_segment_ro),
        ("wal-segment-rw", wal_segment_rw),
        ("wsc", wsc),
        ("wsc-view", wsc_view),
        ("wsc-read", wsc_read),
        ("wsc-store-env", wsc_store_env),
        ("wsc-projection", wsc_projection),
        ("scene-delta", scene_delta),
        ("scene-camera", scene_camera),
        ("scene-highlight", scene_highlight),
        ("wasm-dispatch", wasm_dispatch),
        ("wasm-observe", wasm_observe),
        ("wasm-control", wasm_control),
        ("mbus-frames", mbus_frames),
        ("mbus-frame", mbus_frame),
        ("mbus-v2", mbus_v2),
        ("mbus-v2s", mbus_v2s),
        ("motion", motion),
    ];

    pub fn lookup(name: &str) -> Option<Dec> {
        TABLE.iter().find(|(n, _)| *n == name).map(|(_, f)| *f)
    }
    pub fn names() -> Vec<&'static str> {
        TABLE.iter().map(|(n, _)| *n).collect()
    }
    pub fn warm_up() {}
    /// per-case setup outside the measured region (fresh embedded kernel for the host boundary)
    pub fn setup(name: &str) {
        if name.starts_with("wasm-") {
            let _ = wasm_setup();
        }
    }

    // ------------------------------------------------------------------ seeds from the real encoders
    fn h(label: &str) -> [u8; 32] {
        blake3::hash(label.as_bytes()).into()
    }
    fn seed(dec: &str, b: &[u8]) {
        println!("seed dec={dec} hex={}", super::tohex(b));
    }
    fn rref(label: &str, tick: u64) -> warp_core::CausalTickReceiptRef {
        warp_core::CausalTickReceiptRef {
            worldline_id: warp_core::WorldlineId::from_bytes(h("wl")),
            worldline_tick_after: warp_core::WorldlineTick::from_raw(tick),
            commit_global_tick: warp_core::GlobalTick::from_raw(tick),
            commit_hash: h(&format!("{label}:c")),
            submission_id: h(&format!("{label}:s")),
            ticket_digest: h(&format!("{label}:t")),
            receipt_content_digest: h(&format!("{label}:r")),
        }
    }
    fn head_key(l: &str) -> warp_core::WriterHeadKey {
        warp_core::WriterHeadKey { worldline_id: warp_core::WorldlineId::from_bytes(h("wl")), head_id: warp_core::HeadId::from_bytes(h(l)) }
    }

    fn wsc_seeds() -> Vec<Vec<u8>> {
        use warp_core::wsc::types::{AttRow, NodeRow, Range};
        use warp_core::wsc::{write_wsc_one_warp, OneWarpInput};
        let mut out = Vec::new();
        let empty = OneWarpInput {
            warp_id: [0u8; 32],
            root_node_id: [0u8; 32],
            nodes: vec![],
            edges: vec![],
            out_index: vec![],
            out_edges: vec![],
            node_atts_index: vec![],
            node_atts: vec![],
            edge_atts_index: vec![],
            edge_atts: vec![],
            blobs: vec![],
        };
        out.push(write_wsc_one_warp(&empty, [0u8; 32], 0).unwrap());
        let att = OneWarpInput {
            warp_id: [0u8; 32],
            root_node_id: [1u8; 32],
            nodes: vec![NodeRow { node_id: [1u8; 32], node_type: [2u8; 32] }],
            edges: vec![],
            out_index: vec![Range::default()],
            out_edges: vec![],
            node_atts_index: vec![Range { start_le: 0u64.to_le(), len_le: 1u64.to_le() }],
            node_atts: vec![AttRow { tag: AttRow::TAG_ATOM, reserved0: [0u8; 7], type_or_warp: [3u8; 32], blob_off_le: 0u64.to_le(), blob_len_le: 8u64.to_le() }],
            edge_atts_index: vec![],
            edge_atts: vec![],
            blobs: vec![1, 2, 3, 4, 5, 6, 7, 8],
        };
        out.push(write_wsc_one_warp(&att, [7u8; 32], 3).unwrap());
        // a real graph through the builder
        let mut store = warp_core::GraphStore::default();
        let ty = warp_core::make_type_id("t");
        let a = warp_core::make_node_id("a");
        let b = warp_core::make_node_id("b");
        store.insert_node(a, warp_core::NodeRecord { ty });
        store.insert_node(b, warp_core::NodeRecord { ty });
        store.insert_edge(a, warp_core::EdgeRecord { id: warp_core::make_edge_id("e"), from: a, to: b, ty });
        let input = warp_core::wsc::build_one_warp_input(&store, a);
        out.push(write_wsc_one_warp(&input, [9u8; 32], 5).unwrap());
        out
    }

    fn wal_segment_seed() -> Option<Vec<u8>> {
        use wal::*;
        let dir = std::env::temp_dir().join(format!("c13-wal-{}", std::process::id()));
        let _ = std::fs::remove_dir_all(&dir);
        std::fs::create_dir_all(&dir).ok()?;
        let epoch = WriterEpochId::from_hash(h("epoch"));
        let res = (|| -> Option<Vec<u8>> {
            let mut store = FilesystemWalStore::open(&dir, WalSegmentId::from_raw(1)).ok()?;
            store
                .acquire_writer_epoch(WriterEpochRequest {
                    epoch_id: epoch,
                    storage_fencing_token: h("fence"),
                    process_identity: h("proc"),
                    host_identity: h("host"),
                    started_at_lsn: Lsn::from_raw(0),
                    previous_epoch_id: None,
                    previous_epoch_final_commit_digest: None,
                    lease_or_lock_evidence: h("lock"),
                })
                .ok()?;
            let builder = WalTransactionBuilder::new(
                epoch,
                WalSegmentId::from_raw(1),
                WalTransactionId::from_hash(h("tx1")),
                WalTransactionKind::SubmissionIntake,
                WalAppendAuthority::SubmissionIntake,
                Lsn::from_raw(0),
                h("prev-frame"),
                h("prev-commit"),
                WalDurabilityMode::StrictFilesystem,
                PayloadCodecId::from_hash(h("codec")),
                PayloadSchemaId::from_hash(h("schema")),
                1,
                1,
                h("domain"),
            );
            let tx = build_submission_acceptance_transaction(
                builder,
                SubmissionAcceptanceRecord {
                    submission_id: h("sub"),
                    canonical_envelope_digest: h("env"),
                    idempotency_key_digest: None,
                    acceptance_evidence_digest: h("acc"),
                },
                vec![AffectedFrontier { kind: AffectedFrontierKind::SubmissionQueue, before_digest: h("b"), after_digest: h("a") }],
            )
            .ok()?;
            store.append_transaction(tx).ok()?;
            std::fs::read(store.segment_path()).ok()
        })();
        let _ = std::fs::remove_dir_all(&dir);
        res
    }

    pub fn print_seeds(_seed: u64) {
        use echo_wasm_abi::{encode_cbor, encode_value};
        println!("meta control_op={} import_op={}", echo_wasm_abi::CONTROL_INTENT_V1_OP_ID, echo_wasm_abi::IMPORT_SUFFIX_INTENT_V1_OP_ID);
        // ABI values / DTOs
        let v = Value::Map(vec![
            (Value::Text("a".into()), Value::Array(vec![Value::Integer(1.into()), Value::Bytes(vec![1, 2, 3]), Value::Float(1.5)])),
            (Value::Text("kind".into()), Value::Null),
        ]);
        if let Ok(b) = encode_value(&v) {
            seed("abi-cbor", &b);
        }
        let mut g = echo_wasm_abi::WarpGraph::default();
        seed("abi-dto-warpgraph", &encode_cbor(&g).unwrap());
        let mut fields = std::collections::BTreeMap::new();
        fields.insert("n".to_string(), echo_wasm_abi::Value::Num(-3));
        fields.insert("s".to_string(), echo_wasm_abi::Value::Str("x".into()));
        g.nodes.insert("a".into(), echo_wasm_abi::Node { id: "a".into(), fields });
        g.edges.push(echo_wasm_abi::Edge { from: "a".into(), to: "a".into() });
        seed("abi-dto-warpgraph", &encode_cbor(&g).unwrap());
        let rw = echo_wasm_abi::Rewrite {
            id: 7,
            op: echo_wasm_abi::SemanticOp::Set,
            target: "a".into(),
            subject: Some("f".into()),
            old_value: None,
            new_value: Some(echo_wasm_abi::Value::Bool(true)),
        };
        seed("abi-dto-rewrite", &encode_cbor(&rw).unwrap());
        for c in [kp::ControlIntentV1::Stop, kp::ControlIntentV1::Start { mode: kp::SchedulerMode::UntilIdle { cycle_limit: Some(3) } }] {
            seed("abi-dto-control", &encode_cbor(&c).unwrap());
            if let Ok(b) = echo_wasm_abi::pack_control_intent_v1(&c) {
                seed("abi-env-control", &b);
                seed("wasm-control", &b);
            }
        }
        if let Ok(b) = echo_wasm_abi::pack_intent_v1(1, b"x") {
            seed("abi-env-intent", &b);
            seed("wasm-dispatch", &b);
        }
        if let Ok(b) = echo_wasm_abi::pack_intent_v1(77, &encode_cbor(&g).unwrap()) {
            seed("abi-env-intent", &b);
            seed("wasm-dispatch", &b);
        }
        seed("abi-codec", &codec_seed());
        {
            let mut v = Vec::new();
            let _ = echo_wasm_abi::write_elog_header(&mut v, &echo_wasm_abi::ElogHeader { schema_hash: [5u8; 32], flags: 0 });
            let _ = echo_wasm_abi::write_elog_frame(&mut v, b"frame-one");
            let _ = echo_wasm_abi::write_elog_frame(&mut v, b"");
            seed("abi-elog", &v);
        }
        // host boundary: requests and the replies they produce (reply DTO seeds)
        if let Some(hd) = wasm_setup() {
            for (fr, pr) in [
                (kp::ObservationFrame::CommitBoundary, kp::ObservationProjection::Head),
                (kp::ObservationFrame::CommitBoundary, kp::ObservationProjection::Snapshot),
            ] {
                if let Ok(req) = kp::ObservationRequest::builtin_one_shot(
                    kp::ObservationCoordinate { worldline_id: hd.worldline_id, at: kp::ObservationAt::Frontier },
                    fr,
                    pr,
                ) {
                    let b = encode_cbor(&req).unwrap();
                    seed("abi-dto-obsreq", &b);
                    seed("wasm-observe", &b);
                    let reply = warp_wasm::observe_cbor(&b);
                    seed("abi-dto-obsart", &reply);
                }
            }
            seed("abi-dto-headinfo", &encode_cbor(&hd.head).unwrap());
            let reply = warp_wasm::dispatch_intent_cbor(&echo_wasm_abi::pack_intent_v1(1, b"x").unwrap());
            seed("abi-dto-dispresp", &reply);
            seed("abi-dto-reginfo", &warp_wasm::get_registry_info_cbor());
            seed("abi-dto-errenv", &warp_wasm::observe_cbor(&[0xf6]));
        }
        // edict
        {
            use echo_edict_canonical::CanonicalValueV1 as C;
            let v = C::Map(vec![
                (C::Text("k".into()), C::Array(vec![C::Integer(-7), C::Bytes(vec![9, 9]), C::Bool(true), C::Null])),
                (C::Integer(3), C::Text("v".into())),
            ]);
            if let Ok(b) = echo_edict_canonical::encode_canonical_cbor_v1(&v) {
                seed("edict", &b);
            }
        }
        // retained ingress
        {
            let env = warp_core::IngressEnvelope::local_intent(
                warp_core::IngressTarget::DefaultWriter { worldline_id: warp_core::WorldlineId::from_bytes([1; 32]) },
                warp_core::make_intent_kind("x"),
                vec![1, 2, 3],
            );
            let b = env.to_retained_bytes_v2();
            seed("ingress", &b);
            let mut v1 = b.clone();
            v1[..8].copy_from_slice(b"EINGR001");
            seed("ingress", &v1);
            let env2 = warp_core::IngressEnvelope::local_intent(
                warp_core::IngressTarget::ExactHead { key: head_key("h") },
                warp_core::make_intent_kind("y"),
                vec![0; 40],
            );
            seed("ingress", &env2.to_retained_bytes_v2());
        }
        // WAL payload records
        use wal::*;
        seed("wal-subacc", &SubmissionAcceptanceRecord { submission_id: h("s"), canonical_envelope_digest: h("e"), idempotency_key_digest: Some(h("i")), acceptance_evidence_digest: h("a") }.to_payload_bytes());
        seed("wal-subacc", &SubmissionAcceptanceRecord { submission_id: h("s"), canonical_envelope_digest: h("e"), idempotency_key_digest: None, acceptance_evidence_digest: h("a") }.to_payload_bytes());
        seed("wal-subenv", &WalSubmissionEnvelopeRecord { submission_id: h("s"), canonical_envelope_digest: h("e"), submission_generation: 3, head_key: head_key("h"), retained_envelope_bytes: vec![1, 2, 3, 4, 5] }.to_payload_bytes());
        seed("wal-tick", &TickReceiptRecord { receipt_ref: rref("a", 1), decision: WalTickDecision::Applied }.to_payload_bytes());
        seed("wal-corr", &WalReceiptCorrelationRecord { receipt_ref: rref("b", 2), causal_parent_receipts: vec![rref("a", 1)] }.to_payload_bytes());
        seed("wal-material", &RetainedMaterialRecord { material_digest: h("m"), semantic_coordinate_digest: h("c"), kind: RetainedMaterialKind::TickReceipt, posture: EvidenceMaterialPosture::Present }.to_payload_bytes());
        seed("wal-reading", &ReadingRefRecord { reading_id: h("r"), semantic_coordinate_digest: h("c"), payload_digest: h("p"), envelope_digest: h("e"), posture: EvidenceMaterialPosture::Present }.to_payload_bytes());
        seed("wal-checkpoint", &CheckpointRecord { checkpoint_id: h("cp"), last_included_lsn: Lsn::from_raw(9), last_included_commit_digest: h("c"), state_root: h("s"), index_root: h("i"), retained_material_root: h("m"), schema_version: 1, created_from_wal_digest: h("w") }.to_payload_bytes());
        seed("wal-cppub", &CheckpointPublicationRecord { checkpoint_id: h("cp"), checkpoint_digest: h("d") }.to_payload_bytes());
        seed("wal-matintent", &MaterializationIntentRecord { effect_id: h("e"), expected_artifact_digest: h("x"), materialization_intent_digest: h("m"), idempotency_token: h("t"), target_metadata_digest: h("g") }.to_payload_bytes());
        seed("wal-matobs", &MaterializationObservationRecord { effect_id: h("e"), observed_artifact_digest: h("o"), observed_metadata_digest: h("m") }.to_payload_bytes());
        seed("wal-fork", &StrandForkRecord {
            topology_intent_id: h("ti"),
            strand_id: warp_core::StrandId::from_bytes(h("st")),
            source_worldline_id: warp_core::WorldlineId::from_bytes(h("wl")),
            fork_tick: warp_core::WorldlineTick::from_raw(4),
            source_commit_hash: h("c"),
            source_boundary_hash: h("b"),
            child_worldline_id: warp_core::WorldlineId::from_bytes(h("cw")),
            writer_heads: vec![head_key("h1"), head_key("h2")],
            retention_posture_digest: h("r"),
            issuer_evidence_digest: h("i"),
            idempotency_key_digest: Some(h("k")),
        }.canonicalized().to_payload_bytes());
        seed("wal-drop", &StrandDropRecord { topology_intent_id: h("ti"), strand_id: warp_core::StrandId::from_bytes(h("st")), child_worldline_id: warp_core::WorldlineId::from_bytes(h("cw")), final_tick: warp_core::WorldlineTick::from_raw(8), drop_receipt_digest: h("d"), issuer_evidence_digest: h("i"), idempotency_key_digest: None }.to_payload_bytes());
        seed("wal-shell", &BraidShellRetentionRecord { topology_intent_id: h("ti"), braid_id: h("b"), shell_digest: h("s"), material_digest: h("m"), basis_digest: h("ba"), outcome_kind: TopologyImportOutcomeKind::Derived, retention_posture_digest: h("r"), witness_digest: h("w"), idempotency_key_digest: Some(h("k")) }.to_payload_bytes());
        seed("wal-suffix", &SuffixImportRecord {
            import_id: h("i"), remote_suffix_family_digest: h("f"), authorship_evidence_digest: h("a"), basis_anchor_digest: h("b"),
            bundle_digest: h("bu"), source_shell_digest: h("ss"), target_basis_digest: h("tb"), outcome_kind: TopologyImportOutcomeKind::Plural,
            import_shell_digest: h("is"), retention_posture_digest: h("rp"), idempotency_key_digest: h("k"),
        }.to_payload_bytes());
        if let Some(b) = wal_segment_seed() {
            seed("wal-segment-ro", &b);
            seed("wal-segment-rw", &b);
        }
        // WSC
        {
            let mut v = Vec::new();
            v.extend_from_slice(&16u64.to_le_bytes());
            v.extend_from_slice(&2u64.to_le_bytes());
            v.extend_from_slice(&[7u8; 200]);
            seed("wsc-read", &v);
        }
        for b in wsc_seeds() {
            seed("wsc", &b);
            seed("wsc-view", &b);
            seed("wsc-projection", &b);
            if let Ok(env) = warp_core::wsc::WscStoreEnvelope::validated(warp_core::wsc::WscStoreRecordKind::Snapshot, h("basis"), b.clone()) {
                seed("wsc-store-env", &env.encode());
            }
        }
        // scene codec
        {
            use echo_scene_port as sp;
            let d = sp::SceneDelta { session_id: [1; 32], cursor_id: [2; 32], epoch: 3, ops: vec![sp::SceneOp::Clear] };
            seed("scene-delta", &echo_scene_codec::encode_scene_delta(&d));
            seed("scene-camera", &echo_scene_codec::encode_camera_state(&sp::CameraState::default()));
            seed("scene-highlight", &echo_scene_codec::encode_highlight_state(&sp::HighlightState::default()));
        }
        // materialization frames
        {
            use warp_core::materialization as m;
            let ch = m::make_channel_id("c");
            let f1 = m::MaterializationFrame::new(ch, vec![1, 2, 3]);
            seed("mbus-frame", &f1.encode());
            seed("mbus-frames", &m::encode_frames(&[f1.clone(), m::MaterializationFrame::new(ch, vec![])]));
            let hdr = m::V2PacketHeader { session_id: h("s"), cursor_id: h("c"), worldline_id: h("w"), warp_id: warp_core::WarpId(h("wp")), tick: 4, commit_hash: h("ch") };
            let val = vec![5u8, 6, 7];
            let ent = m::V2Entry { channel: ch, value_hash: m::compute_value_hash(&val), value: val };
            if let Ok(b) = m::encode_v2_packet(&hdr, &[ent]) {
                seed("mbus-v2", &b);
                let mut two = b.clone();
                two.extend_from_slice(&b);
                seed("mbus-v2s", &two);
            }
        }
        seed("motion", &warp_core::encode_motion_payload([1.0, 2.0, 3.0], [0.5, 0.0, -1.0]));
    }
}

// ---------------------------------------------------------------------------------- child

fn sanitize(s: &str) -> String {
    let mut o: String = s
        .chars()
        .map(|c| if c.is_ascii_alphanumeric() || "-_.:,/[]{}<>()".contains(c) { c } else { '_' })
        .collect();
    if o.len() > 160 {
        o.truncate(160);
    }
    if o.is_empty() {
        o.push('-');
    }
    o
}

static PANIC_MSG: std::sync::Mutex<String> = std::sync::Mutex::new(String::new());

fn child_main(cap: usize, stack: usize) {
    std::panic::set_hook(Box::new(|info| {
        let msg = if let Some(s) = info.payload().downcast_ref::<&str>() {
            (*s).to_string()
        } else if let Some(s) = info.payload().downcast_ref::<String>() {
            s.clone()
        } else {
            "non-string".to_string()
        };
        let loc = info.location().map(|l| format!("{}:{}", l.file().rsplit('/').next().unwrap_or(""), l.line())).unwrap_or_default();
        if let Ok(mut g) = PANIC_MSG.lock() {
            let m: String = msg.chars().take(100).collect();
            *g = format!("{m}<at>{loc}");
        }
    }));
    let h = std::thread::Builder::new()
        .name("c13-worker".into())
        .stack_size(stack)
        .spawn(move || {
            let stdin = std::io::stdin();
            let stdout = std::io::stdout();
            decoders::warm_up();
            for line in stdin.lock().lines() {
                let line = match line {
                    Ok(l) => l,
                    Err(_) => break,
                };
                let line = line.trim().to_string();
                if line.is_empty() {
                    continue;
                }
                let m = kv(&line);
                let dec = m.get("dec").cloned().unwrap_or_default();
                let input = expand(m.get("in").map(String::as_str).unwrap_or("-"));
                let len = input.len();
                let f = decoders::lookup(&dec);
                decoders::setup(&dec);
                let mut res = String::with_capacity(256);
                // announce the case before running it so the parent knows what was in flight
                {
                    let mut o = stdout.lock();
                    let _ = writeln!(o, "@start");
                    let _ = o.flush();
                }
                let base = CUR.load(Relaxed);
                PEAK.store(base, Relaxed);
                MARK.store(usize::MAX, Relaxed);
                LIMIT.store(base.saturating_add(cap), Relaxed);
                let r = std::panic::catch_unwind(std::panic::AssertUnwindSafe(|| match f {
                    Some(f) => f(&input),
                    None => Err("unknown-decoder".to_string()),
                }));
                mark();
                let peak = MARK.load(Relaxed).saturating_sub(base);
                LIMIT.store(usize::MAX, Relaxed);
                let (class, detail, val) = match r {
                    Ok(Ok(v)) => ("value", "-".to_string(), v),
                    Ok(Err(e)) => ("error", sanitize(&e), String::new()),
                    Err(_) => {
                        let m = PANIC_MSG.lock().map(|g| g.clone()).unwrap_or_default();
                        ("PANIC", sanitize(&m), String::new())
                    }
                };
                use std::fmt::Write as _;
                let _ = write!(res, "dec={dec} len={len} class={class} peak={peak} detail={detail}");
                if !val.is_empty() {
                    let _ = write!(res, " val={val}");
                }
                let mut o = stdout.lock();
                let _ = writeln!(o, "{res}");
                let _ = o.flush();
            }
        })
        .expect("spawn worker");
    let _ = h.join();
}

// ---------------------------------------------------------------------------------- parent

#[derive(Clone)]
struct Opts {
    cap: usize,
    stack: usize,
    timeout_ms: u64,
    jobs: usize,
    batch: usize,
    c: usize,
    c0: usize,
}

enum Ev {
    Start,
    Line(String),
}

/// Runs `cases` (in order) in one child; returns the result lines obtained and, when the child
/// died or stalled, the verdict for the first case without a result.
fn run_child(exe: &str, cases: &[String], o: &Opts) -> (Vec<String>, Option<String>) {
    let mut ch = Command::new(exe)
        .arg("--child")
        .arg(o.cap.to_string())
        .arg(o.stack.to_string())
        .env("RUST_BACKTRACE", "0")
        .stdin(Stdio::piped())
        .stdout(Stdio::piped())
        .stderr(Stdio::piped())
        .spawn()
        .expect("spawn child");
    let mut stdin = ch.stdin.take().unwrap();
    let stdout = ch.stdout.take().unwrap();
    let mut stderr = ch.stderr.take().unwrap();
    let payload = cases.join("\n") + "\n";
    let w = std::thread::spawn(move || {
        let _ = stdin.write_all(payload.as_bytes());
    });
    let (tx, rx) = mpsc::channel::<Ev>();
    let rd = std::thread::spawn(move || {
        for l in BufReader::new(stdout).lines() {
            let Ok(l) = l else { break };
            let ev = if l == "@start" { Ev::Start } else { Ev::Line(l) };
            if tx.send(ev).is_err() {
                break;
            }
        }
    });
    let er = std::thread::spawn(move || {
        let mut s = String::new();
        let _ = std::io::Read::read_to_string(&mut stderr, &mut s);
        s
    });
    let mut lines = Vec::new();
    let mut verdict = None;
    let mut timed_out = false;
    let pid = ch.id();
    // CPU seconds (user+sys) consumed by the child so far: the per-input budget is CPU time, so a
    // loaded host cannot turn a healthy decoder into a TIMEOUT; wall time only has a generous hard cap.
    let cpu_ms = |pid: u32| -> Option<u64> {
        let st = std::fs::read_to_string(format!("/proc/{pid}/stat")).ok()?;
        let rest = st.rsplit_once(')')?.1;
        let f: Vec<&str> = rest.split_whitespace().collect();
        let ut: u64 = f.get(11)?.parse().ok()?;
        let stt: u64 = f.get(12)?.parse().ok()?;
        Some((ut + stt) * 10)
    };
    let wait_line = |rx: &mpsc::Receiver<Ev>, budget_ms: u64| -> Result<Ev, bool> {
        // Err(true) = stalled, Err(false) = disconnected
        let start_cpu = cpu_ms(pid).unwrap_or(0);
        let t0 = std::time::Instant::now();
        loop {
            match rx.recv_timeout(Duration::from_millis(500)) {
                Ok(ev) => return Ok(ev),
                Err(mpsc::RecvTimeoutError::Disconnected) => return Err(false),
                Err(mpsc::RecvTimeoutError::Timeout) => {
                    let wall = t0.elapsed().as_millis() as u64;
                    let used = cpu_ms(pid).map(|c| c.saturating_sub(start_cpu));
                    let over = match used {
                        Some(u) => u >= budget_ms || wall >= budget_ms * 10,
                        None => wall >= budget_ms,
                    };
                    if over {
                        return Err(true);
                    }
                }
            }
        }
    };
    while lines.len() < cases.len() {
        match wait_line(&rx, o.timeout_ms * 3) {
            Ok(Ev::Start) => match wait_line(&rx, o.timeout_ms) {
                Ok(Ev::Line(l)) => lines.push(l),
                Ok(Ev::Start) => {}
                Err(true) => {
                    timed_out = true;
                    let _ = ch.kill();
                    break;
                }
                Err(false) => break,
            },
            Ok(Ev::Line(l)) => lines.push(l),
            Err(true) => {
                timed_out = true;
                let _ = ch.kill();
                break;
            }
            Err(false) => break,
        }
    }
    if lines.len() >= cases.len() {
        // all answered; closing stdin (writer done) lets the child exit
        let _ = w.join();
        let _ = ch.wait();
        let _ = rd.join();
        let _ = er.join();
        return (lines, None);
    }
    let status = ch.wait().ok();
    let _ = w.join();
    let _ = rd.join();
    let err = er.join().unwrap_or_default();
    let culprit = &cases[lines.len()];
    let m = kv(culprit);
    let dec = m.get("dec").cloned().unwrap_or_default();
    let len = expand(m.get("in").map(String::as_str).unwrap_or("-")).len();
    let (class, detail) = if timed_out {
        ("TIMEOUT", format!("no-result-within-{}ms-cpu", o.timeout_ms))
    } else if err.contains("has overflowed its stack") {
        ("STACK", "stack-overflow".to_string())
    } else if let Some(p) = err.find("memory allocation of ") {
        let req: String = err[p + 21..].chars().take_while(|c| c.is_ascii_digit()).collect();
        ("OOM", format!("request={req}"))
    } else {
        #[cfg(unix)]
        let sig = {
            use std::os::unix::process::ExitStatusExt;
            status.and_then(|s| s.signal()).unwrap_or(0)
        };
        #[cfg(not(unix))]
        let sig = 0;
        let code = status.and_then(|s| s.code()).unwrap_or(-1);
        ("ABORT", sanitize(&format!("signal={sig},code={code},stderr={}", err.lines().last().unwrap_or(""))))
    };
    verdict = verdict.or(Some(format!("dec={dec} len={len} class={class} peak=0 detail={detail}")));
    (lines, verdict)
}

fn run_chunk(exe: &str, cases: &[String], o: &Opts) -> Vec<String> {
    let mut out: Vec<String> = Vec::with_capacity(cases.len());
    let mut pos = 0;
    while pos < cases.len() {
        let end = (pos + o.batch).min(cases.len());
        let (lines, verdict) = run_child(exe, &cases[pos..end], o);
        let first = lines.is_empty();
        pos += lines.len();
        out.extend(lines);
        if let Some(v) = verdict {
            // isolate: the in-flight case alone in a fresh child decides (unless it already was
            // the first case of a fresh child, or it stalled: a stall is not re-timed)
            let line = if first || v.contains("class=TIMEOUT") {
                v
            } else {
                let (solo, v2) = run_child(exe, &cases[pos..pos + 1], o);
                if let Some(l) = solo.into_iter().next() {
                    format!("{l} note=died-in-batch-only:{}", kv(&v).get("class").cloned().unwrap_or_default())
                } else {
                    v2.unwrap_or(v)
                }
            };
            out.push(line);
            pos += 1;
        }
    }
    out
}

fn oracle(line: &str, o: &Opts) -> String {
    let m = kv(line);
    let dec = m.get("dec").cloned().unwrap_or_default();
    let class = m.get("class").cloned().unwrap_or_default();
    let len: usize = m.get("len").and_then(|s| s.parse().ok()).unwrap_or(0);
    let peak: usize = m.get("peak").and_then(|s| s.parse().ok()).unwrap_or(0);
    let detail = m.get("detail").cloned().unwrap_or_default();
    let bound = o.c.saturating_mul(len).saturating_add(o.c0);
    match class.as_str() {
        "value" | "error" => {
            if m.contains_key("note") {
                format!("FAIL:{dec}:state-dependent-crash")
            } else if peak > bound {
                format!("FAIL:{dec}:huge-alloc")
            } else {
                "ok".into()
            }
        }
        "PANIC" => {
            if detail.starts_with("capacity_overflow") {
                format!("FAIL:{dec}:capacity-overflow")
            } else {
                // stable signature: source file + message with the numbers removed
                let (msg, loc) = detail.rsplit_once("<at>").unwrap_or((detail.as_str(), ""));
                let file = loc.split(':').next().unwrap_or("");
                let kind: String = msg.chars().filter(|c| !c.is_ascii_digit()).take(48).collect();
                format!("FAIL:{dec}:panic:{file}:{kind}")
            }
        }
        "OOM" => format!("FAIL:{dec}:huge-alloc"),
        "STACK" => format!("FAIL:{dec}:deep-nesting"),
        "TIMEOUT" => format!("FAIL:{dec}:timeout"),
        _ => format!("FAIL:{dec}:abort"),
    }
}

fn main() {
    let args: Vec<String> = std::env::args().collect();
    if args.len() >= 4 && args[1] == "--child" {
        child_main(args[2].parse().expect("cap"), args[3].parse().expect("stack"));
        return;
    }
    if args.len() >= 2 && args[1] == "--list" {
        for n in decoders::names() {
            println!("{n}");
        }
        return;
    }
    if args.len() >= 3 && args[1] == "--seeds" {
        // valid encodings produced by the real encoders: `<decoder> <hex>` per line
        decoders::print_seeds(args[2].parse().unwrap_or(1));
        return;
    }
    let mut o = Opts { cap: 256 << 20, stack: 8 << 20, timeout_ms: 10_000, jobs: 16, batch: 400, c: 256, c0: 64 << 10 };
    let mut i = 2;
    while i + 1 < args.len() {
        let v = &args[i + 1];
        match args[i].as_str() {
            "--cap" => o.cap = v.parse().expect("cap"),
            "--stack" => o.stack = v.parse().expect("stack"),
            "--timeout-ms" => o.timeout_ms = v.parse().expect("timeout"),
            "--jobs" => o.jobs = v.parse().expect("jobs"),
            "--batch" => o.batch = v.parse().expect("batch"),
            "--c" => o.c = v.parse().expect("c"),
            "--c0" => o.c0 = v.parse().expect("c0"),
            _ => {}
        }
        i += 2;
    }
    let exe = std::env::current_exe().expect("exe").to_string_lossy().to_string();
    let cases = read_cases();
    let n = cases.len();
    let jobs = o.jobs.max(1).min(n.max(1));
    // round-robin assignment: crash-heavy decoders are spread over all workers
    let mut handles = Vec::new();
    for j in 0..jobs {
        let part: Vec<String> = cases.iter().skip(j).step_by(jobs).cloned().collect();
        let exe = exe.clone();
        let o = o.clone();
        handles.push(std::thread::spawn(move || run_chunk(&exe, &part, &o)));
    }
    let parts: Vec<Vec<String>> = handles.into_iter().map(|h| h.join().expect("worker")).collect();
    let stdout = std::io::stdout();
    let mut out = stdout.lock();
    for i in 0..n {
        let l = &parts[i % jobs][i / jobs];
        let orc = oracle(l, &o);
        let _ = writeln!(out, "{l} oracle={orc}");
    }
}
