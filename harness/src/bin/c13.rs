//! C13 harness: byte-level totality of decoders / readers / host entry points.
//!
//! parent:  c13 <casefile> [--jobs N] [--cap BYTES] [--stack BYTES] [--timeout-ms N]
//!   case:   dec=<decoder> in=<spec>          spec = part+part+...; part = <hex> | <hex>*<count> | r<seed>x<len>
//!   output: dec=<decoder> len=<n> class=<value|error|PANIC|ABORT|OOM|STACK|TIMEOUT> peak=<bytes> detail=<..>
//!           [val=<flat tokens>] oracle=<ok|FAIL:sig>
//! child:   c13 --child <cap> <stack>   (cases on stdin, one result line per case, flushed)
//!
//! Every input is executed inside a child process (re-exec of this binary) that has a counting
//! global allocator (peak live bytes relative to the start of the call; requests that would exceed
//! the cap fail, which makes Rust abort => OOM) and runs the decoders on a thread with a fixed stack
//! (deep recursion => guard page => abort => STACK).  The parent batches cases per child; when a
//! child dies or stalls, the in-flight case is re-run alone in a fresh child (that verdict is the
//! reported one) and the rest of the batch continues in another fresh child.
#![allow(clippy::all)]
use echo_verif_harness::*;
use std::alloc::{GlobalAlloc, Layout, System};
use std::io::{BufRead, BufReader, Write};
use std::process::{Command, Stdio};
use std::sync::atomic::{AtomicUsize, Ordering::Relaxed};
use std::sync::mpsc;
use std::time::Duration;

// ---------------------------------------------------------------------------------- allocator

struct Counting;
static CUR: AtomicUsize = AtomicUsize::new(0);
static PEAK: AtomicUsize = AtomicUsize::new(0);
static LIMIT: AtomicUsize = AtomicUsize::new(usize::MAX);
static BIGGEST: AtomicUsize = AtomicUsize::new(0);
static MARK: AtomicUsize = AtomicUsize::new(usize::MAX);

/// Called by a decoder wrapper right after the call under test returned (before it renders the
/// result): freezes the peak reading so that rendering is not charged to the decoder.
pub fn mark() {
    if MARK.load(Relaxed) == usize::MAX {
        MARK.store(PEAK.load(Relaxed), Relaxed);
    }
}

#[inline]
fn note(new_cur: usize) {
    let mut p = PEAK.load(Relaxed);
    while new_cur > p {
        match PEAK.compare_exchange_weak(p, new_cur, Relaxed, Relaxed) {
            Ok(_) => break,
            Err(x) => p = x,
        }
    }
}

unsafe impl GlobalAlloc for Counting {
    unsafe fn alloc(&self, l: Layout) -> *mut u8 {
        let n = l.size();
        let c = CUR.load(Relaxed).saturating_add(n);
        if c > LIMIT.load(Relaxed) {
            BIGGEST.fetch_max(n, Relaxed);
            return std::ptr::null_mut();
        }
        let p = unsafe { System.alloc(l) };
        if !p.is_null() {
            note(CUR.fetch_add(n, Relaxed) + n);
        }
        p
    }
    unsafe fn alloc_zeroed(&self, l: Layout) -> *mut u8 {
        let n = l.size();
        let c = CUR.load(Relaxed).saturating_add(n);
        if c > LIMIT.load(Relaxed) {
            BIGGEST.fetch_max(n, Relaxed);
            return std::ptr::null_mut();
        }
        let p = unsafe { System.alloc_zeroed(l) };
        if !p.is_null() {
            note(CUR.fetch_add(n, Relaxed) + n);
        }
        p
    }
    unsafe fn dealloc(&self, p: *mut u8, l: Layout) {
        unsafe { System.dealloc(p, l) };
        CUR.fetch_sub(l.size(), Relaxed);
    }
    unsafe fn realloc(&self, p: *mut u8, l: Layout, new: usize) -> *mut u8 {
        // conservative: old and new blocks are both live while the data moves
        let c = CUR.load(Relaxed).saturating_add(new);
        if c > LIMIT.load(Relaxed) {
            BIGGEST.fetch_max(new, Relaxed);
            return std::ptr::null_mut();
        }
        let q = unsafe { System.realloc(p, l, new) };
        if !q.is_null() {
            note(CUR.load(Relaxed) + new);
            if new >= l.size() {
                CUR.fetch_add(new - l.size(), Relaxed);
            } else {
                CUR.fetch_sub(l.size() - new, Relaxed);
            }
        }
        q
    }
}

#[global_allocator]
static GLOBAL: Counting = Counting;

// ---------------------------------------------------------------------------------- inputs

fn expand(spec: &str) -> Vec<u8> {
    let mut out = Vec::new();
    if spec == "-" || spec.is_empty() {
        return out;
    }
    for part in spec.split('+') {
        if let Some(rest) = part.strip_prefix('r') {
            let (seed, len) = rest.split_once('x').expect("r<seed>x<len>");
            let mut rng = Rng(seed.parse().expect("seed"));
            let len: usize = len.parse().expect("len");
            out.reserve(len);
            while out.len() < len {
                let w = rng.next().to_le_bytes();
                let take = (len - out.len()).min(8);
                out.extend_from_slice(&w[..take]);
            }
        } else if let Some((h, n)) = part.split_once('*') {
            let pat = unhex(h);
            let n: usize = n.parse().expect("count");
            out.reserve(pat.len() * n);
            for _ in 0..n {
                out.extend_from_slice(&pat);
            }
        } else {
            out.extend_from_slice(&unhex(part));
        }
    }
    out
}

// ---------------------------------------------------------------------------------- decoders

/// What a decoder call produced: Ok(summary) = value, Err(kind) = typed error.
type Outcome = Result<String, String>;

mod decoders {
    use super::Outcome;
    use ciborium::value::Value;

    pub type Dec = fn(&[u8]) -> Outcome;

    /// flat pre-order token rendering of a decoded ABI value (iterative: no recursion of our own)
    fn flat(v: &Value) -> String {
        let mut out: Vec<String> = Vec::new();
        let mut stack: Vec<&Value> = vec![v];
        while let Some(x) = stack.pop() {
            match x {
                Value::Integer(i) => out.push(format!("0:{}", i128::from(*i))),
                Value::Bytes(b) => out.push(format!("2:{}:{}", b.len(), super::tohex(b))),
                Value::Text(s) => out.push(format!("3:{}:{}", s.len(), super::tohex(s.as_bytes()))),
                Value::Array(a) => {
                    out.push(format!("4:{}", a.len()));
                    for y in a.iter().rev() {
                        stack.push(y);
                    }
                }
                Value::Map(m) => {
                    out.push(format!("5:{}", m.len()));
                    for (k, w) in m.iter().rev() {
                        stack.push(w);
                        stack.push(k);
                    }
                }
                Value::Bool(b) => out.push(format!("7:{}", u8::from(*b))),
                Value::Null => out.push("7:2".into()),
                Value::Float(f) => {
                    if f.is_nan() {
                        out.push("8:nan".into())
                    } else {
                        out.push(format!("8:{:016x}", f.to_bits()))
                    }
                }
                _ => out.push("X".into()),
            }
        }
        out.join(",")
    }

    fn canon_err(e: &echo_wasm_abi::CanonError) -> String {
        use echo_wasm_abi::CanonError as E;
        match e {
            E::Incomplete => "EIncomplete".into(),
            E::Trailing => "ETrailing".into(),
            E::Tag => "ETag".into(),
            E::Indefinite => "EIndefinite".into(),
            E::NonCanonicalInt => "ENonCanonInt".into(),
            E::NonCanonicalFloat => "ENonCanonFloat".into(),
            E::FloatShouldBeInt => "EFloatShouldBeInt".into(),
            E::MapKeyOrder => "EMapKeyOrder".into(),
            E::MapKeyDuplicate => "EMapKeyDup".into(),
            E::Decode(s) => {
                if s.starts_with("invalid length info") {
                    "EBadLenInfo".into()
                } else if s.starts_with("integer out of range") {
                    "EIntRange".into()
                } else if s.starts_with("utf8") {
                    "EUtf8".into()
                } else if s.starts_with("simple value not supported") {
                    "ESimple".into()
                } else if s.starts_with("unknown major type") {
                    "EMajor".into()
                } else if s.starts_with("nesting too deep") {
                    "EDepth".into()
                } else {
                    format!("Decode:{}", s.chars().take(40).collect::<String>())
                }
            }
            E::Encode(_) => "Encode".into(),
        }
    }

    fn abi_cbor(b: &[u8]) -> Outcome {
        let r = echo_wasm_abi::decode_value(b);
        super::mark();
        match r {
            Ok(v) => Ok(if b.len() <= 600 { flat(&v) } else { "big".into() }),
            Err(e) => Err(canon_err(&e)),
        }
    }

    fn edict(b: &[u8]) -> Outcome {
        let r = echo_edict_canonical::decode_canonical_cbor_v1(b);
        super::mark();
        match r {
            Ok(_) => Ok("ok".into()),
            Err(e) => Err(format!("{:?}", e.kind())),
        }
    }

    const TABLE: &[(&str, Dec)] = &[("abi-cbor", abi_cbor), ("edict", edict)];

    pub fn lookup(name: &str) -> Option<Dec> {
        TABLE.iter().find(|(n, _)| *n == name).map(|(_, f)| *f)
    }
    pub fn names() -> Vec<&'static str> {
        TABLE.iter().map(|(n, _)| *n).collect()
    }
    pub fn warm_up() {}
    pub fn print_seeds(_seed: u64) {}
}

// ---------------------------------------------------------------------------------- child

fn sanitize(s: &str) -> String {
    let mut o: String = s
        .chars()
        .map(|c| if c.is_ascii_alphanumeric() || "-_.:,/[]{}<>()".contains(c) { c } else { '_' })
        .collect();
    if o.len() > 160 {
        o.truncate(160);
    }
    if o.is_empty() {
        o.push('-');
    }
    o
}

static PANIC_MSG: std::sync::Mutex<String> = std::sync::Mutex::new(String::new());

fn child_main(cap: usize, stack: usize) {
    std::panic::set_hook(Box::new(|info| {
        let msg = if let Some(s) = info.payload().downcast_ref::<&str>() {
            (*s).to_string()
        } else if let Some(s) = info.payload().downcast_ref::<String>() {
            s.clone()
        } else {
            "non-string".to_string()
        };
        let loc = info.location().map(|l| format!("{}:{}", l.file().rsplit('/').next().unwrap_or(""), l.line())).unwrap_or_default();
        if let Ok(mut g) = PANIC_MSG.lock() {
            *g = format!("{msg}@{loc}");
        }
    }));
    let h = std::thread::Builder::new()
        .name("c13-worker".into())
        .stack_size(stack)
        .spawn(move || {
            let stdin = std::io::stdin();
            let stdout = std::io::stdout();
            decoders::warm_up();
            for line in stdin.lock().lines() {
                let line = match line {
                    Ok(l) => l,
                    Err(_) => break,
                };
                let line = line.trim().to_string();
                if line.is_empty() {
                    continue;
                }
                let m = kv(&line);
                let dec = m.get("dec").cloned().unwrap_or_default();
                let input = expand(m.get("in").map(String::as_str).unwrap_or("-"));
                let len = input.len();
                let f = decoders::lookup(&dec);
                let mut res = String::with_capacity(256);
                // announce the case before running it so the parent knows what was in flight
                {
                    let mut o = stdout.lock();
                    let _ = writeln!(o, "@start");
                    let _ = o.flush();
                }
                let base = CUR.load(Relaxed);
                PEAK.store(base, Relaxed);
                MARK.store(usize::MAX, Relaxed);
                LIMIT.store(base.saturating_add(cap), Relaxed);
                let r = std::panic::catch_unwind(std::panic::AssertUnwindSafe(|| match f {
                    Some(f) => f(&input),
                    None => Err("unknown-decoder".to_string()),
                }));
                mark();
                let peak = MARK.load(Relaxed).saturating_sub(base);
                LIMIT.store(usize::MAX, Relaxed);
                let (class, detail, val) = match r {
                    Ok(Ok(v)) => ("value", "-".to_string(), v),
                    Ok(Err(e)) => ("error", sanitize(&e), String::new()),
                    Err(_) => {
                        let m = PANIC_MSG.lock().map(|g| g.clone()).unwrap_or_default();
                        ("PANIC", sanitize(&m), String::new())
                    }
                };
                use std::fmt::Write as _;
                let _ = write!(res, "dec={dec} len={len} class={class} peak={peak} detail={detail}");
                if !val.is_empty() {
                    let _ = write!(res, " val={val}");
                }
                let mut o = stdout.lock();
                let _ = writeln!(o, "{res}");
                let _ = o.flush();
            }
        })
        .expect("spawn worker");
    let _ = h.join();
}

// ---------------------------------------------------------------------------------- parent

#[derive(Clone)]
struct Opts {
    cap: usize,
    stack: usize,
    timeout_ms: u64,
    jobs: usize,
    batch: usize,
    c: usize,
    c0: usize,
}

enum Ev {
    Start,
    Line(String),
}

/// Runs `cases` (in order) in one child; returns the result lines obtained and, when the child
/// died or stalled, the verdict for the first case without a result.
fn run_child(exe: &str, cases: &[String], o: &Opts) -> (Vec<String>, Option<String>) {
    let mut ch = Command::new(exe)
        .arg("--child")
        .arg(o.cap.to_string())
        .arg(o.stack.to_string())
        .env("RUST_BACKTRACE", "0")
        .stdin(Stdio::piped())
        .stdout(Stdio::piped())
        .stderr(Stdio::piped())
        .spawn()
        .expect("spawn child");
    let mut stdin = ch.stdin.take().unwrap();
    let stdout = ch.stdout.take().unwrap();
    let mut stderr = ch.stderr.take().unwrap();
    let payload = cases.join("\n") + "\n";
    let w = std::thread::spawn(move || {
        let _ = stdin.write_all(payload.as_bytes());
    });
    let (tx, rx) = mpsc::channel::<Ev>();
    let rd = std::thread::spawn(move || {
        for l in BufReader::new(stdout).lines() {
            let Ok(l) = l else { break };
            let ev = if l == "@start" { Ev::Start } else { Ev::Line(l) };
            if tx.send(ev).is_err() {
                break;
            }
        }
    });
    let er = std::thread::spawn(move || {
        let mut s = String::new();
        let _ = std::io::Read::read_to_string(&mut stderr, &mut s);
        s
    });
    let mut lines = Vec::new();
    let mut verdict = None;
    let mut timed_out = false;
    while lines.len() < cases.len() {
        // generous while the child parses/expands the next input, strict once a case has started
        match rx.recv_timeout(Duration::from_millis(o.timeout_ms * 3)) {
            Ok(Ev::Start) => match rx.recv_timeout(Duration::from_millis(o.timeout_ms)) {
                Ok(Ev::Line(l)) => lines.push(l),
                Ok(Ev::Start) => {}
                Err(mpsc::RecvTimeoutError::Timeout) => {
                    timed_out = true;
                    let _ = ch.kill();
                    break;
                }
                Err(mpsc::RecvTimeoutError::Disconnected) => break,
            },
            Ok(Ev::Line(l)) => lines.push(l),
            Err(mpsc::RecvTimeoutError::Timeout) => {
                timed_out = true;
                let _ = ch.kill();
                break;
            }
            Err(mpsc::RecvTimeoutError::Disconnected) => break,
        }
    }
    if lines.len() >= cases.len() {
        // all answered; closing stdin (writer done) lets the child exit
        let _ = w.join();
        let _ = ch.wait();
        let _ = rd.join();
        let _ = er.join();
        return (lines, None);
    }
    let status = ch.wait().ok();
    let _ = w.join();
    let _ = rd.join();
    let err = er.join().unwrap_or_default();
    let culprit = &cases[lines.len()];
    let m = kv(culprit);
    let dec = m.get("dec").cloned().unwrap_or_default();
    let len = expand(m.get("in").map(String::as_str).unwrap_or("-")).len();
    let (class, detail) = if timed_out {
        ("TIMEOUT", format!("no-result-within-{}ms", o.timeout_ms))
    } else if err.contains("has overflowed its stack") {
        ("STACK", "stack-overflow".to_string())
    } else if let Some(p) = err.find("memory allocation of ") {
        let req: String = err[p + 21..].chars().take_while(|c| c.is_ascii_digit()).collect();
        ("OOM", format!("request={req}"))
    } else {
        #[cfg(unix)]
        let sig = {
            use std::os::unix::process::ExitStatusExt;
            status.and_then(|s| s.signal()).unwrap_or(0)
        };
        #[cfg(not(unix))]
        let sig = 0;
        let code = status.and_then(|s| s.code()).unwrap_or(-1);
        ("ABORT", sanitize(&format!("signal={sig},code={code},stderr={}", err.lines().last().unwrap_or(""))))
    };
    verdict = verdict.or(Some(format!("dec={dec} len={len} class={class} peak=0 detail={detail}")));
    (lines, verdict)
}

fn run_chunk(exe: &str, cases: &[String], o: &Opts) -> Vec<String> {
    let mut out: Vec<String> = Vec::with_capacity(cases.len());
    let mut pos = 0;
    while pos < cases.len() {
        let end = (pos + o.batch).min(cases.len());
        let (lines, verdict) = run_child(exe, &cases[pos..end], o);
        pos += lines.len();
        out.extend(lines);
        if let Some(v) = verdict {
            // isolate: the in-flight case alone in a fresh child decides
            let (solo, v2) = run_child(exe, &cases[pos..pos + 1], o);
            let line = if let Some(l) = solo.into_iter().next() {
                format!("{l} note=died-in-batch-only:{}", kv(&v).get("class").cloned().unwrap_or_default())
            } else {
                v2.unwrap_or(v)
            };
            out.push(line);
            pos += 1;
        }
    }
    out
}

fn oracle(line: &str, o: &Opts) -> String {
    let m = kv(line);
    let dec = m.get("dec").cloned().unwrap_or_default();
    let class = m.get("class").cloned().unwrap_or_default();
    let len: usize = m.get("len").and_then(|s| s.parse().ok()).unwrap_or(0);
    let peak: usize = m.get("peak").and_then(|s| s.parse().ok()).unwrap_or(0);
    let detail = m.get("detail").cloned().unwrap_or_default();
    let bound = o.c.saturating_mul(len).saturating_add(o.c0);
    match class.as_str() {
        "value" | "error" => {
            if m.contains_key("note") {
                format!("FAIL:{dec}:state-dependent-crash")
            } else if peak > bound {
                format!("FAIL:{dec}:huge-alloc")
            } else {
                "ok".into()
            }
        }
        "PANIC" => {
            if detail.starts_with("capacity_overflow") {
                format!("FAIL:{dec}:capacity-overflow")
            } else {
                let loc = detail.rsplit('@').next().unwrap_or("").to_string();
                format!("FAIL:{dec}:panic:{loc}")
            }
        }
        "OOM" => format!("FAIL:{dec}:huge-alloc"),
        "STACK" => format!("FAIL:{dec}:deep-nesting"),
        "TIMEOUT" => format!("FAIL:{dec}:timeout"),
        _ => format!("FAIL:{dec}:abort"),
    }
}

fn main() {
    let args: Vec<String> = std::env::args().collect();
    if args.len() >= 4 && args[1] == "--child" {
        child_main(args[2].parse().expect("cap"), args[3].parse().expect("stack"));
        return;
    }
    if args.len() >= 2 && args[1] == "--list" {
        for n in decoders::names() {
            println!("{n}");
        }
        return;
    }
    if args.len() >= 3 && args[1] == "--seeds" {
        // valid encodings produced by the real encoders: `<decoder> <hex>` per line
        decoders::print_seeds(args[2].parse().unwrap_or(1));
        return;
    }
    let mut o = Opts { cap: 256 << 20, stack: 8 << 20, timeout_ms: 20_000, jobs: 16, batch: 400, c: 256, c0: 64 << 10 };
    let mut i = 2;
    while i + 1 < args.len() {
        let v = &args[i + 1];
        match args[i].as_str() {
            "--cap" => o.cap = v.parse().expect("cap"),
            "--stack" => o.stack = v.parse().expect("stack"),
            "--timeout-ms" => o.timeout_ms = v.parse().expect("timeout"),
            "--jobs" => o.jobs = v.parse().expect("jobs"),
            "--batch" => o.batch = v.parse().expect("batch"),
            "--c" => o.c = v.parse().expect("c"),
            "--c0" => o.c0 = v.parse().expect("c0"),
            _ => {}
        }
        i += 2;
    }
    let exe = std::env::current_exe().expect("exe").to_string_lossy().to_string();
    let cases = read_cases();
    let n = cases.len();
    let jobs = o.jobs.max(1).min(n.max(1));
    let chunk = (n + jobs - 1) / jobs.max(1);
    let mut handles = Vec::new();
    for j in 0..jobs {
        let lo = (j * chunk).min(n);
        let hi = ((j + 1) * chunk).min(n);
        let part: Vec<String> = cases[lo..hi].to_vec();
        let exe = exe.clone();
        let o = o.clone();
        handles.push(std::thread::spawn(move || run_chunk(&exe, &part, &o)));
    }
    let stdout = std::io::stdout();
    let mut out = stdout.lock();
    for h in handles {
        for l in h.join().expect("worker") {
            let orc = oracle(&l, &o);
            let _ = writeln!(out, "{l} oracle={orc}");
        }
    }
}
