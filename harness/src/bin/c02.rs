//! C02 harness: every worker schedule commits the same tick.
//!
//! case:   g=<graph> r=<programs> enq=<...> seed=<n> maxassign=<n> threads=<w,w,..> reps=<n>   (syntax: ../tick.rs)
//! output: tbl=.. enq=.. units=<row,row|row..> res=<commit line|Err> oracle=<ok|FAIL:..> scripted=<n> threaded=<n> policy=<n>
#[path = "../tick.rs"]
mod tick;

use std::num::NonZeroUsize;

use echo_verif_harness::*;
use tick::*;
use warp_core::parallel::build_work_units;
use warp_core::{execute_parallel_with_policy, execute_serial, ExecItem, GraphView, OpOrigin, ParallelExecutionPolicy, SchedulerKind, WarpOp};

fn merge_ops(mut flat: Vec<WarpOp>) -> Result<Vec<WarpOp>, String> {
    flat.sort_by(|a, b| a.sort_key().cmp(&b.sort_key()));
    for w in flat.windows(2) {
        if w[0].sort_key() == w[1].sort_key() && w[0] != w[1] {
            return Err("MergeConflict".into());
        }
    }
    flat.dedup_by(|a, b| a.sort_key() == b.sort_key());
    Ok(flat)
}

fn main() {
    // expected panics (footprint violations, scripted executor panics) are caught; keep stderr quiet
    std::panic::set_hook(Box::new(|_| {}));
    for line in read_cases() {
        let m = kv(&line);
        USE_DESCENT_STACK.store(m.get("descent").map(String::as_str) == Some("1"), std::sync::atomic::Ordering::Relaxed);
        let g = build_graph(m.get("g").map(String::as_str).unwrap_or("-"));
        install(parse_programs(m.get("r").map(String::as_str).unwrap_or("-")), "-");
        let enq = parse_enq(m.get("enq").map(String::as_str).unwrap_or("-"));
        let seed: u64 = m.get("seed").and_then(|s| s.parse().ok()).unwrap_or(1);
        let maxassign: usize = m.get("maxassign").and_then(|s| s.parse().ok()).unwrap_or(243);
        let reps: usize = m.get("reps").and_then(|s| s.parse().ok()).unwrap_or(1);
        let threads: Vec<usize> = m.get("threads").map(|s| s.split(',').filter_map(|x| x.parse().ok()).collect()).unwrap_or_else(|| vec![1, 2, 3, 4, 8, 16, 32]);
        let rows = table(&g, &enq);
        let base = run_tick(&g, SchedulerKind::Radix, 1, &enq, None);
        let mut oracle: Vec<String> = Vec::new();
        let same = |o: &TickOutcome| -> bool { o.result == base.result && o.receipt == base.receipt && o.post_dump == base.post_dump && o.post_root == base.post_root };

        // accepted rows in drain order -> the real work units
        let accepted: Vec<usize> = base.receipt.iter().filter(|e| e.2).filter_map(|e| row_index(&rows, &e.0, &e.1)).collect();
        let mut by_warp: std::collections::BTreeMap<u64, Vec<ExecItem>> = std::collections::BTreeMap::new();
        for &i in &accepted {
            let (r, w, n) = rows[i].req;
            by_warp.entry(w).or_default().push(ExecItem::new(
                exec_fn(r),
                nid(n),
                OpOrigin { intent_id: i as u64, rule_id: r as u32, match_ix: 0, op_ix: 0 },
            ));
        }
        let units = build_work_units(by_warp.iter().map(|(w, items)| (wid(*w), items.clone())));
        let units_s: Vec<String> = units
            .iter()
            .map(|u| u.items.iter().map(|it| it.origin.intent_id.to_string()).collect::<Vec<_>>().join(","))
            .collect();
        let nu = units.len();

        // scripted claim orders: every assignment of units to workers when the space is small
        let mut scripted = 0usize;
        let mut rng = Rng(seed);
        if base.result.is_ok() {
            for workers in [2usize, 3] {
                let total = (workers as u64).checked_pow(nu as u32).unwrap_or(u64::MAX);
                let exhaustive = total <= maxassign as u64;
                let count = if exhaustive { total as usize } else { maxassign };
                for k in 0..count {
                    let script: Vec<usize> = if exhaustive {
                        let mut x = k;
                        (0..nu).map(|_| { let d = x % workers; x /= workers; d }).collect()
                    } else {
                        (0..nu).map(|_| rng.below(workers)).collect()
                    };
                    let o = run_tick(&g, SchedulerKind::Radix, workers, &enq, Some(script.clone()));
                    scripted += 1;
                    if !same(&o) {
                        oracle.push(format!("schedule-visible:workers={workers}:assign={:?}", script).replace(' ', ""));
                        break;
                    }
                }
            }
        }
        // real racing threads
        let mut threaded = 0usize;
        for &w in &threads {
            for _ in 0..reps {
                let o = run_tick(&g, SchedulerKind::Radix, w, &enq, None);
                threaded += 1;
                if !same(&o) {
                    oracle.push(format!("threads-visible:workers={w}"));
                    break;
                }
            }
        }
        // the five shard policies (library entry point), per instance
        let mut policy_runs = 0usize;
        for (w, items) in &by_warp {
            let Some(store) = g.state.store(&wid(*w)) else { continue };
            let view = GraphView::new(store);
            let serial = merge_ops(execute_serial(view, items).into_ops_unsorted());
            for pol in [
                ParallelExecutionPolicy::DYNAMIC_PER_WORKER,
                ParallelExecutionPolicy::DYNAMIC_PER_SHARD,
                ParallelExecutionPolicy::STATIC_PER_WORKER,
                ParallelExecutionPolicy::STATIC_PER_SHARD,
                ParallelExecutionPolicy::DEDICATED_PER_SHARD,
            ] {
                for workers in [1usize, 2, 3, 5, 7, 8] {
                    let deltas = execute_parallel_with_policy(view, items, NonZeroUsize::new(workers).unwrap(), pol);
                    let merged = merge_ops(deltas.into_iter().flat_map(warp_core::TickDelta::into_ops_unsorted).collect());
                    policy_runs += 1;
                    if merged != serial {
                        oracle.push(format!("policy-visible:{pol:?}:workers={workers}").replace(' ', ""));
                    }
                }
            }
        }
        let res = match &base.result {
            Ok(l) => l.replace(' ', ","),
            Err(e) => format!("Err:{e}"),
        };
        let tbl = render_table(&rows);
        let enq_idx: Vec<String> = enq.iter().filter_map(|r| rows.iter().position(|row| row.req == *r).map(|i| i.to_string())).collect();
        println!(
            "tbl={} enq={} units={} res={} oracle={} scripted={} threaded={} policy={}",
            if tbl.is_empty() { "-".into() } else { tbl },
            if enq_idx.is_empty() { "-".to_string() } else { enq_idx.join(",") },
            if units_s.is_empty() { "-".to_string() } else { units_s.join("|") },
            res,
            if oracle.is_empty() { "ok".to_string() } else { format!("FAIL:{}", oracle.join(",")) },
            scripted,
            threaded,
            policy_runs
        );
    }
}
