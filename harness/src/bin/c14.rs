//! C14 harness: footprint enforcement (undeclared access never commits) and attributed write targets.
//!
//! mode=tick  g=<graph> r=<programs> enq=<..> omit=<rule>:<set>:<key>;..  (syntax: ../tick.rs)
//!   output: items=<per accepted candidate: guard sets + trace> expect=<viol|clean> res=<class> oracle=.. runs=<n>
//! mode=cover g=<graph> op=<op spec>   applies one op with the real apply and reports which observable locations changed
//!   output: applied=<ok|err> changed=<loc,loc,..>
#[path = "../tick.rs"]
mod tick;

use echo_verif_harness::*;
use tick::*;
use warp_core::{AttachmentKey, AttachmentOwner, AttachmentPlane, EdgeKey, GraphView, NodeKey, SchedulerKind, WarpOp};

fn short(id: &[u8; 32]) -> String {
    u64::from_be_bytes(id[24..].try_into().unwrap()).to_string()
}
fn att_s(k: &AttachmentKey) -> String {
    let (o, w, id) = match k.owner {
        AttachmentOwner::Node(n) => ("n", n.warp_id, n.local_id.0),
        AttachmentOwner::Edge(e) => ("e", e.warp_id, e.local_id.0),
    };
    let p = if k.plane == AttachmentPlane::Alpha { "a" } else { "b" };
    format!("{o}{p}{}.{}", short(&w.0), short(&id))
}
fn op_s(op: &WarpOp) -> String {
    match op {
        WarpOp::UpsertNode { node, record } => format!("UN.{}.{}.{}", short(&node.warp_id.0), short(&node.local_id.0), short(&record.ty.0)),
        WarpOp::DeleteNode { node } => format!("DN.{}.{}", short(&node.warp_id.0), short(&node.local_id.0)),
        WarpOp::UpsertEdge { warp_id, record } => format!("UE.{}.{}.{}.{}.{}", short(&warp_id.0), short(&record.id.0), short(&record.from.0), short(&record.to.0), short(&record.ty.0)),
        WarpOp::DeleteEdge { warp_id, from, edge_id } => format!("DE.{}.{}.{}", short(&warp_id.0), short(&from.0), short(&edge_id.0)),
        WarpOp::SetAttachment { key, value } => format!("SA.{}.{}", att_s(key), if value.is_some() { "v" } else { "-" }),
        WarpOp::UpsertWarpInstance { instance } => format!("UW.{}", short(&instance.warp_id.0)),
        WarpOp::DeleteWarpInstance { warp_id } => format!("DW.{}", short(&warp_id.0)),
        WarpOp::OpenPortal { key, child_warp, .. } => format!("OP.{}.{}", att_s(key), short(&child_warp.0)),
    }
}

/// reference (independent of the guard implementation): does this run stay inside the declared footprint?
fn reference_violates(fp: &warp_core::Footprint, w: warp_core::WarpId, reads: &[Acc], ops: &[WarpOp], panicked: bool) -> bool {
    if panicked {
        return true;
    }
    let nr: Vec<_> = fp.n_read.iter().map(|k| k.local_id).collect();
    let nw: Vec<_> = fp.n_write.iter().map(|k| k.local_id).collect();
    let er: Vec<_> = fp.e_read.iter().map(|k| k.local_id).collect();
    let ew: Vec<_> = fp.e_write.iter().map(|k| k.local_id).collect();
    let ar: Vec<_> = fp.a_read.iter().copied().collect();
    let aw: Vec<_> = fp.a_write.iter().copied().collect();
    for r in reads {
        let ok = match r {
            Acc::Node(n) | Acc::Adj(n) => nr.contains(n),
            Acc::NodeAtt(n) => ar.contains(&AttachmentKey::node_alpha(NodeKey { warp_id: w, local_id: *n })),
            Acc::EdgeAtt(e) => ar.contains(&AttachmentKey::edge_beta(EdgeKey { warp_id: w, local_id: *e })),
            Acc::HasEdge(e) => er.contains(e),
        };
        if !ok {
            return true;
        }
    }
    for op in ops {
        let ok = match op {
            WarpOp::UpsertNode { node, .. } => node.warp_id == w && nw.contains(&node.local_id),
            WarpOp::DeleteNode { node } => node.warp_id == w && nw.contains(&node.local_id) && aw.contains(&AttachmentKey::node_alpha(*node)),
            WarpOp::UpsertEdge { warp_id, record } => *warp_id == w && nw.contains(&record.from) && ew.contains(&record.id),
            WarpOp::DeleteEdge { warp_id, from, edge_id } => {
                *warp_id == w && nw.contains(from) && ew.contains(edge_id)
                    && aw.contains(&AttachmentKey::edge_beta(EdgeKey { warp_id: *warp_id, local_id: *edge_id }))
            }
            WarpOp::SetAttachment { key, .. } => {
                let kw = match key.owner {
                    AttachmentOwner::Node(n) => n.warp_id,
                    AttachmentOwner::Edge(e) => e.warp_id,
                };
                kw == w && aw.contains(key)
            }
            // instance-level ops are never allowed for the (non-system) generated rules
            WarpOp::UpsertWarpInstance { .. } | WarpOp::DeleteWarpInstance { .. } | WarpOp::OpenPortal { .. } => false,
        };
        if !ok {
            return true;
        }
    }
    false
}

fn render_item(row: &Row, reads: &[Acc], ops: &[WarpOp], panicked: bool) -> String {
    let sets = dump_fp(&row.fp)
        .iter()
        .map(|(_, keys)| {
            if keys.is_empty() {
                "-".to_string()
            } else {
                keys.iter()
                    .map(|k| match &k.2 {
                        Some(a) => att_s(a),
                        None => short(&k.0),
                    })
                    .collect::<Vec<_>>()
                    .join("+")
            }
        })
        .collect::<Vec<_>>()
        .join("/");
    let mut ev: Vec<String> = reads
        .iter()
        .map(|r| match r {
            Acc::Node(n) => format!("rN.{}", short(&n.0)),
            Acc::Adj(n) => format!("rA.{}", short(&n.0)),
            Acc::NodeAtt(n) => format!("rNA.{}", short(&n.0)),
            Acc::EdgeAtt(e) => format!("rEA.{}", short(&e.0)),
            Acc::HasEdge(e) => format!("rH.{}", short(&e.0)),
        })
        .collect();
    // reads and emits are reported separately (reads first): the guard outcome does not depend on their interleaving
    ev.extend(ops.iter().map(op_s));
    if panicked {
        ev.push("PANIC".into());
    }
    format!("{}:{}:{}", row.req.1, sets, if ev.is_empty() { "-".to_string() } else { ev.join("+") })
}

fn class(o: &TickOutcome) -> String {
    match &o.result {
        Ok(_) => "ok".into(),
        Err(e) if e.starts_with("FootprintViolation") => "violation".into(),
        // the guard constructor rejecting a footprint is also a flag raised by enforcement
        Err(e) if e.starts_with("Panic:FootprintGuard") => "violation".into(),
        Err(e) if e.starts_with("Panic") => "panic".into(),
        Err(_) => "error".into(),
    }
}

fn main() {
    // expected panics (footprint violations, scripted executor panics) are caught; keep stderr quiet
    std::panic::set_hook(Box::new(|_| {}));
    for line in read_cases() {
        let m = kv(&line);
        let g = build_graph(m.get("g").map(String::as_str).unwrap_or("-"));
        if m.get("mode").map(String::as_str) == Some("cover") {
            cover(&g, m.get("op").map(String::as_str).unwrap_or(""));
            continue;
        }
        install(parse_programs(m.get("r").map(String::as_str).unwrap_or("-")), m.get("omit").map(String::as_str).unwrap_or("-"));
        let enq = parse_enq(m.get("enq").map(String::as_str).unwrap_or("-"));
        USE_DESCENT_STACK.store(m.get("descent").map(String::as_str) == Some("1"), std::sync::atomic::Ordering::Relaxed);
        let maxassign: usize = m.get("maxassign").and_then(|s| s.parse().ok()).unwrap_or(81);
        let rows = table(&g, &enq);
        // accepted candidates (reservation only, nothing executed)
        let mut engine = new_engine(&g, SchedulerKind::Radix, 1);
        let tx = engine.begin();
        for (r, w, n) in &enq {
            let _ = engine.apply_in_warp(tx, wid(*w), rule_name(*r), &nid(*n), &[]);
        }
        let receipt = engine.verif_reserve_only(tx).expect("reserve");
        let accepted: Vec<usize> = receipt
            .entries()
            .iter()
            .filter(|e| e.disposition == warp_core::TickReceiptDisposition::Applied)
            .filter_map(|e| row_index(&rows, &e.scope_hash, &e.rule_id))
            .collect();
        let mut items = Vec::new();
        let mut expect_violation = false;
        for &i in &accepted {
            let (r, w, n) = rows[i].req;
            let store = g.state.store(&wid(w)).unwrap();
            let (reads, ops, panicked) = trace_run(r, GraphView::new(store), &nid(n));
            if reference_violates(&rows[i].fp, wid(w), &reads, &ops, panicked) {
                expect_violation = true;
            }
            items.push(render_item(&rows[i], &reads, &ops, panicked));
        }
        let pre = dump_state(&g.state, &g.warps);
        let mut oracle: Vec<String> = Vec::new();
        let mut runs = 0usize;
        let mut check = |o: &TickOutcome, what: &str, oracle: &mut Vec<String>| {
            let c = class(o);
            if expect_violation {
                if c != "violation" && c != "panic" {
                    oracle.push(format!("undeclared-access-committed:{what}:{c}"));
                } else if o.post_dump != pre {
                    oracle.push(format!("failed-tick-left-visible-state:{what}"));
                }
            } else if c == "violation" {
                oracle.push(format!("honest-rewrite-flagged:{what}"));
            }
        };
        let base = run_tick(&g, SchedulerKind::Radix, 1, &enq, None);
        runs += 1;
        check(&base, "w1", &mut oracle);
        // every position x every worker: scripted assignments of the real work units
        let nu = {
            let mut keys: Vec<(u64, u8)> = accepted.iter().map(|&i| (rows[i].req.1, nid(rows[i].req.2).0[0])).collect();
            keys.sort();
            keys.dedup();
            keys.len()
        };
        let mut rng = Rng(m.get("seed").and_then(|s| s.parse().ok()).unwrap_or(7));
        for workers in [2usize, 3] {
            let total = (workers as u64).checked_pow(nu as u32).unwrap_or(u64::MAX);
            let exhaustive = total <= maxassign as u64;
            let count = if exhaustive { total as usize } else { maxassign };
            for k in 0..count {
                let script: Vec<usize> = if exhaustive {
                    let mut x = k;
                    (0..nu).map(|_| { let d = x % workers; x /= workers; d }).collect()
                } else {
                    (0..nu).map(|_| rng.below(workers)).collect()
                };
                let o = run_tick(&g, SchedulerKind::Radix, workers, &enq, Some(script));
                runs += 1;
                check(&o, &format!("scripted-w{workers}"), &mut oracle);
            }
            let o = run_tick(&g, SchedulerKind::Radix, workers, &enq, None);
            runs += 1;
            check(&o, &format!("threads-w{workers}"), &mut oracle);
        }
        oracle.sort();
        oracle.dedup();
        println!(
            "items={} expect={} res={} oracle={} runs={}",
            if items.is_empty() { "-".to_string() } else { items.join(";") },
            if expect_violation { "viol" } else { "clean" },
            class(&base),
            if oracle.is_empty() { "ok".to_string() } else { format!("FAIL:{}", oracle.join(",")) },
            runs
        );
    }
}

/// mode=cover: observable locations changed by one op (through the public store accessors)
fn cover(g: &Graph, spec: &str) {
    let f: Vec<&str> = spec.split('.').collect();
    let u = |i: usize| -> u64 { f[i].parse().unwrap() };
    let w = 1u64;
    let op = match f[0] {
        "UN" => WarpOp::UpsertNode { node: NodeKey { warp_id: wid(w), local_id: nid(u(1)) }, record: warp_core::NodeRecord { ty: tyid(u(2)) } },
        "DN" => WarpOp::DeleteNode { node: NodeKey { warp_id: wid(w), local_id: nid(u(1)) } },
        "UE" => WarpOp::UpsertEdge { warp_id: wid(w), record: warp_core::EdgeRecord { id: eid(u(1)), from: nid(u(2)), to: nid(u(3)), ty: tyid(u(4)) } },
        "DE" => WarpOp::DeleteEdge { warp_id: wid(w), from: nid(u(1)), edge_id: eid(u(2)) },
        "SN" => WarpOp::SetAttachment {
            key: AttachmentKey::node_alpha(NodeKey { warp_id: wid(w), local_id: nid(u(1)) }),
            value: if f[2] == "-" { None } else { Some(warp_core::AttachmentValue::Atom(warp_core::AtomPayload::new(tyid(1), bytes::Bytes::from(unhex(f[2]))))) },
        },
        "SE" => WarpOp::SetAttachment {
            key: AttachmentKey::edge_beta(EdgeKey { warp_id: wid(w), local_id: eid(u(1)) }),
            value: if f[2] == "-" { None } else { Some(warp_core::AttachmentValue::Atom(warp_core::AtomPayload::new(tyid(1), bytes::Bytes::from(unhex(f[2]))))) },
        },
        x => panic!("cover op {x}"),
    };
    let mut after = g.state.clone();
    let applied = warp_core::verif_hooks::apply_ops_to_state(&mut after, &[op]).is_ok();
    let b = g.state.store(&wid(w)).unwrap();
    let a = after.store(&wid(w)).unwrap();
    let mut changed: Vec<String> = Vec::new();
    // universe of ids: 1..=12 nodes, 20..=32 edges (generators stay inside)
    for n in 1..=12u64 {
        let id = nid(n);
        let adj = |s: &warp_core::GraphStore| {
            let mut v: Vec<_> = s.edges_from(&id).map(|e| (e.id.0, e.to.0, e.ty.0)).collect();
            v.sort();
            v
        };
        if b.node(&id) != a.node(&id) || adj(b) != adj(a) {
            changed.push(format!("N{n}"));
        }
        if b.node_attachment(&id) != a.node_attachment(&id) {
            changed.push(format!("NA{n}"));
        }
    }
    for e in 20..=32u64 {
        let id = eid(e);
        if b.has_edge(&id) != a.has_edge(&id) {
            changed.push(format!("E{e}"));
        }
        if b.edge_attachment(&id) != a.edge_attachment(&id) {
            changed.push(format!("EA{e}"));
        }
    }
    println!("applied={} changed={}", if applied { "ok" } else { "err" }, if changed.is_empty() { "-".to_string() } else { changed.join(",") });
}
