//! C18 harness: MaterializationBus emit/finalize, emissions digest, frame encoding.
//!
//! case:   pol=<chan>:<policy>;...  em=<chan>:<scope>:<rule>:<sub>:<hexdata>;...  perms=<all|N> seed=<u64>
//! output: ch=<chan>:<hex>;... err=<chan>:<count>;... dig=<hex> frames=<hex> res=<o|d per emission> oracle=<ok|FAIL:...> perms=<n tried>
use echo_verif_harness::*;
use warp_core::materialization::{
    encode_frames, ChannelPolicy, EmitKey, MaterializationBus, MaterializationFrame, ReduceOp,
};
use warp_core::{compute_emissions_digest, TypeId};

#[derive(Clone)]
struct Em {
    chan: [u8; 32],
    key: EmitKey,
    data: Vec<u8>,
}

fn policy(s: &str) -> ChannelPolicy {
    match s {
        "log" => ChannelPolicy::Log,
        "single" => ChannelPolicy::StrictSingle,
        "sum" => ChannelPolicy::Reduce(ReduceOp::Sum),
        "max" => ChannelPolicy::Reduce(ReduceOp::Max),
        "min" => ChannelPolicy::Reduce(ReduceOp::Min),
        "bitor" => ChannelPolicy::Reduce(ReduceOp::BitOr),
        "bitand" => ChannelPolicy::Reduce(ReduceOp::BitAnd),
        "first" => ChannelPolicy::Reduce(ReduceOp::First),
        "last" => ChannelPolicy::Reduce(ReduceOp::Last),
        "concat" => ChannelPolicy::Reduce(ReduceOp::Concat),
        _ => panic!("policy {s}"),
    }
}

struct Out {
    line: String,
    res: String,
    flags: Vec<String>,
}

fn run(pols: &[([u8; 32], ChannelPolicy)], ems: &[Em]) -> Out {
    let mut bus = MaterializationBus::new();
    for (c, p) in pols {
        bus.register_channel(TypeId(*c), *p);
    }
    let mut res = String::new();
    for e in ems {
        match bus.emit(TypeId(e.chan), e.key, e.data.clone()) {
            Ok(()) => res.push('o'),
            Err(_) => res.push('d'),
        }
    }
    let report = bus.finalize();
    let ch: Vec<String> = report
        .channels
        .iter()
        .map(|c| format!("{}:{}", hex::encode(c.channel.0), tohex(&c.data)))
        .collect();
    let er: Vec<String> = report
        .errors
        .iter()
        .map(|c| format!("{}:{}", hex::encode(c.channel.0), c.emission_count))
        .collect();
    let dig = compute_emissions_digest(&report.channels);
    let frames: Vec<MaterializationFrame> = report
        .channels
        .iter()
        .map(|c| MaterializationFrame::new(c.channel, c.data.clone()))
        .collect();
    let fb = encode_frames(&frames);
    // digest must not depend on the order of the slice it is given
    let mut rev = report.channels.clone();
    rev.reverse();
    let dig_rev = compute_emissions_digest(&rev);
    let mut flags = Vec::new();
    if dig_rev != dig {
        flags.push("digest-depends-on-channel-slice-order".to_string());
    }
    // a second finalize on the now-empty bus must be empty
    let again = bus.finalize();
    if !(again.channels.is_empty() && again.errors.is_empty()) {
        flags.push("bus-not-cleared-by-finalize".to_string());
    }
    Out {
        line: format!(
            "ch={} err={} dig={} frames={}",
            if ch.is_empty() { "-".into() } else { ch.join(";") },
            if er.is_empty() { "-".into() } else { er.join(";") },
            hex::encode(dig),
            tohex(&fb)
        ),
        res,
        flags,
    }
}

fn main() {
    for line in read_cases() {
        let m = kv(&line);
        let pols: Vec<([u8; 32], ChannelPolicy)> = items(m.get("pol").map(String::as_str).unwrap_or("-"))
            .iter()
            .map(|it| {
                let (c, p) = it.split_once(':').unwrap();
                (hex32(c), policy(p))
            })
            .collect();
        let ems: Vec<Em> = items(m.get("em").map(String::as_str).unwrap_or("-"))
            .iter()
            .map(|it| {
                let f: Vec<&str> = it.split(':').collect();
                Em {
                    chan: hex32(f[0]),
                    key: EmitKey::with_subkey(hex32(f[1]), f[2].parse().unwrap(), f[3].parse().unwrap()),
                    data: unhex(f[4]),
                }
            })
            .collect();
        let seed: u64 = m.get("seed").and_then(|s| s.parse().ok()).unwrap_or(1);
        let perms = m.get("perms").cloned().unwrap_or_else(|| "0".into());
        let base = run(&pols, &ems);
        let mut oracle: Vec<String> = base.flags.clone();
        let mut tried = 0usize;

        // distinct (channel,key) pairs?
        let mut keys: Vec<([u8; 32], [u8; 32], u32, u32)> =
            ems.iter().map(|e| (e.chan, e.key.scope_hash, e.key.rule_id, e.key.subkey)).collect();
        keys.sort();
        let distinct = keys.windows(2).all(|w| w[0] != w[1]);

        if distinct {
            if base.res.contains('d') {
                oracle.push("distinct-key-emission-rejected".into());
            }
            let n = ems.len();
            let mut check = |p: &[usize]| -> bool {
                let pe: Vec<Em> = p.iter().map(|&i| ems[i].clone()).collect();
                let o = run(&pols, &pe);
                tried += 1;
                if o.line != base.line || o.res.contains('d') {
                    oracle.push(format!("perm{:?}", p));
                    false
                } else {
                    true
                }
            };
            if perms == "all" {
                for_each_perm(n, |p| check(p));
            } else {
                let k: usize = perms.parse().unwrap_or(0);
                let mut rng = Rng(seed);
                let mut idx: Vec<usize> = (0..n).collect();
                for _ in 0..k {
                    rng.shuffle(&mut idx);
                    if !check(&idx) {
                        break;
                    }
                }
            }
            // re-keying: for commutative reducers permuting the values among a channel's keys
            // must not change anything.
            let mut rng = Rng(seed ^ 0xabcdef);
            for (c, p) in &pols {
                if let ChannelPolicy::Reduce(op) = p {
                    if op.is_commutative() {
                        let pos: Vec<usize> = (0..n).filter(|&i| ems[i].chan == *c).collect();
                        if pos.len() >= 2 {
                            for _ in 0..3 {
                                let mut vals: Vec<Vec<u8>> = pos.iter().map(|&i| ems[i].data.clone()).collect();
                                rng.shuffle(&mut vals);
                                let mut e2 = ems.clone();
                                for (j, &i) in pos.iter().enumerate() {
                                    e2[i].data = vals[j].clone();
                                }
                                let o = run(&pols, &e2);
                                tried += 1;
                                if o.line != base.line {
                                    oracle.push(format!("rekey-chan-{}", hex::encode(&c[28..])));
                                }
                            }
                        }
                    }
                }
            }
        } else {
            // duplicates: every repeated (channel,key) must be rejected and must not change the
            // outcome (first occurrence wins).
            let mut seen = std::collections::BTreeSet::new();
            let mut firsts: Vec<Em> = Vec::new();
            let mut expect = String::new();
            for e in &ems {
                let k = (e.chan, e.key.scope_hash, e.key.rule_id, e.key.subkey);
                if seen.insert(k) {
                    firsts.push(e.clone());
                    expect.push('o');
                } else {
                    expect.push('d');
                }
            }
            if expect != base.res {
                oracle.push(format!("dup-results {} expected {}", base.res, expect));
            }
            let o = run(&pols, &firsts);
            tried += 1;
            if o.line != base.line {
                oracle.push("dup-changed-outcome".into());
            }
        }
        let orc = if oracle.is_empty() { "ok".to_string() } else { format!("FAIL:{}", oracle.join(",").replace(' ', "_")) };
        println!("{} res={} oracle={} perms={}", base.line, base.res, orc, tried);
    }
}
