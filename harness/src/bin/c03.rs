//! C03 harness: pending-queue drain order, reservation decisions, receipt blockers, legacy scheduler.
//!
//! case:   c=<scopehex>:<compact>:<fp>;...   (fp = nr/nw/er/ew/ar/aw/bi/bo/mask, set = `-` or w.k+w.k)
//!         or gen=<n>:<seed>:<style>  (large batches generated inside the harness; impl-side oracle only
//!         unless `dump=1`, which also prints the expanded `c=` line for the model)
//! output: order=<handles> dec=<bits> blk=<a+b,...> legacy=<bits> oracle=<ok|FAIL:...>
use std::collections::BTreeMap;

use echo_verif_harness::*;
use warp_core::verif_hooks::{scheduler_drain_and_reserve, RawCandidate};
use warp_core::{
    AttachmentKey, AttachmentOwner, AttachmentPlane, EdgeId, EdgeKey, EngineBuilder, Footprint, GraphStore,
    NodeId, NodeKey, NodeRecord, SchedulerKind, TickReceiptDisposition, WarpId,
};

type K = (u64, u64);

#[derive(Clone, Default, Debug)]
struct Fp {
    sets: [Vec<K>; 8], // nr nw er ew ar aw bi bo
    mask: u64,
}

#[derive(Clone, Debug)]
struct Cand {
    scope: [u8; 32],
    compact: u32,
    fp: Fp,
}

fn id32(x: u64) -> [u8; 32] {
    let mut b = [0u8; 32];
    b[24..].copy_from_slice(&x.to_be_bytes());
    b
}

fn parse_set(s: &str) -> Vec<K> {
    if s == "-" || s.is_empty() {
        return Vec::new();
    }
    s.split('+')
        .map(|k| {
            let (w, l) = k.split_once('.').unwrap();
            (w.parse().unwrap(), l.parse().unwrap())
        })
        .collect()
}

fn parse_fp(s: &str) -> Fp {
    let f: Vec<&str> = s.split('/').collect();
    let mut fp = Fp::default();
    for i in 0..8 {
        fp.sets[i] = parse_set(f[i]);
    }
    fp.mask = f[8].parse().unwrap();
    fp
}

fn att_key(k: K) -> AttachmentKey {
    let w = WarpId(id32(k.0));
    let id = k.1 / 4;
    let owner = if (k.1 / 2) % 2 == 0 {
        AttachmentOwner::Node(NodeKey { warp_id: w, local_id: NodeId(id32(id)) })
    } else {
        AttachmentOwner::Edge(EdgeKey { warp_id: w, local_id: EdgeId(id32(id)) })
    };
    let plane = if k.1 % 2 == 0 { AttachmentPlane::Alpha } else { AttachmentPlane::Beta };
    AttachmentKey { owner, plane }
}

fn real_fp(fp: &Fp) -> Footprint {
    let mut f = Footprint::default();
    for k in &fp.sets[0] {
        f.n_read.insert_with_warp(WarpId(id32(k.0)), NodeId(id32(k.1)));
    }
    for k in &fp.sets[1] {
        f.n_write.insert_with_warp(WarpId(id32(k.0)), NodeId(id32(k.1)));
    }
    for k in &fp.sets[2] {
        f.e_read.insert_with_warp(WarpId(id32(k.0)), EdgeId(id32(k.1)));
    }
    for k in &fp.sets[3] {
        f.e_write.insert_with_warp(WarpId(id32(k.0)), EdgeId(id32(k.1)));
    }
    for k in &fp.sets[4] {
        f.a_read.insert(att_key(*k));
    }
    for k in &fp.sets[5] {
        f.a_write.insert(att_key(*k));
    }
    for k in &fp.sets[6] {
        f.b_in.insert(WarpId(id32(k.0)), k.1);
    }
    for k in &fp.sets[7] {
        f.b_out.insert(WarpId(id32(k.0)), k.1);
    }
    f.factor_mask = fp.mask;
    f
}

fn raw(c: &Cand) -> RawCandidate {
    RawCandidate {
        rule_id: id32(u64::from(c.compact)),
        compact_rule: c.compact,
        scope_hash: c.scope,
        // the instance a candidate was matched in is NOT part of its admission: footprints name resources of any
        // instance (a descended candidate reads the portal slots of its ancestors), so conflicts and blocking witnesses
        // must not depend on it; derive it from the key so that conflicting candidates sit in different instances
        scope: NodeKey { warp_id: WarpId(id32(1 + u64::from((c.scope[31] ^ (c.compact as u8)) & 1))), local_id: NodeId(id32(1)) },
        footprint: real_fp(&c.fp),
    }
}

// ---- independent reference (the property's own oracle) ----
fn inter(a: &[K], b: &[K]) -> bool {
    a.iter().any(|x| b.contains(x))
}
fn ref_conflict(a: &Fp, b: &Fp) -> bool {
    let s = &a.sets;
    let t = &b.sets;
    // node / edge / attachment: write-write, write-read either way
    for (r, w) in [(0usize, 1usize), (2, 3), (4, 5)] {
        if inter(&s[w], &t[w]) || inter(&s[w], &t[r]) || inter(&s[r], &t[w]) {
            return true;
        }
    }
    // any shared boundary port
    let pa: Vec<K> = s[6].iter().chain(s[7].iter()).copied().collect();
    let pb: Vec<K> = t[6].iter().chain(t[7].iter()).copied().collect();
    inter(&pa, &pb)
}

struct Expect {
    order: Vec<usize>,
    dec: Vec<bool>,
    blk: Vec<Vec<u32>>,
}

fn reference(cands: &[Cand]) -> Expect {
    // last-wins per (scope, compact); ascending byte order of (scope hash, rule id)
    let mut m: BTreeMap<([u8; 32], u32), usize> = BTreeMap::new();
    for (i, c) in cands.iter().enumerate() {
        m.insert((c.scope, c.compact), i);
    }
    let order: Vec<usize> = m.values().copied().collect();
    let mut dec = Vec::new();
    let mut blk = Vec::new();
    let mut accepted: Vec<(u32, usize)> = Vec::new();
    for (pos, &h) in order.iter().enumerate() {
        let b: Vec<u32> = accepted
            .iter()
            .filter(|(_, j)| ref_conflict(&cands[h].fp, &cands[*j].fp))
            .map(|(p, _)| *p)
            .collect();
        if b.is_empty() {
            accepted.push((pos as u32, h));
            dec.push(true);
        } else {
            dec.push(false);
        }
        blk.push(b);
    }
    Expect { order, dec, blk }
}

fn masks_sound(cands: &[Cand], order: &[usize]) -> bool {
    for &a in order {
        for &b in order {
            if ref_conflict(&cands[a].fp, &cands[b].fp) && (cands[a].fp.mask & cands[b].fp.mask) == 0 {
                return false;
            }
        }
    }
    true
}

fn bits(v: &[bool]) -> String {
    v.iter().map(|b| if *b { '1' } else { '0' }).collect()
}

fn run_case(cands: &[Cand], verbose: bool) -> String {
    let handle_of = |scope: &[u8; 32], compact: u32| -> usize {
        cands.iter().rposition(|c| &c.scope == scope && c.compact == compact).unwrap()
    };
    // raw scheduler (both kinds)
    let r = scheduler_drain_and_reserve(SchedulerKind::Radix, cands.iter().map(raw).collect());
    let order: Vec<usize> = r.iter().map(|e| handle_of(&e.0, e.1)).collect();
    let dec: Vec<bool> = r.iter().map(|e| e.3).collect();
    let l = scheduler_drain_and_reserve(SchedulerKind::Legacy, cands.iter().map(raw).collect());
    let lorder: Vec<usize> = l.iter().map(|e| handle_of(&e.0, e.1)).collect();
    let ldec: Vec<bool> = l.iter().map(|e| e.3).collect();
    // engine receipt path
    let mut store = GraphStore::default();
    let root = NodeId(id32(1));
    store.insert_node(root, NodeRecord { ty: warp_core::make_type_id("verif/root") });
    let mut engine = EngineBuilder::new(store, root).scheduler(SchedulerKind::Radix).build();
    let tx = engine.begin();
    for c in cands {
        engine.verif_enqueue_raw(tx, raw(c)).unwrap();
    }
    let mut oracle: Vec<String> = Vec::new();
    let (rdec, rblk, rorder): (Vec<bool>, Vec<Vec<u32>>, Vec<usize>) = match engine.verif_reserve_only(tx) {
        Ok(rc) => {
            let d: Vec<bool> = rc.entries().iter().map(|e| e.disposition == TickReceiptDisposition::Applied).collect();
            let b: Vec<Vec<u32>> = (0..rc.entries().len()).map(|i| rc.blocked_by(i).to_vec()).collect();
            let o: Vec<usize> = rc
                .entries()
                .iter()
                .map(|e| {
                    let compact = u32::from_be_bytes([e.rule_id[28], e.rule_id[29], e.rule_id[30], e.rule_id[31]]);
                    handle_of(&e.scope_hash, compact)
                })
                .collect();
            // the receipt must satisfy its own retained-parts invariants
            if warp_core::TickReceipt::try_from_retained_parts(rc.tx(), rc.entries().to_vec(), b.clone()).is_err() {
                oracle.push("receipt-violates-retained-invariants".into());
            }
            (d, b, o)
        }
        Err(e) => {
            oracle.push(format!("reserve-error:{e:?}").replace(' ', "_"));
            (Vec::new(), Vec::new(), Vec::new())
        }
    };
    let exp = reference(cands);
    if order != exp.order {
        oracle.push("drain-order-not-ascending-scope-rule".into());
    }
    if rorder != exp.order {
        oracle.push("receipt-order-not-ascending-scope-rule".into());
    }
    if dec != exp.dec {
        oracle.push("reserve-not-greedy".into());
    }
    if rdec != exp.dec {
        oracle.push("receipt-decisions-not-greedy".into());
    }
    if rblk != exp.blk {
        oracle.push("receipt-blockers-not-exact".into());
    }
    if lorder != exp.order {
        oracle.push("legacy-drain-order".into());
    }
    if masks_sound(cands, &exp.order) && ldec != exp.dec {
        oracle.push("legacy-disagrees-with-sound-masks".into());
    }
    let orc = if oracle.is_empty() { "ok".to_string() } else { format!("FAIL:{}", oracle.join(",")) };
    if verbose {
        format!(
            "order={} dec={} blk={} legacy={} oracle={}",
            order.iter().map(|h| h.to_string()).collect::<Vec<_>>().join(","),
            bits(&dec),
            rblk.iter()
                .map(|b| if b.is_empty() { "-".to_string() } else { b.iter().map(|x| x.to_string()).collect::<Vec<_>>().join("+") })
                .collect::<Vec<_>>()
                .join(","),
            bits(&ldec),
            orc
        )
    } else {
        format!(
            "order=#{} dec=#{} blk=# legacy=# oracle={} n={} accepted={}",
            hex::encode(&blake3::hash(format!("{order:?}").as_bytes()).as_bytes()[..6]),
            hex::encode(&blake3::hash(bits(&dec).as_bytes()).as_bytes()[..6]),
            orc,
            order.len(),
            dec.iter().filter(|b| **b).count()
        )
    }
}

fn gen_batch(n: usize, seed: u64, style: &str) -> Vec<Cand> {
    let mut rng = Rng(seed);
    let base: [u8; 32] = {
        let mut b = [0u8; 32];
        for x in b.iter_mut() {
            *x = rng.next() as u8;
        }
        b
    };
    let mut out = Vec::with_capacity(n);
    for i in 0..n {
        let mut scope = [0u8; 32];
        match style {
            // long shared prefix, keys differ only in one late 16-bit pair
            "prefix" => {
                scope = base;
                let pair = 10 + rng.below(6);
                scope[2 * pair] = rng.next() as u8;
                scope[2 * pair + 1] = rng.next() as u8;
            }
            // equal scope hashes, different rules
            "samescope" => {
                scope = base;
                scope[31] = (rng.below(4)) as u8;
            }
            _ => {
                for x in scope.iter_mut() {
                    *x = rng.next() as u8;
                }
            }
        }
        let compact = match style {
            "samescope" => rng.next() as u32,
            _ => rng.below(4) as u32,
        };
        let mut fp = Fp::default();
        if rng.below(4) == 0 {
            let k = (1 + rng.below(2) as u64, rng.below(40) as u64);
            let slot = rng.below(8);
            fp.sets[slot].push(k);
        }
        fp.mask = u64::MAX;
        let _ = i;
        out.push(Cand { scope, compact, fp });
    }
    out
}

fn render_cands(cands: &[Cand]) -> String {
    cands
        .iter()
        .map(|c| {
            let sets: Vec<String> = c
                .fp
                .sets
                .iter()
                .map(|s| if s.is_empty() { "-".to_string() } else { s.iter().map(|k| format!("{}.{}", k.0, k.1)).collect::<Vec<_>>().join("+") })
                .collect();
            format!("{}:{}:{}/{}", hex::encode(c.scope), c.compact, sets.join("/"), c.fp.mask)
        })
        .collect::<Vec<_>>()
        .join(";")
}

fn main() {
    for line in read_cases() {
        let m = kv(&line);
        if let Some(g) = m.get("gen") {
            let f: Vec<&str> = g.split(':').collect();
            let cands = gen_batch(f[0].parse().unwrap(), f[1].parse().unwrap(), f[2]);
            if m.get("dump").map(String::as_str) == Some("1") {
                println!("{} expand=c={}", run_case(&cands, true), render_cands(&cands));
            } else {
                println!("{}", run_case(&cands, false));
            }
            continue;
        }
        let cands: Vec<Cand> = items(m.get("c").map(String::as_str).unwrap_or("-"))
            .iter()
            .map(|it| {
                let f: Vec<&str> = it.split(':').collect();
                Cand { scope: hex32(f[0]), compact: f[1].parse().unwrap(), fp: parse_fp(f[2]) }
            })
            .collect();
        println!("{}", run_case(&cands, true));
    }
}
