//! Reads hex lines on stdin, prints blake3(bytes) as hex per line.
use std::io::{BufRead, Write};
fn main() {
    let stdin = std::io::stdin();
    let out = std::io::stdout();
    let mut out = out.lock();
    for line in stdin.lock().lines() {
        let line = line.unwrap();
        let b = echo_verif_harness::unhex(line.trim());
        writeln!(out, "{}", blake3::hash(&b).to_hex()).unwrap();
    }
}
