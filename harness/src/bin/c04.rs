//! C04 harness: tick patch diff / apply on the real warp-core.
//!
//! State description `S` (canonical, sorted): `-` (no instances) or instances joined by `|`, each
//! `w~root~parent~nodes~edges~natts~eatts` with
//!   parent = `-` | `<n|e>.<w>.<id>.<a|b>`            nodes = `-` | `id.ty,...`
//!   edges  = `-` | `id.from.to.ty,...`                 atts  = `-` | `id.<ATT>,...`
//!   ATT    = `a.<ty>.<hexbytes|->` | `d.<warp>`        (ids = lower-case hex without leading zeros)
//! Ops (joined by `;`, `-` = none):
//!   `P.<n|e>.<w>.<id>.<a|b>.<cw>.<cr>.<ty|->`  OpenPortal (ty = Empty{root_record}, `-` = RequireExisting)
//!   `I.<w>.<root>.<parent>`  UpsertWarpInstance      `X.<w>`  DeleteWarpInstance
//!   `N.<w>.<n>.<ty>` UpsertNode   `n.<w>.<n>` DeleteNode
//!   `E.<w>.<e>.<from>.<to>.<ty>` UpsertEdge   `e.<w>.<from>.<e>` DeleteEdge
//!   `A.<n|e>.<w>.<id>.<a|b>.<ATT|->` SetAttachment
//!
//! Cases:
//!   k=pair a=S b=S seed=u64        -> diff=<ops> res=<ok|err:..> st=<S|-> wf=<a><b> oracle=..
//!   k=seq  a=S ops=<ops> canon=0|1 -> res=.. st=<S|-> wf=0|1 diff=<ops|-> rres=<ok|err:..|-> rst=<S|-> oracle=..
//!   k=enum shard=i/n sample=N seed=u64 [edges=..]  -> enum ... (oracle only, multi-threaded)
//!   k=tick ...                      -> real Engine ticks (oracle only)
#![allow(clippy::all)]
use bytes::Bytes;
use echo_verif_harness::*;
use std::collections::{BTreeMap, BTreeSet};
use warp_core::verif_hooks::{apply_ops_to_state, diff_state};
use warp_core::{
    AtomPayload, AttachmentKey, AttachmentOwner, AttachmentPlane, AttachmentValue, DeleteNodeError, EdgeId, EdgeKey,
    EdgeRecord, GraphStore, NodeId, NodeKey, NodeRecord, PortalInit, TickCommitStatus, TickPatchError, TypeId,
    WarpId, WarpInstance, WarpOp, WarpState, WarpTickPatchV1, WorldlineState,
};

// ------------------------------------------------------------------------------------------ text

fn hid(b: &[u8; 32]) -> String {
    let s = hex::encode(b);
    let t = s.trim_start_matches('0');
    if t.is_empty() {
        "0".to_string()
    } else {
        t.to_string()
    }
}

fn fmt_att(v: &AttachmentValue) -> String {
    match v {
        AttachmentValue::Atom(a) => format!("a.{}.{}", hid(&a.type_id.0), tohex(&a.bytes)),
        AttachmentValue::Descend(w) => format!("d.{}", hid(&w.0)),
    }
}

fn fmt_key(k: &AttachmentKey) -> String {
    let p = match k.plane {
        AttachmentPlane::Alpha => "a",
        AttachmentPlane::Beta => "b",
    };
    match k.owner {
        AttachmentOwner::Node(n) => format!("n.{}.{}.{}", hid(&n.warp_id.0), hid(&n.local_id.0), p),
        AttachmentOwner::Edge(e) => format!("e.{}.{}.{}", hid(&e.warp_id.0), hid(&e.local_id.0), p),
    }
}

/// Parses `<n|e>.<w>.<id>.<a|b>` from `f[i..i+4]`.
fn parse_key(f: &[&str]) -> AttachmentKey {
    let w = WarpId(hex32(f[1]));
    let plane = if f[3] == "a" { AttachmentPlane::Alpha } else { AttachmentPlane::Beta };
    let owner = if f[0] == "n" {
        AttachmentOwner::Node(NodeKey { warp_id: w, local_id: NodeId(hex32(f[2])) })
    } else {
        AttachmentOwner::Edge(EdgeKey { warp_id: w, local_id: EdgeId(hex32(f[2])) })
    };
    AttachmentKey { owner, plane }
}

/// Parses `a.<ty>.<bytes>` / `d.<w>` / `-` from a field slice.
fn parse_att(f: &[&str]) -> Option<AttachmentValue> {
    match f[0] {
        "-" => None,
        "a" => Some(AttachmentValue::Atom(AtomPayload::new(TypeId(hex32(f[1])), Bytes::from(unhex(f[2]))))),
        "d" => Some(AttachmentValue::Descend(WarpId(hex32(f[1])))),
        x => panic!("att {x}"),
    }
}

fn fmt_op(op: &WarpOp) -> String {
    match op {
        WarpOp::OpenPortal { key, child_warp, child_root, init } => format!(
            "P.{}.{}.{}.{}",
            fmt_key(key),
            hid(&child_warp.0),
            hid(&child_root.0),
            match init {
                PortalInit::Empty { root_record } => hid(&root_record.ty.0),
                PortalInit::RequireExisting => "-".to_string(),
            }
        ),
        WarpOp::UpsertWarpInstance { instance } => format!(
            "I.{}.{}.{}",
            hid(&instance.warp_id.0),
            hid(&instance.root_node.0),
            instance.parent.as_ref().map(fmt_key).unwrap_or_else(|| "-".into())
        ),
        WarpOp::DeleteWarpInstance { warp_id } => format!("X.{}", hid(&warp_id.0)),
        WarpOp::UpsertNode { node, record } => {
            format!("N.{}.{}.{}", hid(&node.warp_id.0), hid(&node.local_id.0), hid(&record.ty.0))
        }
        WarpOp::DeleteNode { node } => format!("n.{}.{}", hid(&node.warp_id.0), hid(&node.local_id.0)),
        WarpOp::UpsertEdge { warp_id, record } => format!(
            "E.{}.{}.{}.{}.{}",
            hid(&warp_id.0),
            hid(&record.id.0),
            hid(&record.from.0),
            hid(&record.to.0),
            hid(&record.ty.0)
        ),
        WarpOp::DeleteEdge { warp_id, from, edge_id } => {
            format!("e.{}.{}.{}", hid(&warp_id.0), hid(&from.0), hid(&edge_id.0))
        }
        WarpOp::SetAttachment { key, value } => {
            format!("A.{}.{}", fmt_key(key), value.as_ref().map(fmt_att).unwrap_or_else(|| "-".into()))
        }
    }
}

fn fmt_ops(ops: &[WarpOp]) -> String {
    if ops.is_empty() {
        "-".into()
    } else {
        ops.iter().map(fmt_op).collect::<Vec<_>>().join(";")
    }
}

fn parse_op(s: &str) -> WarpOp {
    let f: Vec<&str> = s.split('.').collect();
    match f[0] {
        "P" => WarpOp::OpenPortal {
            key: parse_key(&f[1..5]),
            child_warp: WarpId(hex32(f[5])),
            child_root: NodeId(hex32(f[6])),
            init: if f[7] == "-" {
                PortalInit::RequireExisting
            } else {
                PortalInit::Empty { root_record: NodeRecord { ty: TypeId(hex32(f[7])) } }
            },
        },
        "I" => WarpOp::UpsertWarpInstance {
            instance: WarpInstance {
                warp_id: WarpId(hex32(f[1])),
                root_node: NodeId(hex32(f[2])),
                parent: if f[3] == "-" { None } else { Some(parse_key(&f[3..7])) },
            },
        },
        "X" => WarpOp::DeleteWarpInstance { warp_id: WarpId(hex32(f[1])) },
        "N" => WarpOp::UpsertNode {
            node: NodeKey { warp_id: WarpId(hex32(f[1])), local_id: NodeId(hex32(f[2])) },
            record: NodeRecord { ty: TypeId(hex32(f[3])) },
        },
        "n" => WarpOp::DeleteNode { node: NodeKey { warp_id: WarpId(hex32(f[1])), local_id: NodeId(hex32(f[2])) } },
        "E" => WarpOp::UpsertEdge {
            warp_id: WarpId(hex32(f[1])),
            record: EdgeRecord {
                id: EdgeId(hex32(f[2])),
                from: NodeId(hex32(f[3])),
                to: NodeId(hex32(f[4])),
                ty: TypeId(hex32(f[5])),
            },
        },
        "e" => WarpOp::DeleteEdge {
            warp_id: WarpId(hex32(f[1])),
            from: NodeId(hex32(f[2])),
            edge_id: EdgeId(hex32(f[3])),
        },
        "A" => WarpOp::SetAttachment { key: parse_key(&f[1..5]), value: parse_att(&f[5..]) },
        x => panic!("op {x}"),
    }
}

fn parse_ops(s: &str) -> Vec<WarpOp> {
    items(s).iter().map(|o| parse_op(o)).collect()
}

fn fmt_err(e: &TickPatchError) -> String {
    match e {
        TickPatchError::MissingWarp(w) => format!("err:MissingWarp.{}", hid(&w.0)),
        TickPatchError::MissingNode(n) => format!("err:MissingNode.{}.{}", hid(&n.warp_id.0), hid(&n.local_id.0)),
        TickPatchError::MissingEdge(e) => format!("err:MissingEdge.{}.{}", hid(&e.warp_id.0), hid(&e.local_id.0)),
        TickPatchError::NodeNotIsolated(n) => {
            format!("err:NodeNotIsolated.{}.{}", hid(&n.warp_id.0), hid(&n.local_id.0))
        }
        TickPatchError::InvalidAttachmentKey(k) => format!("err:InvalidAttachmentKey.{}", fmt_key(k)),
        TickPatchError::PortalInitRequired => "err:PortalInitRequired".into(),
        TickPatchError::PortalInvariantViolation => "err:PortalInvariantViolation".into(),
        TickPatchError::DigestMismatch => "err:DigestMismatch".into(),
    }
}

// ------------------------------------------------------------------------------------------ states

/// Abstract view of one store, read through public accessors only.
#[derive(Clone, PartialEq, Eq, Debug, Default)]
struct AStore {
    nodes: BTreeMap<[u8; 32], [u8; 32]>,
    edges: BTreeMap<[u8; 32], ([u8; 32], [u8; 32], [u8; 32])>,
    natt: BTreeMap<[u8; 32], AttachmentValue>,
    eatt: BTreeMap<[u8; 32], AttachmentValue>,
}

fn abstract_store(s: &GraphStore) -> (AStore, Vec<String>) {
    let mut flags = Vec::new();
    let mut a = AStore::default();
    for (id, rec) in s.iter_nodes() {
        a.nodes.insert(id.0, rec.ty.0);
    }
    for (from, bucket) in s.iter_edges() {
        if bucket.is_empty() {
            flags.push("empty-bucket".to_string());
        }
        for e in bucket {
            if e.from != *from {
                flags.push("edge-from-differs-from-bucket".to_string());
            }
            if a.edges.insert(e.id.0, (e.from.0, e.to.0, e.ty.0)).is_some() {
                flags.push("duplicate-edge-id".to_string());
            }
        }
    }
    for (id, v) in s.iter_node_attachments() {
        a.natt.insert(id.0, v.clone());
    }
    for (id, v) in s.iter_edge_attachments() {
        a.eatt.insert(id.0, v.clone());
    }
    (a, flags)
}

fn dump_store(a: &AStore) -> String {
    let j = |v: Vec<String>| if v.is_empty() { "-".to_string() } else { v.join(",") };
    format!(
        "{}~{}~{}~{}",
        j(a.nodes.iter().map(|(k, t)| format!("{}.{}", hid(k), hid(t))).collect()),
        j(a.edges.iter().map(|(k, (f, t, ty))| format!("{}.{}.{}.{}", hid(k), hid(f), hid(t), hid(ty))).collect()),
        j(a.natt.iter().map(|(k, v)| format!("{}.{}", hid(k), fmt_att(v))).collect()),
        j(a.eatt.iter().map(|(k, v)| format!("{}.{}", hid(k), fmt_att(v))).collect())
    )
}

/// Canonical dump over the warp ids in `universe` (WarpState has no public iterator).
fn dump_state(st: &WarpState, universe: &BTreeSet<[u8; 32]>, flags: &mut Vec<String>) -> String {
    let mut parts = Vec::new();
    for w in universe {
        let wid = WarpId(*w);
        let inst = st.instance(&wid);
        let store = st.store(&wid);
        if inst.is_some() != store.is_some() {
            flags.push("instances-stores-desync".into());
        }
        let (Some(inst), Some(store)) = (inst, store) else { continue };
        if inst.warp_id != wid || store.warp_id() != wid {
            flags.push("warp-id-field-mismatch".into());
        }
        let (a, f) = abstract_store(store);
        flags.extend(f);
        parts.push(format!(
            "{}~{}~{}~{}",
            hid(w),
            hid(&inst.root_node.0),
            inst.parent.as_ref().map(fmt_key).unwrap_or_else(|| "-".into()),
            dump_store(&a)
        ));
    }
    if parts.is_empty() {
        "-".into()
    } else {
        parts.join("|")
    }
}

/// Probes the redundant indexes of a store (edges_to, edge_index, edge_to_index) through the public API
/// on clones: every behaviour must agree with what the bucket view (iter_edges) implies.
fn probe_store(s: &GraphStore, extra_nodes: &BTreeSet<[u8; 32]>, extra_edges: &BTreeSet<[u8; 32]>) -> Vec<String> {
    let (a, mut flags) = abstract_store(s);
    let mut edge_ids: BTreeSet<[u8; 32]> = a.edges.keys().copied().collect();
    edge_ids.extend(extra_edges.iter().copied());
    for e in &edge_ids {
        let present = a.edges.contains_key(e);
        if s.has_edge(&EdgeId(*e)) != present {
            flags.push("has-edge-disagrees-with-buckets".into());
        }
        if let Some((f, _, _)) = a.edges.get(e) {
            let mut wrong = *f;
            wrong[31] ^= 1;
            let mut c = s.clone();
            if c.delete_edge_exact(NodeId(wrong), EdgeId(*e)) {
                flags.push("delete-edge-exact-wrong-bucket-succeeded".into());
            }
            let mut c = s.clone();
            if !c.delete_edge_exact(NodeId(*f), EdgeId(*e)) {
                flags.push("delete-edge-exact-failed".into());
            } else {
                let (a2, _) = abstract_store(&c);
                let mut want = a.clone();
                want.edges.remove(e);
                want.eatt.remove(e);
                if a2 != want || c.has_edge(&EdgeId(*e)) {
                    flags.push("delete-edge-exact-wrong-effect".into());
                }
            }
        } else {
            let mut c = s.clone();
            if c.delete_edge_exact(NodeId([0u8; 32]), EdgeId(*e)) {
                flags.push("delete-edge-exact-missing-succeeded".into());
            }
        }
    }
    let mut node_ids: BTreeSet<[u8; 32]> = a.nodes.keys().copied().collect();
    node_ids.extend(extra_nodes.iter().copied());
    for (_, (f, t, _)) in &a.edges {
        node_ids.insert(*f);
        node_ids.insert(*t);
    }
    for n in &node_ids {
        let mut c = s.clone();
        let got = c.delete_node_isolated(NodeId(*n));
        let want = if !a.nodes.contains_key(n) {
            Err(DeleteNodeError::NodeNotFound)
        } else if a.edges.values().any(|(f, _, _)| f == n) {
            Err(DeleteNodeError::HasOutgoingEdges)
        } else if a.edges.values().any(|(_, t, _)| t == n) {
            Err(DeleteNodeError::HasIncomingEdges)
        } else {
            Ok(())
        };
        if got != want {
            flags.push("delete-node-isolated-disagrees-with-buckets".into());
        } else if got.is_ok() {
            let (a2, _) = abstract_store(&c);
            let mut w = a.clone();
            w.nodes.remove(n);
            w.natt.remove(n);
            if a2 != w {
                flags.push("delete-node-isolated-wrong-effect".into());
            }
        }
    }
    flags
}

fn probe_state(st: &WarpState, u: &Universe) -> Vec<String> {
    let mut flags = Vec::new();
    for w in &u.warps {
        if let Some(s) = st.store(&WarpId(*w)) {
            flags.extend(probe_store(s, &u.nodes, &u.edges));
        }
    }
    flags.sort();
    flags.dedup();
    flags
}

#[derive(Default, Clone)]
struct Universe {
    warps: BTreeSet<[u8; 32]>,
    nodes: BTreeSet<[u8; 32]>,
    edges: BTreeSet<[u8; 32]>,
}

impl Universe {
    fn add_key(&mut self, k: &AttachmentKey) {
        match k.owner {
            AttachmentOwner::Node(n) => {
                self.warps.insert(n.warp_id.0);
                self.nodes.insert(n.local_id.0);
            }
            AttachmentOwner::Edge(e) => {
                self.warps.insert(e.warp_id.0);
                self.edges.insert(e.local_id.0);
            }
        }
    }
    fn add_att(&mut self, v: &Option<AttachmentValue>) {
        if let Some(AttachmentValue::Descend(w)) = v {
            self.warps.insert(w.0);
        }
    }
    fn add_ops(&mut self, ops: &[WarpOp]) {
        for op in ops {
            match op {
                WarpOp::OpenPortal { key, child_warp, child_root, .. } => {
                    self.add_key(key);
                    self.warps.insert(child_warp.0);
                    self.nodes.insert(child_root.0);
                }
                WarpOp::UpsertWarpInstance { instance } => {
                    self.warps.insert(instance.warp_id.0);
                    if let Some(k) = &instance.parent {
                        self.add_key(k);
                    }
                }
                WarpOp::DeleteWarpInstance { warp_id } => {
                    self.warps.insert(warp_id.0);
                }
                WarpOp::UpsertNode { node, .. } | WarpOp::DeleteNode { node } => {
                    self.warps.insert(node.warp_id.0);
                    self.nodes.insert(node.local_id.0);
                }
                WarpOp::UpsertEdge { warp_id, record } => {
                    self.warps.insert(warp_id.0);
                    self.edges.insert(record.id.0);
                    self.nodes.insert(record.from.0);
                    self.nodes.insert(record.to.0);
                }
                WarpOp::DeleteEdge { warp_id, from, edge_id } => {
                    self.warps.insert(warp_id.0);
                    self.edges.insert(edge_id.0);
                    self.nodes.insert(from.0);
                }
                WarpOp::SetAttachment { key, value } => {
                    self.add_key(key);
                    self.add_att(value);
                }
            }
        }
    }
}

/// One instance of a parsed state description.
#[derive(Clone)]
struct DInst {
    w: [u8; 32],
    root: [u8; 32],
    parent: Option<AttachmentKey>,
    nodes: Vec<([u8; 32], [u8; 32])>,
    edges: Vec<([u8; 32], [u8; 32], [u8; 32], [u8; 32])>,
    natt: Vec<([u8; 32], AttachmentValue)>,
    eatt: Vec<([u8; 32], AttachmentValue)>,
}

fn parse_state(s: &str, u: &mut Universe) -> Vec<DInst> {
    let mut out = Vec::new();
    if s == "-" || s.is_empty() {
        return out;
    }
    for inst in s.split('|') {
        let f: Vec<&str> = inst.split('~').collect();
        assert!(f.len() == 7, "instance fields: {inst}");
        let list = |x: &str| -> Vec<Vec<String>> {
            if x == "-" {
                Vec::new()
            } else {
                x.split(',').map(|it| it.split('.').map(str::to_string).collect()).collect()
            }
        };
        let parent = if f[2] == "-" {
            None
        } else {
            let p: Vec<&str> = f[2].split('.').collect();
            Some(parse_key(&p))
        };
        let atts = |x: &str| -> Vec<([u8; 32], AttachmentValue)> {
            list(x)
                .iter()
                .map(|it| {
                    let r: Vec<&str> = it.iter().map(String::as_str).collect();
                    (hex32(r[0]), parse_att(&r[1..]).unwrap())
                })
                .collect()
        };
        let d = DInst {
            w: hex32(f[0]),
            root: hex32(f[1]),
            parent,
            nodes: list(f[3]).iter().map(|it| (hex32(&it[0]), hex32(&it[1]))).collect(),
            edges: list(f[4]).iter().map(|it| (hex32(&it[0]), hex32(&it[1]), hex32(&it[2]), hex32(&it[3]))).collect(),
            natt: atts(f[5]),
            eatt: atts(f[6]),
        };
        u.warps.insert(d.w);
        u.nodes.insert(d.root);
        if let Some(k) = &d.parent {
            u.add_key(k);
        }
        for (n, _) in &d.nodes {
            u.nodes.insert(*n);
        }
        for (e, f2, t, _) in &d.edges {
            u.edges.insert(*e);
            u.nodes.insert(*f2);
            u.nodes.insert(*t);
        }
        for (n, v) in &d.natt {
            u.nodes.insert(*n);
            u.add_att(&Some(v.clone()));
        }
        for (e, v) in &d.eatt {
            u.edges.insert(*e);
            u.add_att(&Some(v.clone()));
        }
        out.push(d);
    }
    out
}

/// Builds a WarpState through the public API: instances through single-op patches (a failing
/// portal validation still leaves the instance in place), content through `store_mut`.
/// The insertion order of nodes/edges is shuffled by `rng` (bucket order must not matter).
fn build_state(desc: &[DInst], rng: &mut Rng) -> WarpState {
    let mut st = WarpState::new();
    for d in desc {
        let _ = apply_ops_to_state(
            &mut st,
            &[WarpOp::UpsertWarpInstance {
                instance: WarpInstance { warp_id: WarpId(d.w), root_node: NodeId(d.root), parent: d.parent },
            }],
        );
    }
    for d in desc {
        let Some(store) = st.store_mut(&WarpId(d.w)) else { panic!("store missing after upsert") };
        let mut nodes = d.nodes.clone();
        rng.shuffle(&mut nodes);
        for (n, ty) in nodes {
            store.insert_node(NodeId(n), NodeRecord { ty: TypeId(ty) });
        }
        let mut edges = d.edges.clone();
        rng.shuffle(&mut edges);
        for (e, f, t, ty) in edges {
            store.insert_edge(NodeId(f), EdgeRecord { id: EdgeId(e), from: NodeId(f), to: NodeId(t), ty: TypeId(ty) });
        }
        for (n, v) in &d.natt {
            store.set_node_attachment(NodeId(*n), Some(v.clone()));
        }
        for (e, v) in &d.eatt {
            store.set_edge_attachment(EdgeId(*e), Some(v.clone()));
        }
    }
    st
}

/// Hashes that the implementation itself computes over a state: per-store canonical hashes and, when the
/// state has a unique parentless root instance, the worldline state root.
fn roots(st: &WarpState, u: &Universe) -> Vec<String> {
    let mut out = Vec::new();
    let mut root: Option<NodeKey> = None;
    let mut nroots = 0;
    for w in &u.warps {
        let wid = WarpId(*w);
        if let Some(s) = st.store(&wid) {
            out.push(format!("{}:{}", hid(w), hex::encode(s.canonical_state_hash())));
        }
        if let Some(i) = st.instance(&wid) {
            if i.parent.is_none() {
                nroots += 1;
                root = Some(NodeKey { warp_id: wid, local_id: i.root_node });
            }
        }
    }
    if nroots == 1 {
        if let Some(r) = root {
            if let Ok(Ok(ws)) = catch(std::panic::AssertUnwindSafe(|| WorldlineState::new(st.clone(), r))) {
                if let Ok(h) = catch(std::panic::AssertUnwindSafe(|| ws.state_root())) {
                    out.push(format!("root:{}", hex::encode(h)));
                }
            }
        }
    }
    out
}

/// Does the portal validation of the implementation accept `st`?  (A patch that re-upserts an
/// unchanged instance changes nothing and forces `validate_portal_invariants`.)
fn portal_invariants_hold(st: &WarpState, u: &Universe) -> bool {
    for w in &u.warps {
        if let Some(i) = st.instance(&WarpId(*w)) {
            let mut c = st.clone();
            return apply_ops_to_state(&mut c, &[WarpOp::UpsertWarpInstance { instance: i.clone() }]).is_ok();
        }
    }
    true
}

/// Referential integrity + owned attachments of every store (read from the dump view).
fn ref_ok(st: &WarpState, u: &Universe) -> bool {
    for w in &u.warps {
        if let Some(s) = st.store(&WarpId(*w)) {
            let (a, _) = abstract_store(s);
            if a.edges.values().any(|(f, t, _)| !a.nodes.contains_key(f) || !a.nodes.contains_key(t)) {
                return false;
            }
            if a.natt.keys().any(|n| !a.nodes.contains_key(n)) || a.eatt.keys().any(|e| !a.edges.contains_key(e)) {
                return false;
            }
        }
    }
    true
}

fn key_exists(st: &WarpState, k: &AttachmentKey) -> bool {
    match k.owner {
        AttachmentOwner::Node(n) => st.store(&n.warp_id).is_some_and(|s| s.node(&n.local_id).is_some()),
        AttachmentOwner::Edge(e) => st.store(&e.warp_id).is_some_and(|s| s.has_edge(&e.local_id)),
    }
}

/// Structural signature of a (before, after, diff) triple whose replay went wrong.
fn classify(a: &WarpState, b: &WarpState, d: &[WarpOp], u: &Universe, fallback: &str) -> String {
    // re-parented edge that still has an attachment afterwards and no SetAttachment for it in the diff
    for w in &u.warps {
        let (Some(sa), Some(sb)) = (a.store(&WarpId(*w)), b.store(&WarpId(*w))) else { continue };
        let (aa, _) = abstract_store(sa);
        let (ab, _) = abstract_store(sb);
        for (e, (fb, _, _)) in &ab.edges {
            if let Some((fa, _, _)) = aa.edges.get(e) {
                if fa != fb && ab.eatt.contains_key(e) {
                    let set = d.iter().any(|op| matches!(op, WarpOp::SetAttachment { key, .. }
                        if matches!(key.owner, AttachmentOwner::Edge(ek) if ek.warp_id.0 == *w && ek.local_id.0 == *e)));
                    if !set {
                        return "reparent-edge-keeps-attachment".into();
                    }
                }
            }
        }
    }
    for op in d {
        if let WarpOp::OpenPortal { key, .. } = op {
            if !key_exists(a, key) {
                return "portal-owner-created-in-same-tick".into();
            }
        }
    }
    for w in &u.warps {
        let (Some(sa), Some(sb)) = (a.store(&WarpId(*w)), b.store(&WarpId(*w))) else { continue };
        let (aa, _) = abstract_store(sa);
        let (ab, _) = abstract_store(sb);
        for (e, (fb, tb, _)) in &ab.edges {
            if let Some((fa, ta, _)) = aa.edges.get(e) {
                if fa == fb && ta != tb && !ab.nodes.contains_key(ta) {
                    return "retarget-edge-off-deleted-node".into();
                }
            }
        }
    }
    fallback.into()
}

/// A program that any rule set could emit for the transition a -> b: delete every edge of the stores that
/// survive, delete the nodes that disappear, upsert every node/edge of b and write every attachment slot of b.
/// When it commits (applies through the patch constructor and yields exactly b) the pair is a committed tick.
fn rebuild_program(a: &WarpState, b: &WarpState, u: &Universe) -> Vec<WarpOp> {
    let mut ops = Vec::new();
    for w in &u.warps {
        let wid = WarpId(*w);
        match (a.instance(&wid), b.instance(&wid)) {
            (Some(_), None) => ops.push(WarpOp::DeleteWarpInstance { warp_id: wid }),
            (_, Some(ib)) => ops.push(WarpOp::UpsertWarpInstance { instance: ib.clone() }),
            _ => {}
        }
        let Some(sb) = b.store(&wid) else { continue };
        let (ab, _) = abstract_store(sb);
        let aa = a.store(&wid).map(|s| abstract_store(s).0).unwrap_or_default();
        for (e, (f, _, _)) in &aa.edges {
            ops.push(WarpOp::DeleteEdge { warp_id: wid, from: NodeId(*f), edge_id: EdgeId(*e) });
        }
        for n in aa.nodes.keys() {
            if !ab.nodes.contains_key(n) {
                ops.push(WarpOp::DeleteNode { node: NodeKey { warp_id: wid, local_id: NodeId(*n) } });
            }
        }
        for (n, ty) in &ab.nodes {
            let node = NodeKey { warp_id: wid, local_id: NodeId(*n) };
            ops.push(WarpOp::UpsertNode { node, record: NodeRecord { ty: TypeId(*ty) } });
            ops.push(WarpOp::SetAttachment { key: AttachmentKey::node_alpha(node), value: ab.natt.get(n).cloned() });
        }
        for (e, (f, t, ty)) in &ab.edges {
            ops.push(WarpOp::UpsertEdge {
                warp_id: wid,
                record: EdgeRecord { id: EdgeId(*e), from: NodeId(*f), to: NodeId(*t), ty: TypeId(*ty) },
            });
            ops.push(WarpOp::SetAttachment {
                key: AttachmentKey::edge_beta(EdgeKey { warp_id: wid, local_id: EdgeId(*e) }),
                value: ab.eatt.get(e).cloned(),
            });
        }
    }
    ops
}

/// Is a -> b a committed tick of the rebuild program?
fn is_committed_tick(a: &WarpState, b: &WarpState, u: &Universe) -> bool {
    let ops = rebuild_program(a, b, u);
    let p = WarpTickPatchV1::new(0, [7u8; 32], TickCommitStatus::Committed, vec![], vec![], ops);
    let mut s = a.clone();
    let mut fl = Vec::new();
    p.apply_to_state(&mut s).is_ok() && dump_state(&s, &u.warps, &mut fl) == dump_state(b, &u.warps, &mut fl)
}

struct Replay {
    diff: Vec<WarpOp>,
    res: String,
    st: String,
    fails: Vec<String>,
}

/// The property's oracle on the implementation alone: `apply(diff(a,b), clone a)` is either a typed
/// error (allowed only when `must_apply` is false) or exactly `b` (dump and implementation hashes).
fn replay_oracle(a: &WarpState, b: &WarpState, u: &Universe, must_apply: bool, wf: bool) -> Replay {
    let mut fails = Vec::new();
    let d = diff_state(a, b);
    // canonical: strictly increasing sort keys, so the patch constructor changes nothing
    if !d.windows(2).all(|w| w[0].sort_key() < w[1].sort_key()) {
        fails.push("diff-not-strictly-sorted".to_string());
    }
    let patch = WarpTickPatchV1::new(0, [7u8; 32], TickCommitStatus::Committed, vec![], vec![], d.clone());
    if patch.ops() != d.as_slice() {
        fails.push("patch-constructor-changed-diff".to_string());
    }
    if patch.validate_digest().is_err() {
        fails.push("patch-digest-invalid".to_string());
    }
    let mut rev = d.clone();
    rev.reverse();
    let patch_rev = WarpTickPatchV1::new(0, [7u8; 32], TickCommitStatus::Committed, vec![], vec![], rev);
    if patch_rev.digest() != patch.digest() {
        fails.push("patch-digest-order-dependent".to_string());
    }
    let mut s = a.clone();
    let r = apply_ops_to_state(&mut s, &d);
    let mut s2 = a.clone();
    let r2 = patch.apply_to_state(&mut s2);
    let mut fl = Vec::new();
    let sd = dump_state(&s, &u.warps, &mut fl);
    let bd = dump_state(b, &u.warps, &mut fl);
    if r != r2 || (r.is_ok() && dump_state(&s2, &u.warps, &mut fl) != sd) {
        fails.push("hook-and-patch-apply-disagree".to_string());
    }
    let (res, st) = match &r {
        Ok(()) => {
            if sd != bd {
                // outside well-formed pairs the code promises nothing (documented precondition of diff_state)
                if wf {
                    fails.push(classify(a, b, &d, u, "third-state"));
                }
            } else if roots(&s, u) != roots(b, u) {
                fails.push("state-root-differs-on-equal-dump".to_string());
            }
            fails.extend(probe_state(&s, u));
            ("ok".to_string(), sd)
        }
        Err(e) => {
            // tick clause: a transition that some program commits must replay from its emitted patch
            if must_apply || (wf && is_committed_tick(a, b, u)) {
                fails.push(classify(a, b, &d, u, "tick-patch-fails-to-apply"));
            }
            (fmt_err(e), "-".to_string())
        }
    };
    fails.extend(fl);
    Replay { diff: d, res, st, fails }
}

fn oracle_str(mut fails: Vec<String>) -> String {
    fails.sort();
    fails.dedup();
    if fails.is_empty() {
        "ok".into()
    } else {
        format!("FAIL:{}", fails.join(","))
    }
}

// ------------------------------------------------------------------------------------------ cases

fn case_pair(m: &BTreeMap<String, String>) -> String {
    let mut u = Universe::default();
    let da = parse_state(&m["a"], &mut u);
    let db = parse_state(&m["b"], &mut u);
    let mut rng = Rng(m.get("seed").and_then(|s| s.parse().ok()).unwrap_or(1));
    let a = build_state(&da, &mut rng);
    let b = build_state(&db, &mut rng);
    let mut fl = Vec::new();
    let mut fails = Vec::new();
    if dump_state(&a, &u.warps, &mut fl) != m["a"] || dump_state(&b, &u.warps, &mut fl) != m["b"] {
        fails.push("BUILD-MISMATCH".to_string());
    }
    fails.extend(probe_state(&a, &u));
    fails.extend(probe_state(&b, &u));
    // a second build with another insertion order must give the same diff
    let a2 = build_state(&da, &mut rng);
    let b2 = build_state(&db, &mut rng);
    let wf_a = ref_ok(&a, &u) && portal_invariants_hold(&a, &u);
    let wf_b = ref_ok(&b, &u) && portal_invariants_hold(&b, &u);
    let r = replay_oracle(&a, &b, &u, false, wf_a && wf_b);
    if diff_state(&a2, &b2) != r.diff {
        fails.push("diff-depends-on-insertion-order".to_string());
    }
    fails.extend(r.fails);
    fails.extend(fl);
    format!(
        "diff={} res={} st={} wf={}{} oracle={}",
        fmt_ops(&r.diff),
        r.res,
        r.st,
        wf_a as u8,
        wf_b as u8,
        oracle_str(fails)
    )
}

fn case_seq(m: &BTreeMap<String, String>) -> String {
    let mut u = Universe::default();
    let da = parse_state(&m["a"], &mut u);
    let ops = parse_ops(&m["ops"]);
    u.add_ops(&ops);
    let canon = m.get("canon").map(String::as_str) == Some("1");
    let mut rng = Rng(m.get("seed").and_then(|s| s.parse().ok()).unwrap_or(1));
    let a = build_state(&da, &mut rng);
    let mut fl = Vec::new();
    let mut fails = Vec::new();
    if dump_state(&a, &u.warps, &mut fl) != m["a"] {
        fails.push("BUILD-MISMATCH".to_string());
    }
    let mut b = a.clone();
    let r = if canon {
        // what a tick does with the ops its rules emitted (apply_reserved_rewrites)
        let p = WarpTickPatchV1::new(0, [7u8; 32], TickCommitStatus::Committed, vec![], vec![], ops.clone());
        p.apply_to_state(&mut b)
    } else {
        apply_ops_to_state(&mut b, &ops)
    };
    let (res, st, wf, diff, rres, rst) = match &r {
        Err(e) => (fmt_err(e), "-".to_string(), "-".to_string(), "-".to_string(), "-".to_string(), "-".to_string()),
        Ok(()) => {
            fails.extend(probe_state(&b, &u));
            let bd = dump_state(&b, &u.warps, &mut fl);
            let wf_a = ref_ok(&a, &u) && portal_invariants_hold(&a, &u);
            let wf_b = ref_ok(&b, &u) && portal_invariants_hold(&b, &u);
            // a successful application is a tick a -> b; its emitted patch is diff(a,b)
            let rp = replay_oracle(&a, &b, &u, wf_a && wf_b, wf_a && wf_b);
            fails.extend(rp.fails);
            ("ok".to_string(), bd, format!("{}{}", wf_a as u8, wf_b as u8), fmt_ops(&rp.diff), rp.res, rp.st)
        }
    };
    fails.extend(fl);
    format!("res={res} st={st} wf={wf} diff={diff} rres={rres} rst={rst} oracle={}", oracle_str(fails))
}

// ------------------------------------------------------------------------------------------ real engine ticks

static SCRIPT: std::sync::Mutex<Vec<WarpOp>> = std::sync::Mutex::new(Vec::new());

fn script_match(_view: warp_core::GraphView<'_>, _scope: &NodeId) -> bool {
    true
}
fn script_exec(_view: warp_core::GraphView<'_>, _scope: &NodeId, delta: &mut warp_core::TickDelta) {
    if let Ok(g) = SCRIPT.lock() {
        for op in g.iter() {
            delta.push(op.clone());
        }
    }
}
fn script_footprint(_view: warp_core::GraphView<'_>, _scope: &NodeId) -> warp_core::Footprint {
    let mut fp = warp_core::Footprint::default();
    if let Ok(g) = SCRIPT.lock() {
        for op in g.iter() {
            match op {
                WarpOp::UpsertNode { node, .. } => fp.n_write.insert(*node),
                WarpOp::DeleteNode { node } => {
                    fp.n_write.insert(*node);
                    fp.a_write.insert(AttachmentKey::node_alpha(*node));
                }
                WarpOp::UpsertEdge { warp_id, record } => {
                    fp.n_write.insert_with_warp(*warp_id, record.from);
                    fp.e_write.insert_with_warp(*warp_id, record.id);
                }
                WarpOp::DeleteEdge { warp_id, from, edge_id } => {
                    fp.n_write.insert_with_warp(*warp_id, *from);
                    fp.e_write.insert_with_warp(*warp_id, *edge_id);
                    fp.a_write.insert(AttachmentKey::edge_beta(EdgeKey { warp_id: *warp_id, local_id: *edge_id }));
                }
                WarpOp::SetAttachment { key, .. } | WarpOp::OpenPortal { key, .. } => fp.a_write.insert(*key),
                _ => {}
            }
        }
    }
    fp.factor_mask = 1;
    fp
}

/// k=tick a=S w=<warp> ops=<ops>[/<ops>...]: one scripted rule emits the ops of each tick inside warp `w`
/// of a real Engine; every committed tick's patch must replay the pre-state to Engine::state(), the
/// replayed state root must be the snapshot's, and jump_to_tick must land on the same state.
fn case_tick(m: &BTreeMap<String, String>) -> String {
    use warp_core::{ConflictPolicy, Engine, PatternGraph, RewriteRule, SchedulerKind};
    let mut u = Universe::default();
    let da = parse_state(&m["a"], &mut u);
    let ticks: Vec<Vec<WarpOp>> = m["ops"].split('/').map(parse_ops).collect();
    for t in &ticks {
        u.add_ops(t);
    }
    let tw = WarpId(hex32(&m["w"]));
    let mut rng = Rng(m.get("seed").and_then(|s| s.parse().ok()).unwrap_or(1));
    let a = build_state(&da, &mut rng);
    let mut fails: Vec<String> = Vec::new();
    let mut fl = Vec::new();
    // unique parentless root instance
    let roots_: Vec<NodeKey> = u
        .warps
        .iter()
        .filter_map(|w| a.instance(&WarpId(*w)).filter(|i| i.parent.is_none()).map(|i| NodeKey { warp_id: WarpId(*w), local_id: i.root_node }))
        .collect();
    if roots_.len() != 1 {
        return "tick res=skip:no-unique-root oracle=ok".into();
    }
    let root = roots_[0];
    // descent chain of the target warp
    let mut chain = Vec::new();
    let mut cur = tw;
    for _ in 0..8 {
        match a.instance(&cur).and_then(|i| i.parent) {
            Some(k) => {
                chain.push(k);
                cur = match k.owner {
                    AttachmentOwner::Node(n) => n.warp_id,
                    AttachmentOwner::Edge(e) => e.warp_id,
                };
            }
            None => break,
        }
    }
    chain.reverse();
    let Ok(mut engine) = Engine::with_state(a.clone(), root, SchedulerKind::Radix, 0) else {
        return "tick res=skip:engine-rejects-state oracle=ok".into();
    };
    let rule = RewriteRule {
        id: [0xC4u8; 32],
        name: "c04-script",
        left: PatternGraph { nodes: vec![] },
        matcher: script_match,
        executor: script_exec,
        compute_footprint: script_footprint,
        factor_mask: 1,
        conflict_policy: ConflictPolicy::Abort,
        join_fn: None,
    };
    if engine.register_rule(rule).is_err() {
        return "tick res=skip:register oracle=ok".into();
    }
    let mut results = Vec::new();
    let mut committed = 0usize;
    for ops in &ticks {
        if let Ok(mut g) = SCRIPT.lock() {
            *g = ops.clone();
        }
        let pre = engine.state().clone();
        let tx = engine.begin();
        let scope = root.local_id;
        let outcome = catch(std::panic::AssertUnwindSafe(|| {
            // (a non-empty descent stack adds cross-warp a_read entries which FootprintGuard::new rejects in
            // debug builds; the scripted rule reads nothing, so the chain is not needed here)
            let _ = &chain;
            match engine.apply_in_warp(tx, tw, "c04-script", &scope, &[]) {
                Ok(warp_core::ApplyResult::Applied) => {}
                other => return Err(format!("apply:{other:?}")),
            }
            engine.commit_with_receipt(tx).map_err(|e| format!("commit:{e:?}"))
        }));
        match outcome {
            Ok(Ok((snapshot, _receipt, patch))) => {
                committed += 1;
                results.push("committed".to_string());
                let post = engine.state().clone();
                let mut replay = pre.clone();
                let r = patch.apply_to_state(&mut replay);
                let pd = dump_state(&post, &u.warps, &mut fl);
                match r {
                    Ok(()) => {
                        if dump_state(&replay, &u.warps, &mut fl) != pd {
                            fails.push(classify(&pre, &post, patch.ops(), &u, "tick-replay-third-state"));
                        } else if let Ok(ws) = WorldlineState::new(replay.clone(), root) {
                            if ws.state_root() != snapshot.state_root {
                                fails.push("replayed-state-root-differs-from-snapshot".into());
                            }
                        }
                    }
                    Err(_) => fails.push(classify(&pre, &post, patch.ops(), &u, "tick-patch-fails-to-apply")),
                }
                if patch.validate_digest().is_err() || patch.digest() != snapshot.patch_digest {
                    fails.push("patch-digest-not-committed".into());
                }
                fails.extend(probe_state(&post, &u));
            }
            Ok(Err(e)) => {
                results.push(format!("rejected:{}", e.split(':').next().unwrap_or("")));
                break;
            }
            Err(p) => {
                results.push(format!("panic:{}", p.chars().take(40).collect::<String>().replace(' ', "_")));
                break;
            }
        }
    }
    // history replay from U0 must land on the committed states
    if committed > 0 && results.iter().all(|r| r == "committed") {
        let end = dump_state(engine.state(), &u.warps, &mut fl);
        match catch(std::panic::AssertUnwindSafe(|| engine.jump_to_tick(committed - 1))) {
            Ok(Ok(())) => {
                if dump_state(engine.state(), &u.warps, &mut fl) != end {
                    fails.push("jump-to-tick-third-state".into());
                }
            }
            _ => fails.push("jump-to-tick-fails".into()),
        }
    }
    fails.extend(fl);
    format!("tick res={} oracle={}", results.join(","), oracle_str(fails))
}

// ------------------------------------------------------------------------------------------ exhaustive universe

/// All well-formed states over {root instance 1 (root node 1), optional child instance 4 hanging off one slot,
/// nodes {1,2}, edge ids {9,a}, attachment in {none, atom x, atom y, descend}}; `ety` edge types.
fn enum_states(ety: &[u8]) -> Vec<String> {
    let id = |x: u8| {
        let mut b = [0u8; 32];
        b[31] = x;
        b
    };
    let atts: Vec<Option<AttachmentValue>> = vec![
        None,
        Some(AttachmentValue::Atom(AtomPayload::new(TypeId(id(5)), Bytes::from(vec![1u8])))),
        Some(AttachmentValue::Atom(AtomPayload::new(TypeId(id(5)), Bytes::from(vec![2u8])))),
        Some(AttachmentValue::Descend(WarpId(id(4)))),
    ];
    let mut out = Vec::new();
    // node options: None = absent, Some(att index)
    let nopts: Vec<Option<usize>> = std::iter::once(None).chain((0..4).map(Some)).collect();
    for n1 in &nopts {
        for n2 in &nopts {
            let present: Vec<u8> = [(1u8, n1), (2u8, n2)].iter().filter(|(_, o)| o.is_some()).map(|(n, _)| *n).collect();
            // edge options
            let mut eopts: Vec<Option<(u8, u8, u8, usize)>> = vec![None];
            for f in &present {
                for t in &present {
                    for ty in ety {
                        for at in 0..4 {
                            eopts.push(Some((*f, *t, *ty, at)));
                        }
                    }
                }
            }
            for e1 in &eopts {
                for e2 in &eopts {
                    let mut desc = Vec::new();
                    if let Some(3) = n1 {
                        desc.push(format!("n.1.1.a"));
                    }
                    if let Some(3) = n2 {
                        desc.push(format!("n.1.2.a"));
                    }
                    if let Some((_, _, _, 3)) = e1 {
                        desc.push(format!("e.1.9.b"));
                    }
                    if let Some((_, _, _, 3)) = e2 {
                        desc.push(format!("e.1.a.b"));
                    }
                    if desc.len() > 1 {
                        continue;
                    }
                    let nodes: Vec<String> = [(1u8, n1), (2u8, n2)].iter().filter(|(_, o)| o.is_some()).map(|(n, _)| format!("{n:x}.7")).collect();
                    let natt: Vec<String> = [(1u8, n1), (2u8, n2)]
                        .iter()
                        .filter_map(|(n, o)| o.and_then(|i| atts[i].as_ref().map(|v| format!("{n:x}.{}", fmt_att(v)))))
                        .collect();
                    let edges: Vec<String> = [(9u8, e1), (10u8, e2)]
                        .iter()
                        .filter_map(|(e, o)| o.map(|(f, t, ty, _)| format!("{e:x}.{f:x}.{t:x}.{ty:x}")))
                        .collect();
                    let eatt: Vec<String> = [(9u8, e1), (10u8, e2)]
                        .iter()
                        .filter_map(|(e, o)| o.and_then(|(_, _, _, i)| atts[i].as_ref().map(|v| format!("{e:x}.{}", fmt_att(v)))))
                        .collect();
                    let j = |v: &Vec<String>| if v.is_empty() { "-".to_string() } else { v.join(",") };
                    let mut st = format!("1~1~-~{}~{}~{}~{}", j(&nodes), j(&edges), j(&natt), j(&eatt));
                    if let Some(k) = desc.first() {
                        st.push_str(&format!("|4~5~{k}~5.6~-~-~-"));
                    }
                    out.push(st);
                }
            }
        }
    }
    out
}

/// k=enum sample=<n|all> seed=<u64> ety=<hex list, default 8>: ordered pairs of the universe through the
/// implementation's own oracle (multi-threaded).
fn case_enum(m: &BTreeMap<String, String>) -> String {
    let ety: Vec<u8> = m.get("ety").map(|s| s.split(',').map(|x| u8::from_str_radix(x, 16).unwrap()).collect()).unwrap_or_else(|| vec![8]);
    let descs = enum_states(&ety);
    let mut u = Universe::default();
    let mut rng = Rng(7);
    let mut states = Vec::new();
    for d in &descs {
        let di = parse_state(d, &mut u);
        states.push(build_state(&di, &mut rng));
    }
    let n = states.len();
    let mut fl = Vec::new();
    let dumps: Vec<String> = states.iter().map(|s| dump_state(s, &u.warps, &mut fl)).collect();
    let wf: Vec<bool> = states.iter().map(|s| ref_ok(s, &u) && portal_invariants_hold(s, &u)).collect();
    let nwf = wf.iter().filter(|x| **x).count();
    let build_bad = dumps.iter().zip(descs.iter()).filter(|(a, b)| a != b).count();
    let sample = m.get("sample").cloned().unwrap_or_else(|| "all".into());
    let seed: u64 = m.get("seed").and_then(|s| s.parse().ok()).unwrap_or(1);
    let nthreads = 16usize;
    let total: u64 = if sample == "all" { (n as u64) * (n as u64) } else { sample.parse().unwrap_or(1000) };
    let results: Vec<(u64, u64, u64, BTreeMap<String, (u64, String)>)> = std::thread::scope(|sc| {
        let hs: Vec<_> = (0..nthreads)
            .map(|t| {
                let (states, dumps, wf, u, sample) = (&states, &dumps, &wf, &u, &sample);
                sc.spawn(move || {
                    let mut ok = 0u64;
                    let mut err = 0u64;
                    let mut pairs = 0u64;
                    let mut fails: BTreeMap<String, (u64, String)> = BTreeMap::new();
                    let mut rng = Rng(seed ^ (t as u64).wrapping_mul(0x9E37_79B9));
                    let mut run = |i: usize, j: usize| {
                        if !(wf[i] && wf[j]) {
                            return;
                        }
                        pairs += 1;
                        let r = replay_oracle(&states[i], &states[j], u, false, true);
                        if r.res == "ok" {
                            ok += 1;
                        } else {
                            err += 1;
                        }
                        for f in r.fails {
                            let e = fails.entry(f).or_insert((0, format!("{}#{}", dumps[i], dumps[j])));
                            e.0 += 1;
                        }
                    };
                    if sample == "all" {
                        let mut i = t;
                        while i < n {
                            for j in 0..n {
                                run(i, j);
                            }
                            i += nthreads;
                        }
                    } else {
                        let k = total / nthreads as u64;
                        for _ in 0..k {
                            let i = rng.below(n);
                            let j = rng.below(n);
                            run(i, j);
                        }
                    }
                    (pairs, ok, err, fails)
                })
            })
            .collect();
        hs.into_iter().map(|h| h.join().unwrap()).collect()
    });
    let (mut pairs, mut ok, mut err) = (0u64, 0u64, 0u64);
    let mut fails: BTreeMap<String, (u64, String)> = BTreeMap::new();
    for (p, o, e, f) in results {
        pairs += p;
        ok += o;
        err += e;
        for (k, (c, ex)) in f {
            let en = fails.entry(k).or_insert((0, ex));
            en.0 += c;
        }
    }
    let fs: Vec<String> = fails.iter().map(|(k, (c, _))| format!("{k}:{c}")).collect();
    let ex: Vec<String> = fails.iter().map(|(k, (_, e))| format!("{k}|{e}")).collect();
    format!(
        "enum states={n} wf={nwf} buildbad={build_bad} pairs={pairs} ok={ok} err={err} fails={} ex={} oracle={}",
        if fs.is_empty() { "-".into() } else { fs.join(",") },
        if ex.is_empty() { "-".into() } else { ex.join(";") },
        if fails.is_empty() && build_bad == 0 { "ok" } else { "FAIL" }
    )
}

fn main() {
    for line in read_cases() {
        let m = kv(&line);
        let out = match m.get("k").map(String::as_str) {
            Some("pair") => case_pair(&m),
            Some("seq") => case_seq(&m),
            Some("tick") => case_tick(&m),
            Some("enum") => case_enum(&m),
            other => format!("unknown-case-kind {:?}", other),
        };
        println!("{out}");
    }
}
