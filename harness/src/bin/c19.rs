//! C19 harness: deterministic math (warp-math scalar/trig/fixed/prng/vec3/quat/mat4, echo-wasm-abi float helpers).
//!
//! Three kinds of case line (one result line each unless stated):
//!   op=<name> x=<tok,tok,...>          one call of the public API; prints `r=<tok,...> oracle=<ok|FAIL:sig>`
//!                                      f32 values are 8-digit hex bit patterns, i64/u64/i32 are decimal.
//!   stream seed=<u64> n=<count>        fixed pseudo-random input stream through every public function family;
//!                                      prints `stream family=<f> n=<calls> digest=<blake3 of all output bits>` lines
//!                                      followed by `stream oracle=<ok|FAIL:sig,...>`
//!   sweep kind=<full|strat|stride> lows=<hex,hex,...> step=<k> offset=<o> [lo=<i> hi=<i>] threads=<n>
//!                                      every f32 bit pattern (full) or every pattern whose low 20 bits are in `lows`
//!                                      (strat) through the unary functions; prints `sweep family=<f> n=.. digest=..`
//!                                      lines, `sweepfail sig=.. count=.. first=<hex8>` lines, `sweep oracle=..`
//! The binary is built in both cargo profiles; `profile=<debug|release>` is printed first.
use echo_verif_harness::*;
use echo_wasm_abi::codec::{canonicalize_f32, fx_from_f32 as codec_fx_from_f32, fx_from_i64 as codec_fx_from_i64};
use std::collections::BTreeMap;
use std::panic::{catch_unwind, AssertUnwindSafe};
use std::sync::atomic::{AtomicUsize, Ordering};
use std::sync::Mutex;
use warp_math::fixed_q32_32;
use warp_math::scalar::{DFix64, F32Scalar};
use warp_math::{Mat4, Prng, Quat, Scalar, Vec3};

const CANON_NAN: u32 = 0x7fc0_0000;
const ONE: u32 = 0x3f80_0000;

fn fb(x: u32) -> f32 {
    f32::from_bits(x)
}
fn sc(x: u32) -> F32Scalar {
    F32Scalar::new(fb(x))
}
fn bits(s: F32Scalar) -> u32 {
    s.to_f32().to_bits()
}

/// Reference classification on the exponent / mantissa fields (independent of `f32::is_nan` & co).
fn ref_new(b: u32) -> u32 {
    let e = (b >> 23) & 0xff;
    let m = b & 0x7f_ffff;
    if e == 0xff && m != 0 {
        CANON_NAN
    } else if e == 0 {
        0 // +-0 and subnormals
    } else {
        b
    }
}
fn is_canonical(b: u32) -> bool {
    ref_new(b) == b
}
fn finite(b: u32) -> bool {
    (b >> 23) & 0xff != 0xff
}
fn le_one(b: u32) -> bool {
    // |value| <= 1.0 for a finite canonical pattern: magnitude bits <= bits of 1.0
    (b & 0x7fff_ffff) <= ONE
}

/// Reference Q32.32 conversion through exact f64 arithmetic (x * 2^32 is exact in f64).
fn ref_fx_from_f32(b: u32) -> i64 {
    let v = f64::from(fb(b)) * 4_294_967_296.0;
    if v.is_nan() {
        0
    } else {
        v.round_ties_even() as i64
    }
}
/// Reference truncating conversion through integer shifts.
fn ref_codec_fx(b: u32) -> i64 {
    let e = ((b >> 23) & 0xff) as i32;
    let m = (b & 0x7f_ffff) as i128;
    let neg = (b >> 31) != 0;
    if e == 0xff {
        return if m != 0 { 0 } else if neg { i64::MIN } else { i64::MAX };
    }
    let (mant, unb) = if e == 0 { (m, -126) } else { (m | (1 << 23), e - 127) };
    let sh = unb - 23 + 32;
    let mag: i128 = if sh >= 0 {
        if sh > 100 { i128::MAX } else { mant << sh }
    } else if -sh > 100 {
        0
    } else {
        mant >> (-sh)
    };
    let v = if neg { -mag } else { mag };
    v.clamp(i128::from(i64::MIN), i128::from(i64::MAX)) as i64
}
/// Reference raw -> f32: i64 -> f32 conversion is correctly rounded, the scaling by 2^-32 is exact.
fn ref_fx_to_f32(raw: i64) -> u32 {
    let v = (raw as f32) * (1.0_f32 / 4_294_967_296.0);
    let b = v.to_bits();
    if b == 0x8000_0000 { 0 } else { b }
}

fn clamp64(v: i128) -> i64 {
    v.clamp(i128::from(i64::MIN), i128::from(i64::MAX)) as i64
}

// ------------------------------------------------------------------------------------------------ single ops

fn hx(v: &[u32]) -> String {
    v.iter().map(|b| format!("{:08x}", b)).collect::<Vec<_>>().join(",")
}
fn f3(v: Vec3) -> [u32; 3] {
    let a = v.to_array();
    [a[0].to_bits(), a[1].to_bits(), a[2].to_bits()]
}
fn v3(x: &[u32]) -> Vec3 {
    Vec3::new(fb(x[0]), fb(x[1]), fb(x[2]))
}
fn q4(x: &[u32]) -> Quat {
    Quat::from([fb(x[0]), fb(x[1]), fb(x[2]), fb(x[3])])
}
fn m16(x: &[u32]) -> Mat4 {
    let mut a = [0.0_f32; 16];
    for i in 0..16 {
        a[i] = fb(x[i]);
    }
    Mat4::new(a)
}
fn qb(q: Quat) -> Vec<u32> {
    q.to_array().iter().map(|f| f.to_bits()).collect()
}
fn mb(m: Mat4) -> Vec<u32> {
    m.to_array().iter().map(|f| f.to_bits()).collect()
}

fn parse_u32s(toks: &[&str]) -> Vec<u32> {
    toks.iter().map(|t| u32::from_str_radix(t, 16).unwrap_or_else(|_| panic!("bad hex {t}"))).collect()
}
fn parse_i64s(toks: &[&str]) -> Vec<i64> {
    toks.iter().map(|t| t.parse::<i64>().unwrap_or_else(|_| panic!("bad i64 {t}"))).collect()
}

/// Runs one op; returns (result tokens, oracle failures).
fn run_op(op: &str, toks: &[&str]) -> (String, Vec<String>) {
    let mut fails: Vec<String> = Vec::new();
    let mut chk = |ok: bool, sig: &str| {
        if !ok {
            fails.push(sig.to_string());
        }
    };
    let r: String = match op {
        "new" => {
            let x = parse_u32s(toks);
            let a = bits(sc(x[0]));
            let c = canonicalize_f32(fb(x[0])).to_bits();
            chk(is_canonical(a), "new-not-canonical");
            chk(a == ref_new(x[0]), "new-differs-from-field-reference");
            chk(bits(sc(a)) == a, "new-not-idempotent");
            chk(c == a, "codec-canonicalize-differs-from-new");
            chk(bits(F32Scalar::from_f32(fb(x[0]))) == a, "from_f32-differs-from-new");
            hx(&[a, c])
        }
        "add" | "sub" | "mul" | "div" => {
            let x = parse_u32s(toks);
            let (a, b) = (sc(x[0]), sc(x[1]));
            let r = match op {
                "add" => a + b,
                "sub" => a - b,
                "mul" => a * b,
                _ => a / b,
            };
            chk(is_canonical(bits(r)), "arith-result-not-canonical");
            match op {
                "add" => chk(bits(b + a) == bits(r), "add-not-commutative"),
                "mul" => chk(bits(b * a) == bits(r), "mul-not-commutative"),
                "sub" => chk(bits(a + (-b)) == bits(r), "sub-differs-from-add-neg"),
                _ => {}
            }
            hx(&[bits(r)])
        }
        "neg" => {
            let x = parse_u32s(toks);
            let r = -sc(x[0]);
            chk(is_canonical(bits(r)), "neg-result-not-canonical");
            chk(bits(-r) == bits(sc(x[0])), "neg-not-involutive");
            hx(&[bits(r)])
        }
        "sin" | "cos" | "sincos" => {
            let x = parse_u32s(toks);
            let a = sc(x[0]);
            if !finite(bits(a)) {
                // documented debug tripwire (debug_assert) / release clamp to (0, 1)
                let res = catch_unwind(AssertUnwindSafe(|| a.sin_cos()));
                match res {
                    Err(_) => {
                        chk(cfg!(debug_assertions), "trig-nonfinite-panics-in-release");
                        "tripwire".to_string()
                    }
                    Ok((s, c)) => {
                        chk(bits(s) == 0 && bits(c) == ONE, "trig-nonfinite-not-clamped");
                        hx(&[bits(s), bits(c)])
                    }
                }
            } else {
                let (s, c) = a.sin_cos();
                let (s1, c1) = (a.sin(), a.cos());
                let na = -a;
                let (sn, cn) = na.sin_cos();
                chk(bits(s1) == bits(s) && bits(c1) == bits(c), "sin_cos-differs-from-sin-and-cos");
                chk(is_canonical(bits(s)) && is_canonical(bits(c)), "trig-result-not-canonical");
                chk(finite(bits(s)) && finite(bits(c)), "trig-result-not-finite");
                chk(le_one(bits(s)) && le_one(bits(c)), "trig-out-of-range");
                chk(bits(sn) == bits(-s), "sin-not-odd");
                chk(bits(cn) == bits(c), "cos-not-even");
                match op {
                    "sin" => hx(&[bits(s1)]),
                    "cos" => hx(&[bits(c1)]),
                    _ => hx(&[bits(s), bits(c)]),
                }
            }
        }
        "fxfrom" => {
            let x = parse_u32s(toks);
            let r = fixed_q32_32::from_f32(fb(x[0]));
            chk(r == ref_fx_from_f32(x[0]), "fixed-from_f32-differs-from-exact-reference");
            chk(DFix64::from_f32(fb(x[0])).raw() == r, "dfix-from_f32-differs-from-fixed");
            format!("{r}")
        }
        "cfx" => {
            let x = parse_u32s(toks);
            let r = codec_fx_from_f32(fb(x[0]));
            chk(r == ref_codec_fx(x[0]), "codec-fx_from_f32-differs-from-integer-reference");
            format!("{r}")
        }
        "cfxi" => {
            let x = parse_i64s(toks);
            format!("{}", codec_fx_from_i64(x[0]))
        }
        "fxto" => {
            let x = parse_i64s(toks);
            let r = fixed_q32_32::to_f32(x[0]).to_bits();
            chk(is_canonical(r) && finite(r), "fixed-to_f32-not-canonical-finite");
            chk(r == ref_fx_to_f32(x[0]), "fixed-to_f32-differs-from-reference");
            chk(DFix64::from_raw(x[0]).to_f32().to_bits() == r, "dfix-to_f32-differs-from-fixed");
            hx(&[r])
        }
        "dadd" | "dsub" | "dmul" | "ddiv" => {
            let x = parse_i64s(toks);
            let (a, b) = (DFix64::from_raw(x[0]), DFix64::from_raw(x[1]));
            let (ai, bi) = (i128::from(x[0]), i128::from(x[1]));
            let r = match op {
                "dadd" => (a + b).raw(),
                "dsub" => (a - b).raw(),
                "dmul" => (a * b).raw(),
                _ => (a / b).raw(),
            };
            match op {
                "dadd" => chk(r == clamp64(ai + bi), "dfix-add-wraps"),
                "dsub" => chk(r == clamp64(ai - bi), "dfix-sub-wraps"),
                "dmul" => {
                    // nearest: |r*2^32 - a*b| <= 2^31 unless saturated at the correct end
                    let exact = ai * bi;
                    let err = (i128::from(r) << 32) - exact;
                    let sat_ok = (r == i64::MAX && exact > 0) || (r == i64::MIN && exact < 0);
                    chk(err.abs() <= (1 << 31) || sat_ok, "dfix-mul-not-nearest-or-wraps");
                    if err.abs() == (1 << 31) && !sat_ok {
                        chk(r & 1 == 0, "dfix-mul-tie-not-to-even");
                    }
                    chk((b * a).raw() == r, "dfix-mul-not-commutative");
                }
                _ => {
                    if x[1] != 0 {
                        // nearest: |r*b - a*2^32| <= |b|/2 unless saturated at the correct end
                        let num = ai << 32;
                        let err = i128::from(r) * bi - num;
                        let pos = (x[0] < 0) == (x[1] < 0);
                        let sat_ok = (r == i64::MAX && pos) || (r == i64::MIN && !pos);
                        chk(2 * err.abs() <= bi.abs() || sat_ok, "dfix-div-not-nearest-or-wraps");
                        if 2 * err.abs() == bi.abs() && !sat_ok {
                            chk(r & 1 == 0, "dfix-div-tie-not-to-even");
                        }
                    } else {
                        let want = if x[0] == 0 { 0 } else if x[0] < 0 { i64::MIN } else { i64::MAX };
                        chk(r == want, "dfix-div-by-zero-policy");
                    }
                }
            }
            format!("{r}")
        }
        "dneg" => {
            let x = parse_i64s(toks);
            let r = (-DFix64::from_raw(x[0])).raw();
            chk(r == clamp64(-i128::from(x[0])), "dfix-neg-wraps");
            format!("{r}")
        }
        "dsin" | "dcos" => {
            let x = parse_i64s(toks);
            let a = DFix64::from_raw(x[0]);
            let (s, c) = a.sin_cos();
            chk(s.raw() == a.sin().raw() && c.raw() == a.cos().raw(), "dfix-sin_cos-differs-from-sin-and-cos");
            chk(s.raw().abs() <= (1_i64 << 32) && c.raw().abs() <= (1_i64 << 32), "dfix-trig-out-of-range");
            if x[0] != i64::MIN {
                let n = -a;
                chk(n.sin().raw() == (-s).raw(), "dfix-sin-not-odd");
                chk(n.cos().raw() == c.raw(), "dfix-cos-not-even");
            }
            format!("{}", if op == "dsin" { s.raw() } else { c.raw() })
        }
        "prng" | "prngu" => {
            // prng: x = s0,s1,n   prngu: x = seed,n      -> n next_f32 bit patterns
            let x: Vec<u64> = toks.iter().map(|t| t.parse::<u64>().unwrap()).collect();
            let (mut p, n) = if op == "prng" { (Prng::from_seed(x[0], x[1]), x[2]) } else { (Prng::from_seed_u64(x[0]), x[1]) };
            let mut q = p.clone();
            let mut out = Vec::new();
            for _ in 0..n {
                let v = p.next_f32();
                let b = v.to_bits();
                chk(v >= 0.0 && v < 1.0, "prng-next_f32-out-of-unit-interval");
                chk(is_canonical(b), "prng-next_f32-not-canonical");
                chk(q.next_f32().to_bits() == b, "prng-clone-diverges");
                out.push(b);
            }
            hx(&out)
        }
        "prngint" => {
            // x = s0,s1,min,max,n
            let s0: u64 = toks[0].parse().unwrap();
            let s1: u64 = toks[1].parse().unwrap();
            let min: i32 = toks[2].parse().unwrap();
            let max: i32 = toks[3].parse().unwrap();
            let n: usize = toks[4].parse().unwrap();
            let mut p = Prng::from_seed(s0, s1);
            let mut out = Vec::new();
            for _ in 0..n {
                let v = p.next_int(min, max);
                chk(v >= min && v <= max, "prng-next_int-out-of-range");
                out.push(format!("{v}"));
            }
            // state after: observe through one next_f32
            out.push(format!("{:08x}", p.next_f32().to_bits()));
            out.join(",")
        }
        "vadd" | "vsub" | "vcross" => {
            let x = parse_u32s(toks);
            let (a, b) = (v3(&x[0..3]), v3(&x[3..6]));
            let r = match op {
                "vadd" => a.add(&b),
                "vsub" => a.sub(&b),
                _ => a.cross(&b),
            };
            if op == "vadd" {
                chk(f3(a + b) == f3(r), "vec3-add-operator-differs");
            }
            if op == "vsub" {
                chk(f3(a - b) == f3(r), "vec3-sub-operator-differs");
            }
            hx(&f3(r))
        }
        "vscale" => {
            let x = parse_u32s(toks);
            let a = v3(&x[0..3]);
            let r = a.scale(fb(x[3]));
            chk(f3(a * fb(x[3])) == f3(r), "vec3-mul-operator-differs");
            hx(&f3(r))
        }
        "vdot" => {
            let x = parse_u32s(toks);
            hx(&[v3(&x[0..3]).dot(&v3(&x[3..6])).to_bits()])
        }
        "vlen" => {
            let x = parse_u32s(toks);
            let a = v3(&x[0..3]);
            let l = a.length().to_bits();
            chk(a.length_squared().to_bits() == a.dot(&a).to_bits(), "vec3-length_squared-differs-from-dot");
            chk(finite(l) && l >> 31 == 0, "vec3-length-negative-or-nonfinite");
            hx(&[l])
        }
        "vnorm" => {
            let x = parse_u32s(toks);
            hx(&f3(v3(&x[0..3]).normalize()))
        }
        "qmul" => {
            let x = parse_u32s(toks);
            hx(&qb(q4(&x[0..4]).multiply(&q4(&x[4..8]))))
        }
        "qnorm" => {
            let x = parse_u32s(toks);
            hx(&qb(q4(&x[0..4]).normalize()))
        }
        "qaxis" => {
            let x = parse_u32s(toks);
            let out = qb(Quat::from_axis_angle(v3(&x[0..3]), fb(x[3])));
            // a finite axis and angle describe a rotation: a NaN or infinite component is not a documented sentinel
            if x.iter().all(|b| finite(*b)) {
                chk(out.iter().all(|b| finite(*b)), "quat-from_axis_angle-nan-from-finite-input");
            }
            hx(&out)
        }
        "qmat" => {
            let x = parse_u32s(toks);
            let q = q4(&x[0..4]);
            let m = q.to_mat4();
            chk(mb(Mat4::from_quat(&q)) == mb(m), "mat4-from_quat-differs-from-to_mat4");
            hx(&mb(m))
        }
        "mmul" => {
            let x = parse_u32s(toks);
            let (a, b) = (m16(&x[0..16]), m16(&x[16..32]));
            let r = a.multiply(&b);
            chk(mb(a * b) == mb(r), "mat4-mul-operator-differs");
            hx(&mb(r))
        }
        "mrotx" | "mroty" | "mrotz" => {
            let x = parse_u32s(toks);
            let a = fb(x[0]);
            let m = match op {
                "mrotx" => Mat4::rotation_x(a),
                "mroty" => Mat4::rotation_y(a),
                _ => Mat4::rotation_z(a),
            };
            let out = mb(m);
            chk(out.iter().all(|b| *b != 0x8000_0000), "rotation-matrix-contains-negative-zero");
            chk(out.iter().all(|b| finite(*b) && le_one(*b)), "rotation-matrix-entry-out-of-range");
            hx(&out)
        }
        "meuler" => {
            let x = parse_u32s(toks);
            hx(&mb(Mat4::rotation_from_euler(fb(x[0]), fb(x[1]), fb(x[2]))))
        }
        "maxis" => {
            let x = parse_u32s(toks);
            hx(&mb(Mat4::rotation_axis_angle(v3(&x[0..3]), fb(x[3]))))
        }
        "mpoint" | "mdir" => {
            let x = parse_u32s(toks);
            let m = m16(&x[0..16]);
            let p = v3(&x[16..19]);
            hx(&f3(if op == "mpoint" { m.transform_point(&p) } else { m.transform_direction(&p) }))
        }
        _ => panic!("unknown op {op}"),
    };
    (r, fails)
}

// ------------------------------------------------------------------------------------------------ stream

struct Fam {
    h: blake3::Hasher,
    n: u64,
    last: Vec<u64>,
}
struct Fams(BTreeMap<&'static str, Fam>);
impl Fams {
    fn new() -> Self {
        Fams(BTreeMap::new())
    }
    fn put(&mut self, fam: &'static str, words: &[u32]) {
        let f = self.0.entry(fam).or_insert_with(|| Fam { h: blake3::Hasher::new(), n: 0, last: Vec::new() });
        for w in words {
            f.h.update(&w.to_le_bytes());
        }
        f.n += 1;
        f.last = words.iter().map(|w| u64::from(*w)).collect();
    }
    fn put64(&mut self, fam: &'static str, words: &[i64]) {
        let f = self.0.entry(fam).or_insert_with(|| Fam { h: blake3::Hasher::new(), n: 0, last: Vec::new() });
        for w in words {
            f.h.update(&w.to_le_bytes());
        }
        f.n += 1;
        f.last = words.iter().map(|w| *w as u64).collect();
    }
}

const SPECIAL: [u32; 40] = [
    0x0000_0000, 0x8000_0000, 0x0000_0001, 0x8000_0001, 0x007f_ffff, 0x807f_ffff, 0x0080_0000, 0x8080_0000,
    0x7f7f_ffff, 0xff7f_ffff, 0x7f80_0000, 0xff80_0000, 0x7fc0_0000, 0xffc0_0000, 0x7f80_0001, 0xffff_ffff,
    0x7fa0_dead, 0x3f80_0000, 0xbf80_0000, 0x3f7f_ffff, 0x3f80_0001, 0x4000_0000, 0x3f00_0000, 0x3fc9_0fdb,
    0x4049_0fdb, 0x4096_cbe4, 0x40c9_0fdb, 0x3fc9_0fda, 0x3fc9_0fdc, 0x4049_0fda, 0x4049_0fdc, 0x40c9_0fda,
    0x40c9_0fdc, 0xc0c9_0fdb, 0x4b80_0000, 0x4b7f_ffff, 0x5f00_0000, 0x2f80_0000, 0x3586_37bd, 0x7e96_7699,
];

/// A stratified f32 bit pattern: specials, uniform bits, moderate magnitudes, near multiples of pi/2.
fn gen_bits(r: &mut Rng) -> u32 {
    match r.below(8) {
        0 => SPECIAL[r.below(SPECIAL.len())],
        1 => r.next() as u32,
        2 | 3 => {
            // moderate: exponent in [-20, 20]
            let e = 107 + r.below(41) as u32;
            ((r.next() as u32) & 0x8000_0000) | (e << 23) | ((r.next() as u32) & 0x7f_ffff)
        }
        4 => {
            // near k * pi/2
            let k = r.below(64) as f32;
            let base = (k * core::f32::consts::FRAC_PI_2).to_bits();
            let d = r.below(9) as i64 - 4;
            let b = (i64::from(base) + d).max(0) as u32;
            b | (((r.next() & 1) as u32) << 31)
        }
        5 => {
            // power of two / all-ones mantissa
            let e = r.below(255) as u32;
            let m = if r.next() & 1 == 0 { 0 } else { 0x7f_ffff };
            ((r.next() as u32) & 0x8000_0000) | (e << 23) | m
        }
        6 => {
            // small angles in [0, 8)
            let e = 100 + r.below(30) as u32;
            ((r.next() as u32) & 0x8000_0000) | (e << 23) | ((r.next() as u32) & 0x7f_ffff)
        }
        _ => {
            // large magnitudes
            let e = 150 + r.below(105) as u32;
            ((r.next() as u32) & 0x8000_0000) | (e << 23) | ((r.next() as u32) & 0x7f_ffff)
        }
    }
}
/// finite, |x| in [2^-20, 2^20] or zero: products of a handful stay finite
fn gen_moderate(r: &mut Rng) -> u32 {
    if r.below(16) == 0 {
        return [0u32, ONE, 0xbf80_0000, 0x3f00_0000][r.below(4)];
    }
    let e = 107 + r.below(41) as u32;
    ((r.next() as u32) & 0x8000_0000) | (e << 23) | ((r.next() as u32) & 0x7f_ffff)
}
fn gen_i64(r: &mut Rng) -> i64 {
    match r.below(6) {
        0 => [0, 1, -1, i64::MAX, i64::MIN, i64::MIN + 1, 1 << 32, -(1 << 32), (1 << 32) + 1, 1 << 31, (1 << 31) + 1, 0x7fff_ffff_8000_0000][r.below(12)],
        1 => r.next() as i64,
        2 => (r.next() as i64) >> (r.below(63) as u32),
        3 => ((r.next() % (1 << 40)) as i64) - (1 << 39),
        4 => {
            // exact halves at the Q32.32 rounding boundary
            let q = (r.next() % (1 << 20)) as i64;
            (q << 16) | 0x8000
        }
        _ => (1_i64 << r.below(63)) + (r.below(3) as i64 - 1),
    }
}

fn stream(seed: u64, n: usize) {
    let mut r = Rng(seed);
    let mut f = Fams::new();
    let mut fails: BTreeMap<String, u64> = BTreeMap::new();
    let mut fail = |sig: &str| {
        *fails.entry(sig.to_string()).or_insert(0) += 1;
    };
    for _ in 0..n {
        let (a, b, c) = (gen_bits(&mut r), gen_bits(&mut r), gen_bits(&mut r));
        // scalar arithmetic on arbitrary patterns (canonicalised by `new`)
        let (sa, sb) = (sc(a), sc(b));
        let out = [bits(sa), bits(sa + sb), bits(sa - sb), bits(sa * sb), bits(sa / sb), bits(-sa),
                   bits((sa * sb) + sc(c)), bits((sa + sb) * sc(c)), canonicalize_f32(fb(a)).to_bits()];
        if !out.iter().all(|b| is_canonical(*b)) {
            fail("scalar-result-not-canonical");
        }
        f.put("scalar_arith", &out);
        // trig on finite canonical angles
        if finite(bits(sa)) {
            let (s, c2) = sa.sin_cos();
            let (sn, cn) = (-sa).sin_cos();
            if bits(sn) != bits(-s) { fail("sin-not-odd"); }
            if bits(cn) != bits(c2) { fail("cos-not-even"); }
            if !(le_one(bits(s)) && le_one(bits(c2)) && is_canonical(bits(s)) && is_canonical(bits(c2))) { fail("trig-out-of-range-or-not-canonical"); }
            f.put("scalar_trig", &[bits(s), bits(c2), bits(sa.sin()), bits(sa.cos())]);
        }
        // fixed point
        let (ia, ib) = (gen_i64(&mut r), gen_i64(&mut r));
        let (da, db) = (DFix64::from_raw(ia), DFix64::from_raw(ib));
        f.put64("fixed", &[fixed_q32_32::from_f32(fb(a)), codec_fx_from_f32(fb(a)), codec_fx_from_i64(ia),
                            i64::from(fixed_q32_32::to_f32(ia).to_bits()), DFix64::from_f32(fb(b)).raw(), i64::from(da.to_f32().to_bits())]);
        f.put64("dfix", &[(da + db).raw(), (da - db).raw(), (da * db).raw(), (da / db).raw(), (-da).raw(),
                           da.sin().raw(), da.cos().raw()]);
        // vec3 / mat4 on finite moderate inputs
        let m: Vec<u32> = (0..38).map(|_| gen_moderate(&mut r)).collect();
        let (va, vb) = (v3(&m[0..3]), v3(&m[3..6]));
        let mut o: Vec<u32> = Vec::new();
        o.extend(f3(va.add(&vb))); o.extend(f3(va.sub(&vb))); o.extend(f3(va.scale(fb(m[6])))); o.push(va.dot(&vb).to_bits());
        o.extend(f3(va.cross(&vb))); o.push(va.length().to_bits()); o.push(va.length_squared().to_bits()); o.extend(f3(va.normalize()));
        f.put("vec3_finite", &o);
        let (qa, qc) = (q4(&m[6..10]), q4(&m[10..14]));
        let mut o: Vec<u32> = Vec::new();
        o.extend(qb(qa.multiply(&qc))); o.extend(qb(qa.normalize())); o.extend(qb(Quat::from_axis_angle(va, fb(m[14])))); o.extend(mb(qa.to_mat4()));
        f.put("quat_finite", &o);
        // from_axis_angle is total on every finite axis (squared length may overflow): arbitrary finite magnitudes
        let big: Vec<u32> = (0..3).map(|_| loop { let b = gen_bits(&mut r); if finite(b) { break b; } }).collect();
        let qa2 = catch_unwind(AssertUnwindSafe(|| qb(Quat::from_axis_angle(v3(&big), fb(m[14])))));
        match qa2 {
            Ok(o) => {
                if !o.iter().all(|b| finite(*b)) { fail("quat-from_axis_angle-nan-from-finite-input"); }
                f.put("quat_any_finite_axis", &o);
            }
            Err(_) => { fail("quat-from_axis_angle-nan-from-finite-input"); f.put("quat_any_finite_axis", &[0xdead_beef]); }
        }
        let (ma, mc) = (m16(&m[6..22]), m16(&m[22..38]));
        let mut o: Vec<u32> = Vec::new();
        o.extend(mb(ma.multiply(&mc))); o.extend(f3(ma.transform_point(&va))); o.extend(f3(ma.transform_direction(&vb)));
        o.extend(mb(Mat4::rotation_x(fb(m[0])))); o.extend(mb(Mat4::rotation_y(fb(m[1])))); o.extend(mb(Mat4::rotation_z(fb(m[2]))));
        o.extend(mb(Mat4::rotation_from_euler(fb(m[3]), fb(m[4]), fb(m[5])))); o.extend(mb(Mat4::rotation_axis_angle(vb, fb(m[6]))));
        o.extend(mb(Mat4::translation(fb(m[0]), fb(m[1]), fb(m[2])).multiply(&Mat4::scale(fb(m[3]), fb(m[4]), fb(m[5])))));
        f.put("mat4_finite", &o);
        // vec3 / mat4 (no debug tripwires in these types) on arbitrary patterns incl. inf / NaN payloads
        let (wa, wb) = (v3(&[a, b, c]), v3(&[gen_bits(&mut r), gen_bits(&mut r), gen_bits(&mut r)]));
        let mut o: Vec<u32> = Vec::new();
        o.extend(f3(wa.add(&wb))); o.extend(f3(wa.sub(&wb))); o.extend(f3(wa.scale(fb(m[0])))); o.push(wa.dot(&wb).to_bits());
        o.extend(f3(wa.cross(&wb))); o.push(wa.length().to_bits()); o.extend(f3(wa.normalize()));
        let any_nan_in = [wa, wb].iter().any(|v| v.to_array().iter().any(|x| x.is_nan()));
        if any_nan_in { f.put("vec3_nan_inputs", &o); } else { f.put("vec3_any_non_nan_inputs", &o); }
        // prng
        let mut p = Prng::from_seed(r.next(), if r.below(4) == 0 { 0 } else { r.next() });
        let mut p2 = Prng::from_seed_u64(r.next());
        let (lo, hi) = { let x = r.next() as i32; let y = r.next() as i32; (x.min(y), x.max(y)) };
        let o = [p.next_f32().to_bits(), p.next_f32().to_bits(), p.next_int(lo, hi) as u32, p.next_int(-3, 3) as u32,
                 p.next_int(0, 255) as u32, p.next_int(i32::MIN, i32::MAX) as u32, p2.next_f32().to_bits(), p2.next_int(lo, hi) as u32];
        f.put("prng", &o);
    }
    for (k, v) in f.0.iter() {
        println!("stream family={} n={} digest={} last={}", k, v.n, v.h.finalize().to_hex(),
                 v.last.iter().map(|w| format!("{:x}", w)).collect::<Vec<_>>().join(","));
    }
    if fails.is_empty() {
        println!("stream oracle=ok");
    } else {
        println!("stream oracle=FAIL:{}", fails.keys().cloned().collect::<Vec<_>>().join(","));
    }
}

// ------------------------------------------------------------------------------------------------ sweep

const NCHUNK: usize = 1024;
const SWEEP_FAMS: [&str; 6] = ["new", "neg_arith", "trig", "fixed", "sqrt", "rotation"];

#[derive(Default)]
struct ChunkOut {
    digests: Vec<[u8; 32]>,
    counts: Vec<u64>,
    fails: BTreeMap<&'static str, (u64, u32)>,
}

fn sweep_one(x: u32, hs: &mut [blake3::Hasher], counts: &mut [u64], fails: &mut BTreeMap<&'static str, (u64, u32)>) {
    let mut fail = |sig: &'static str| {
        let e = fails.entry(sig).or_insert((0, x));
        e.0 += 1;
    };
    let put = |h: &mut blake3::Hasher, w: &[u32]| {
        for v in w {
            h.update(&v.to_le_bytes());
        }
    };
    // family 0: construction
    let s = sc(x);
    let n = bits(s);
    let cn = canonicalize_f32(fb(x)).to_bits();
    if n != ref_new(x) { fail("new-differs-from-field-reference"); }
    if cn != n { fail("codec-canonicalize-differs-from-new"); }
    if bits(sc(n)) != n { fail("new-not-idempotent"); }
    put(&mut hs[0], &[n, cn]); counts[0] += 1;
    // family 1: neg and unary-ised arithmetic
    let one = F32Scalar::ONE;
    let three = sc(0x4040_0000);
    let pi = sc(0x4049_0fdb);
    let o = [bits(-s), bits(s + one), bits(s - s), bits(s * pi), bits(s * s), bits(s / three), bits(one / s), bits(s - pi)];
    if !o.iter().all(|b| is_canonical(*b)) { fail("arith-result-not-canonical"); }
    if bits(-(-s)) != n { fail("neg-not-involutive"); }
    put(&mut hs[1], &o); counts[1] += 1;
    // family 2: trig on finite canonical values; the negative twin is handled with its positive pattern
    if finite(n) && (x >> 31) == 0 {
        let (sn, cs) = s.sin_cos();
        let (sm, cm) = (-s).sin_cos();
        if !(is_canonical(bits(sn)) && is_canonical(bits(cs)) && is_canonical(bits(sm)) && is_canonical(bits(cm))) { fail("trig-result-not-canonical"); }
        if !(finite(bits(sn)) && finite(bits(cs))) { fail("trig-result-not-finite"); }
        if !(le_one(bits(sn)) && le_one(bits(cs))) { fail("trig-out-of-range"); }
        if bits(sm) != bits(-sn) { fail("sin-not-odd"); }
        if bits(cm) != bits(cs) { fail("cos-not-even"); }
        if x.wrapping_mul(0x9E37_79B1) >> 27 == 1 && (bits(s.sin()) != bits(sn) || bits(s.cos()) != bits(cs)) { fail("sin_cos-differs-from-sin-and-cos"); }
        put(&mut hs[2], &[bits(sn), bits(cs), bits(sm), bits(cm)]); counts[2] += 1;
    }
    // family 3: fixed-point conversions of the raw pattern
    let fx = fixed_q32_32::from_f32(fb(x));
    let cfx = codec_fx_from_f32(fb(x));
    if fx != ref_fx_from_f32(x) { fail("fixed-from_f32-differs-from-exact-reference"); }
    if cfx != ref_codec_fx(x) { fail("codec-fx_from_f32-differs-from-integer-reference"); }
    let back = fixed_q32_32::to_f32(fx).to_bits();
    if !(is_canonical(back) && finite(back)) { fail("fixed-to_f32-not-canonical-finite"); }
    if back != ref_fx_to_f32(fx) { fail("fixed-to_f32-differs-from-reference"); }
    hs[3].update(&fx.to_le_bytes()); hs[3].update(&cfx.to_le_bytes()); hs[3].update(&back.to_le_bytes()); counts[3] += 1;
    // family 4: det_sqrt_f32 through Vec3::length (sqrt(x*x)) and Vec3::normalize
    let v = Vec3::new(fb(x), 0.0, 0.0);
    let l = v.length().to_bits();
    let sq = fb(x) * fb(x);
    let want = if !sq.is_finite() || sq <= 0.0 { 0 } else { sq.sqrt().to_bits() };
    if l != want { fail("det_sqrt-differs-from-correctly-rounded-sqrt"); }
    // and sqrt of the pattern itself through a vector whose squared length is exactly |x|: (sqrt is applied to x*1)
    put(&mut hs[4], &[l]); put(&mut hs[4], &f3(v.normalize())); counts[4] += 1;
    // family 5: rotation matrices on finite angles (raw f32, not canonicalised by the caller)
    if finite(x) && x.wrapping_mul(0x9E37_79B1) >> 28 == 0 {
        let m = mb(Mat4::rotation_z(fb(x)));
        if !m.iter().all(|b| *b != 0x8000_0000 && finite(*b) && le_one(*b)) { fail("rotation-matrix-entry-not-canonical-or-out-of-range"); }
        put(&mut hs[5], &m); counts[5] += 1;
    }
}

fn sweep(kind: &str, lows: &[u32], step: u64, offset: u64, lo_i: Option<u64>, hi_i: Option<u64>, threads: usize) {
    // index space: full = every u32; stride = offset + i*step; strat = (hi12 << 20) | lows[j]
    let space: u64 = match kind {
        "full" => 1 << 32,
        "stride" => ((1u64 << 32) - offset + step - 1) / step,
        _ => 4096 * lows.len() as u64,
    };
    let base = lo_i.unwrap_or(0).min(space);
    let total = hi_i.unwrap_or(space).min(space).saturating_sub(base);
    let pattern = |i0: u64| -> u32 {
        let i = i0 + base;
        match kind {
            "full" => i as u32,
            "stride" => (offset + i * step) as u32,
            _ => (((i / lows.len() as u64) as u32) << 20) | lows[(i % lows.len() as u64) as usize],
        }
    };
    let next = AtomicUsize::new(0);
    let results: Mutex<Vec<Option<ChunkOut>>> = Mutex::new((0..NCHUNK).map(|_| None).collect());
    let panicked = AtomicUsize::new(0);
    std::thread::scope(|sc| {
        for _ in 0..threads.max(1) {
            sc.spawn(|| loop {
                let c = next.fetch_add(1, Ordering::Relaxed);
                if c >= NCHUNK { break; }
                let lo = total * c as u64 / NCHUNK as u64;
                let hi = total * (c as u64 + 1) / NCHUNK as u64;
                let res = catch_unwind(AssertUnwindSafe(|| {
                    let mut hs: Vec<blake3::Hasher> = SWEEP_FAMS.iter().map(|_| blake3::Hasher::new()).collect();
                    let mut counts = vec![0u64; SWEEP_FAMS.len()];
                    let mut fails = BTreeMap::new();
                    for i in lo..hi {
                        sweep_one(pattern(i), &mut hs, &mut counts, &mut fails);
                    }
                    ChunkOut { digests: hs.iter().map(|h| *h.finalize().as_bytes()).collect(), counts, fails }
                }));
                match res {
                    Ok(o) => results.lock().unwrap()[c] = Some(o),
                    Err(_) => { panicked.fetch_add(1, Ordering::Relaxed); }
                }
            });
        }
    });
    let results = results.into_inner().unwrap();
    let mut fails: BTreeMap<&'static str, (u64, u32)> = BTreeMap::new();
    for (fi, fam) in SWEEP_FAMS.iter().enumerate() {
        let mut h = blake3::Hasher::new();
        let mut n = 0u64;
        for r in results.iter().flatten() {
            h.update(&r.digests[fi]);
            n += r.counts[fi];
        }
        println!("sweep family={} n={} digest={}", fam, n, h.finalize().to_hex());
    }
    for r in results.iter().flatten() {
        for (k, (cnt, first)) in r.fails.iter() {
            let e = fails.entry(k).or_insert((0, *first));
            e.0 += cnt;
        }
    }
    for (k, (cnt, first)) in fails.iter() {
        println!("sweepfail sig={} count={} first={:08x}", k, cnt, first);
    }
    let p = panicked.load(Ordering::Relaxed);
    let mut sigs: Vec<String> = fails.keys().map(|s| s.to_string()).collect();
    if p > 0 { sigs.push(format!("panic-in-{p}-chunks")); }
    println!("sweep patterns={} oracle={}", total, if sigs.is_empty() { "ok".to_string() } else { format!("FAIL:{}", sigs.join(",")) });
}

// ------------------------------------------------------------------------------------------------ main

fn main() {
    std::panic::set_hook(Box::new(|_| {}));
    println!("profile={}", if cfg!(debug_assertions) { "debug" } else { "release" });
    for line in read_cases() {
        let m = kv(&line);
        if line.starts_with("stream") {
            let seed: u64 = m.get("seed").and_then(|s| s.parse().ok()).unwrap_or(1);
            let n: usize = m.get("n").and_then(|s| s.parse().ok()).unwrap_or(1000);
            stream(seed, n);
            continue;
        }
        if line.starts_with("sweep") {
            let kind = m.get("kind").cloned().unwrap_or_else(|| "strat".into());
            let lows: Vec<u32> = m.get("lows").map(|s| s.split(',').filter(|t| !t.is_empty()).map(|t| u32::from_str_radix(t, 16).unwrap() & 0xf_ffff).collect()).unwrap_or_default();
            let threads: usize = m.get("threads").and_then(|s| s.parse().ok()).unwrap_or(16);
            let step: u64 = m.get("step").and_then(|s| s.parse().ok()).unwrap_or(1).max(1);
            let offset: u64 = m.get("offset").and_then(|s| s.parse().ok()).unwrap_or(0);
            let lo_i: Option<u64> = m.get("lo").and_then(|s| s.parse().ok());
            let hi_i: Option<u64> = m.get("hi").and_then(|s| s.parse().ok());
            sweep(&kind, &lows, step, offset, lo_i, hi_i, threads);
            continue;
        }
        let op = m.get("op").cloned().unwrap_or_default();
        let xs = m.get("x").cloned().unwrap_or_default();
        let toks: Vec<&str> = xs.split(',').filter(|t| !t.is_empty()).collect();
        match catch_unwind(AssertUnwindSafe(|| run_op(&op, &toks))) {
            Ok((r, fails)) => {
                println!("r={} oracle={}", r, if fails.is_empty() { "ok".to_string() } else { format!("FAIL:{}", fails.join(",")) });
            }
            Err(_) => println!("r=panic oracle=ok"), // the plug-in decides whether a panic is a documented tripwire
        }
    }
}
