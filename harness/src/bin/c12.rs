//! C12 harness: canonical encodings are bijective.
//!
//! ABI canonical CBOR (echo_wasm_abi::{encode_value, decode_value}):
//!   v=<value>            value direction:  abi enc=<hex|E:n> dec=<value|E:n|-> oracle=<ok|FAIL:..>
//!   b=<hex>              byte direction:   abi dec=<value|E:n> reenc=<same|hex|E:n|-> oracle=..
//!   exh=<n> p=<hex|->    all byte strings p ++ s, |s| = n:  exh rle=<code>x<count>,.. acc=<n> bad=<n> first=<hex,...>
//!   f16tab=1             f16 widening table fingerprint + narrowing round trip on the half crate
//!   fl=<hex64,...>       float primitives on bit patterns: narrow16/narrow32/exact-int via Rust casts
//!   w32=<hex32,...>      f32 -> f64 widening
//!
//! Edict canonical CBOR (echo_edict_canonical), same value syntax without floats/tags:
//!   ev=<value>           edict enc=<hex|E> oracle=..      eb=<hex>   edict dec=<value|E> oracle=..
//! Fixed little-endian records and frames:
//!   rec=<id> b=<hex>     rec <ok reenc=same|hex / err> oracle=..   (ids: see rec_case)
//!
//! value syntax: T F N  i+<hex> i-<hex>  f<16 hex>  t[<hex>] b[<hex>]  a(v,v)  m(k:v,k:v)  g<hex>(v)
use ciborium::value::{Integer, Value};
use echo_verif_harness::*;
use echo_wasm_abi::{decode_value, encode_value, CanonError};
use echo_edict_canonical::{decode_canonical_cbor_v1, encode_canonical_cbor_v1, CanonicalValueV1};
use half::f16;
use warp_core::causal_wal as cw;

// ------------------------------------------------------------------ value text syntax

struct P<'a> {
    s: &'a [u8],
    i: usize,
}

impl<'a> P<'a> {
    fn peek(&self) -> u8 {
        if self.i < self.s.len() {
            self.s[self.i]
        } else {
            0
        }
    }
    fn eat(&mut self, c: u8) {
        assert_eq!(self.peek(), c, "expected {} at {}", c as char, self.i);
        self.i += 1;
    }
    fn hexrun(&mut self) -> &'a str {
        let st = self.i;
        while self.i < self.s.len() && (self.s[self.i] as char).is_ascii_hexdigit() {
            self.i += 1;
        }
        std::str::from_utf8(&self.s[st..self.i]).unwrap()
    }
    fn value(&mut self) -> Value {
        let c = self.peek();
        self.i += 1;
        match c {
            b'T' => Value::Bool(true),
            b'F' => Value::Bool(false),
            b'N' => Value::Null,
            b'i' => {
                let neg = self.peek() == b'-';
                self.i += 1;
                let h = self.hexrun();
                let mag = u128::from_str_radix(h, 16).unwrap() as i128;
                let z = if neg { -mag } else { mag };
                Value::Integer(Integer::try_from(z).expect("integer outside ciborium range"))
            }
            b'f' => {
                let st = self.i;
                self.i += 16;
                let h = std::str::from_utf8(&self.s[st..self.i]).unwrap();
                Value::Float(f64::from_bits(u64::from_str_radix(h, 16).unwrap()))
            }
            b't' | b'b' => {
                self.eat(b'[');
                let h = self.hexrun();
                let bytes = if h.is_empty() { Vec::new() } else { hex::decode(h).unwrap() };
                self.eat(b']');
                if c == b't' {
                    Value::Text(String::from_utf8(bytes).expect("generator must emit valid utf8 text"))
                } else {
                    Value::Bytes(bytes)
                }
            }
            b'a' => {
                self.eat(b'(');
                let mut items = Vec::new();
                if self.peek() != b')' {
                    loop {
                        items.push(self.value());
                        if self.peek() == b',' {
                            self.i += 1;
                        } else {
                            break;
                        }
                    }
                }
                self.eat(b')');
                Value::Array(items)
            }
            b'm' => {
                self.eat(b'(');
                let mut es = Vec::new();
                if self.peek() != b')' {
                    loop {
                        let k = self.value();
                        self.eat(b':');
                        let v = self.value();
                        es.push((k, v));
                        if self.peek() == b',' {
                            self.i += 1;
                        } else {
                            break;
                        }
                    }
                }
                self.eat(b')');
                Value::Map(es)
            }
            b'g' => {
                let h = self.hexrun();
                let t = u64::from_str_radix(h, 16).unwrap();
                self.eat(b'(');
                let v = self.value();
                self.eat(b')');
                Value::Tag(t, Box::new(v))
            }
            _ => panic!("bad value syntax at {}", self.i),
        }
    }
}

fn parse_value(s: &str) -> Value {
    let mut p = P { s: s.as_bytes(), i: 0 };
    let v = p.value();
    assert_eq!(p.i, s.len(), "trailing value text");
    v
}

fn show(v: &Value, out: &mut String) {
    match v {
        Value::Bool(true) => out.push('T'),
        Value::Bool(false) => out.push('F'),
        Value::Null => out.push('N'),
        Value::Integer(n) => {
            let z = i128::from(*n);
            if z >= 0 {
                out.push_str(&format!("i+{:x}", z));
            } else {
                out.push_str(&format!("i-{:x}", -z));
            }
        }
        Value::Float(f) => out.push_str(&format!("f{:016x}", f.to_bits())),
        Value::Text(s) => {
            out.push_str("t[");
            out.push_str(&hex::encode(s.as_bytes()));
            out.push(']');
        }
        Value::Bytes(b) => {
            out.push_str("b[");
            out.push_str(&hex::encode(b));
            out.push(']');
        }
        Value::Array(items) => {
            out.push_str("a(");
            for (i, it) in items.iter().enumerate() {
                if i > 0 {
                    out.push(',');
                }
                show(it, out);
            }
            out.push(')');
        }
        Value::Map(es) => {
            out.push_str("m(");
            for (i, (k, v)) in es.iter().enumerate() {
                if i > 0 {
                    out.push(',');
                }
                show(k, out);
                out.push(':');
                show(v, out);
            }
            out.push(')');
        }
        Value::Tag(t, v) => {
            out.push_str(&format!("g{:x}(", t));
            show(v, out);
            out.push(')');
        }
        _ => out.push('?'),
    }
}

fn shows(v: &Value) -> String {
    let mut s = String::new();
    show(v, &mut s);
    s
}

fn err_code(e: &CanonError) -> u32 {
    match e {
        CanonError::Incomplete => 1,
        CanonError::Trailing => 2,
        CanonError::Tag => 3,
        CanonError::Indefinite => 4,
        CanonError::NonCanonicalInt => 5,
        CanonError::NonCanonicalFloat => 6,
        CanonError::FloatShouldBeInt => 7,
        CanonError::MapKeyOrder => 8,
        CanonError::MapKeyDuplicate => 9,
        CanonError::Decode(s) => {
            if s.starts_with("invalid length info") {
                10
            } else if s.starts_with("integer out of range") {
                11
            } else if s.starts_with("utf8") {
                12
            } else if s.starts_with("simple value not supported") {
                13
            } else {
                14
            }
        }
        CanonError::Encode(_) => 15,
    }
}

// ------------------------------------------------------------------ independent oracle helpers

/// Numeric / structural equality "as values": an integral float equals the integer of the same
/// numeric value, NaN equals NaN, -0.0 equals 0, maps are equal as sets of entries.
fn sem_eq(a: &Value, b: &Value) -> bool {
    fn num(v: &Value) -> Option<(bool, Option<i128>, u64)> {
        // (is_nan, integer value if integral and |x| < 2^127, bits otherwise)
        match v {
            Value::Integer(n) => Some((false, Some(i128::from(*n)), 0)),
            Value::Float(f) => {
                if f.is_nan() {
                    Some((true, None, 0))
                } else if f.is_finite() && f.fract() == 0.0 && f.abs() < 1.7014118346046923e38 {
                    Some((false, Some(*f as i128), 0))
                } else {
                    Some((false, None, f.to_bits()))
                }
            }
            _ => None,
        }
    }
    match (num(a), num(b)) {
        (Some(x), Some(y)) => return x == y,
        (None, None) => {}
        _ => return false,
    }
    match (a, b) {
        (Value::Bool(x), Value::Bool(y)) => x == y,
        (Value::Null, Value::Null) => true,
        (Value::Text(x), Value::Text(y)) => x == y,
        (Value::Bytes(x), Value::Bytes(y)) => x == y,
        (Value::Array(x), Value::Array(y)) => x.len() == y.len() && x.iter().zip(y).all(|(p, q)| sem_eq(p, q)),
        (Value::Map(x), Value::Map(y)) => {
            x.len() == y.len()
                && x.iter().all(|(k, v)| y.iter().filter(|(k2, v2)| sem_eq(k, k2) && sem_eq(v, v2)).count() == 1)
        }
        (Value::Tag(t, x), Value::Tag(u, y)) => t == u && sem_eq(x, y),
        _ => false,
    }
}

fn any(v: &Value, f: &dyn Fn(&Value) -> bool) -> bool {
    if f(v) {
        return true;
    }
    match v {
        Value::Array(x) => x.iter().any(|i| any(i, f)),
        Value::Map(x) => x.iter().any(|(k, w)| any(k, f) || any(w, f)),
        Value::Tag(_, x) => any(x, f),
        _ => false,
    }
}

/// Depth at which the decoder meets the deepest node when the root is at depth 0.
fn vdepth(v: &Value) -> usize {
    match v {
        Value::Array(x) => x.iter().map(|i| 1 + vdepth(i)).max().unwrap_or(0),
        Value::Map(x) => x.iter().map(|(k, w)| 1 + vdepth(k).max(vdepth(w))).max().unwrap_or(0),
        Value::Tag(_, x) => 1 + vdepth(x),
        _ => 0,
    }
}

fn has_tag(v: &Value) -> bool {
    any(v, &|x| matches!(x, Value::Tag(..)))
}
fn has_dup_keys(v: &Value) -> bool {
    any(v, &|x| match x {
        Value::Map(es) => (0..es.len()).any(|i| (0..i).any(|j| sem_eq(&es[i].0, &es[j].0))),
        _ => false,
    })
}
fn has_int_below_i64(v: &Value) -> bool {
    any(v, &|x| matches!(x, Value::Integer(n) if i128::from(*n) < -(1i128 << 63)))
}
fn has_big_integral_float(v: &Value) -> bool {
    // finite integral floats of magnitude >= 2^64 (or < -2^63, which become integers below i64)
    any(v, &|x| matches!(x, Value::Float(f) if f.is_finite() && f.fract() == 0.0
        && (*f >= 18446744073709551616.0 || *f < -9223372036854775808.0)))
}
fn has_noncanon_nan(v: &Value) -> bool {
    any(v, &|x| matches!(x, Value::Float(f) if f.is_nan() && f.to_bits() != 0x7ff8_0000_0000_0000))
}

/// A copy of `v` with the entries of every map reversed (writer determinism must not depend on
/// the order in which map entries were inserted).
fn reversed_maps(v: &Value) -> Value {
    match v {
        Value::Array(x) => Value::Array(x.iter().map(reversed_maps).collect()),
        Value::Map(x) => Value::Map(x.iter().rev().map(|(k, w)| (reversed_maps(k), reversed_maps(w))).collect()),
        Value::Tag(t, x) => Value::Tag(*t, Box::new(reversed_maps(x))),
        o => o.clone(),
    }
}

/// Inputs on which `Vec::with_capacity(declared_len)` could abort or panic are C13's business;
/// they are skipped here so that the harness process survives.  Structural walk: follows heads the
/// way the decoder does (ignoring canonicity) and reports an array/map head whose declared length
/// exceeds LIMIT at a position the decoder can reach.
fn alloc_risky(b: &[u8]) -> bool {
    const LIMIT: u64 = 1 << 16;
    // returns Some(next index) to continue, None to stop (decoder would fail here or input ended)
    fn walk(b: &[u8], i: usize, risky: &mut bool, depth: usize) -> Option<usize> {
        if i >= b.len() || depth > 200 {
            return None;
        }
        let major = b[i] >> 5;
        let info = b[i] & 0x1f;
        let (arg, mut j) = match info {
            0..=23 => (info as u64, i + 1),
            24..=27 => {
                let w = 1usize << (info - 24);
                if b.len() - (i + 1) < w {
                    return None;
                }
                let mut v = 0u64;
                for k in 0..w {
                    v = (v << 8) | b[i + 1 + k] as u64;
                }
                (v, i + 1 + w)
            }
            _ => return None,
        };
        match major {
            0 | 1 | 7 => Some(j),
            2 | 3 => {
                if ((b.len() - j) as u64) < arg {
                    None
                } else {
                    Some(j + arg as usize)
                }
            }
            4 | 5 => {
                if arg > LIMIT {
                    *risky = true;
                    return None;
                }
                let n = if major == 4 { arg } else { arg * 2 };
                for _ in 0..n {
                    j = walk(b, j, risky, depth + 1)?;
                }
                Some(j)
            }
            _ => None,
        }
    }
    let mut risky = false;
    let _ = walk(b, 0, &mut risky, 0);
    risky
}

// ------------------------------------------------------------------ ABI CBOR modes

fn abi_value(vs: &str) -> String {
    let v = parse_value(vs);
    let mut oracle: Vec<String> = Vec::new();
    let enc = encode_value(&v);
    let enc2 = encode_value(&v);
    if enc != enc2 {
        oracle.push("encode-nondeterministic".into());
    }
    let encr = encode_value(&reversed_maps(&v));
    if enc != encr {
        oracle.push("encode-depends-on-map-entry-order".into());
    }
    match &enc {
        Err(e) => {
            if !(has_tag(&v) || has_dup_keys(&v)) {
                oracle.push("encode-rejects-valid-value".into());
            }
            format!("abi enc=E:{} dec=- oracle={}", err_code(e), fin(&oracle))
        }
        Ok(bytes) => {
            if has_tag(&v) || has_dup_keys(&v) {
                oracle.push("encode-accepts-tag-or-duplicate-key".into());
            }
            let dec = decode_value(bytes);
            // documented domain: decode_value rejects nesting deeper than MAX_DECODE_DEPTH
            if vdepth(&v) > echo_wasm_abi::canonical::MAX_DECODE_DEPTH {
                let ds = match &dec {
                    Ok(d) => {
                        oracle.push("decode-accepts-nesting-beyond-max-depth".into());
                        shows(d)
                    }
                    Err(e) => format!("E:{}", err_code(e)),
                };
                return format!("abi enc={} dec={} oracle={}", tohex(bytes), ds, fin(&oracle));
            }
            let ds = match &dec {
                Ok(d) => {
                    if !sem_eq(&v, d) {
                        oracle.push(rt_kind(&v, "rt-value-changed"));
                    }
                    match encode_value(d) {
                        Ok(b2) if &b2 == bytes => {}
                        _ => oracle.push("rt-reencode-differs".into()),
                    }
                    shows(d)
                }
                Err(e) => {
                    oracle.push(rt_kind(&v, "rt-decode-rejects-own-encoding"));
                    format!("E:{}", err_code(e))
                }
            };
            format!("abi enc={} dec={} oracle={}", tohex(bytes), ds, fin(&oracle))
        }
    }
}

fn rt_kind(v: &Value, base: &str) -> String {
    if has_big_integral_float(v) {
        format!("{base}:integral-float-outside-int-range")
    } else if has_int_below_i64(v) {
        format!("{base}:int-below-i64")
    } else {
        format!("{base}:other")
    }
}

fn fin(o: &[String]) -> String {
    if o.is_empty() {
        "ok".into()
    } else {
        format!("FAIL:{}", o.join(","))
    }
}

fn abi_bytes(b: &[u8]) -> String {
    // since /repo 65efcf1 declared lengths are charged against bytes.len() before any allocation,
    // so huge declared lengths are safe to feed (the old guard is kept for reference only)
    let _ = alloc_risky;
    let mut oracle: Vec<String> = Vec::new();
    match decode_value(b) {
        Err(e) => format!("abi dec=E:{} reenc=- oracle=ok", err_code(&e)),
        Ok(v) => {
            let re = match encode_value(&v) {
                Ok(b2) => {
                    if b2 == b {
                        "same".to_string()
                    } else {
                        oracle.push(if has_noncanon_nan(&v) {
                            "accepted-noncanonical:f16-nan-payload".into()
                        } else {
                            "accepted-noncanonical:other".into()
                        });
                        tohex(&b2)
                    }
                }
                Err(e) => {
                    oracle.push("accepted-unencodable".into());
                    format!("E:{}", err_code(&e))
                }
            };
            format!("abi dec={} reenc={} oracle={}", shows(&v), re, fin(&oracle))
        }
    }
}

const FP_MASK: u128 = (1u128 << 61) - 1;
fn mix(a: u64, b: u64) -> u64 {
    ((a as u128 * 1_000_003 + b as u128 + 12345) & FP_MASK) as u64
}
fn fp(v: &Value) -> u64 {
    match v {
        Value::Bool(false) => 11,
        Value::Bool(true) => 12,
        Value::Null => 13,
        Value::Integer(n) => {
            let z = i128::from(*n);
            mix(mix(21, if z < 0 { 1 } else { 0 }), (z.unsigned_abs() & FP_MASK) as u64)
        }
        Value::Float(f) => mix(22, (f.to_bits() as u128 & FP_MASK) as u64),
        Value::Text(s) => mix(s.as_bytes().iter().fold(23, |a, b| mix(a, *b as u64)), s.len() as u64),
        Value::Bytes(s) => mix(s.iter().fold(24, |a, b| mix(a, *b as u64)), s.len() as u64),
        Value::Array(l) => l.iter().fold(25, |a, x| mix(a, fp(x))),
        Value::Map(es) => es.iter().fold(26, |a, (k, w)| mix(mix(a, fp(k)), fp(w))),
        Value::Tag(t, x) => mix(mix(27, (*t as u128 & FP_MASK) as u64), fp(x)),
        _ => 0,
    }
}

const NONCANON_FLAG: u64 = 1 << 62;

fn code_of(b: &[u8]) -> u64 {
    match decode_value(b) {
        Err(e) => err_code(&e) as u64,
        Ok(v) => {
            1000 + fp(&v)
                + match encode_value(&v) {
                    Ok(b2) if b2 == b => 0,
                    _ => NONCANON_FLAG,
                }
        }
    }
}

fn abi_exh(n: usize, prefix: &[u8], want_rle: bool) -> String {
    let total: u64 = 1u64 << (8 * n);
    let mut buf = prefix.to_vec();
    buf.extend(std::iter::repeat(0u8).take(n));
    let pl = prefix.len();
    let mut rle = String::new();
    let (mut cur, mut cnt) = (u64::MAX, 0u64);
    let (mut acc, mut bad) = (0u64, 0u64);
    let mut first: Vec<String> = Vec::new();
    let mut nan_bad = 0u64;
    for i in 0..total {
        for j in 0..n {
            buf[pl + j] = (i >> (8 * (n - 1 - j))) as u8;
        }
        let c = code_of(&buf);
        if c >= 1000 {
            acc += 1;
            if c & NONCANON_FLAG != 0 {
                bad += 1;
                let is_nan = matches!(decode_value(&buf), Ok(ref v) if has_noncanon_nan(v));
                if is_nan {
                    nan_bad += 1;
                }
                if first.len() < 4 || (!is_nan && first.len() < 12) {
                    first.push(hex::encode(&buf));
                }
            }
        }
        if want_rle {
            if c == cur {
                cnt += 1;
            } else {
                if cnt > 0 {
                    rle.push_str(&format!("{}x{},", cur, cnt));
                }
                cur = c;
                cnt = 1;
            }
        }
    }
    if want_rle && cnt > 0 {
        rle.push_str(&format!("{}x{}", cur, cnt));
    }
    format!(
        "exh rle={} total={} acc={} bad={} bad_f16nan={} first={}",
        if want_rle { rle } else { "-".into() },
        total,
        acc,
        bad,
        nan_bad,
        if first.is_empty() { "-".into() } else { first.join(",") }
    )
}

fn f16_table() -> String {
    let mut acc = 7u64;
    let mut bad = 0u32;
    for h in 0..=0xffffu16 {
        let x = f16::from_bits(h);
        let w = x.to_f64();
        acc = mix(acc, (w.to_bits() as u128 & FP_MASK) as u64);
        // narrowing the widened value with the real crate must return the same half
        if !x.is_nan() && f16::from_f64(w).to_bits() != h {
            bad += 1;
        }
    }
    format!("f16tab fp={} narrow_bad={}", acc, bad)
}

fn fl(list: &str) -> String {
    // per f64 bit pattern: n16=<hex4|-> n32=<hex8|-> int=<sign hex|->  (NaN: n16/n32 printed as `nan`)
    let mut out = Vec::new();
    for h in list.split(',') {
        let bits = u64::from_str_radix(h, 16).unwrap();
        let f = f64::from_bits(bits);
        let (n16, n32) = if f.is_nan() {
            ("nan".to_string(), "nan".to_string())
        } else {
            let hh = f16::from_f64(f);
            let a = if hh.to_f64() == f && (f != 0.0 || hh.to_f64().to_bits() == bits) {
                format!("{:04x}", hh.to_bits())
            } else {
                "-".into()
            };
            let s = f as f32;
            let b = if f64::from(s) == f && (f != 0.0 || f64::from(s).to_bits() == bits) {
                format!("{:08x}", s.to_bits())
            } else {
                "-".into()
            };
            (a, b)
        };
        // the integer path of enc_float / is_exact_int, observed through the public encoder:
        // the float is "exactly an integer" iff encode_value emits major type 0 or 1
        let iv = match encode_value(&Value::Float(f)) {
            Ok(e) if !e.is_empty() && (e[0] >> 5) <= 1 => match decode_value(&e) {
                Ok(Value::Integer(n)) => {
                    let i = i128::from(n);
                    if i < 0 {
                        format!("-{:x}", i.unsigned_abs())
                    } else {
                        format!("+{:x}", i)
                    }
                }
                _ => "?".into(),
            },
            _ => "-".into(),
        };
        out.push(format!("{}/{}/{}", n16, n32, iv));
    }
    format!("fl {}", out.join(","))
}

fn w32(list: &str) -> String {
    let mut out = Vec::new();
    for h in list.split(',') {
        let s = u32::from_str_radix(h, 16).unwrap();
        out.push(format!("{:016x}", f64::from(f32::from_bits(s)).to_bits()));
    }
    format!("w32 {}", out.join(","))
}

// ------------------------------------------------------------------ Edict canonical CBOR

fn to_edict(v: &Value) -> Option<CanonicalValueV1> {
    Some(match v {
        Value::Null => CanonicalValueV1::Null,
        Value::Bool(b) => CanonicalValueV1::Bool(*b),
        Value::Integer(n) => CanonicalValueV1::Integer(i128::from(*n)),
        Value::Bytes(b) => CanonicalValueV1::Bytes(b.clone()),
        Value::Text(t) => CanonicalValueV1::Text(t.clone()),
        Value::Array(l) => CanonicalValueV1::Array(l.iter().map(to_edict).collect::<Option<Vec<_>>>()?),
        Value::Map(es) => CanonicalValueV1::Map(
            es.iter().map(|(k, w)| Some((to_edict(k)?, to_edict(w)?))).collect::<Option<Vec<_>>>()?,
        ),
        _ => return None,
    })
}

fn from_edict(v: &CanonicalValueV1) -> Value {
    match v {
        CanonicalValueV1::Null => Value::Null,
        CanonicalValueV1::Bool(b) => Value::Bool(*b),
        CanonicalValueV1::Integer(n) => Value::Integer(Integer::try_from(*n).expect("edict integer in cbor range")),
        CanonicalValueV1::Bytes(b) => Value::Bytes(b.clone()),
        CanonicalValueV1::Text(t) => Value::Text(t.clone()),
        CanonicalValueV1::Array(l) => Value::Array(l.iter().map(from_edict).collect()),
        CanonicalValueV1::Map(es) => Value::Map(es.iter().map(|(k, w)| (from_edict(k), from_edict(w))).collect()),
    }
}

fn edict_value(vs: &str) -> String {
    let v = parse_value(vs);
    let Some(ev) = to_edict(&v) else {
        return "edict enc=E oracle=ok".into(); // floats / tags are outside the Edict value domain
    };
    let mut oracle: Vec<String> = Vec::new();
    let enc = encode_canonical_cbor_v1(&ev);
    if enc != encode_canonical_cbor_v1(&ev) {
        oracle.push("edict-encode-nondeterministic".into());
    }
    if let Some(rv) = to_edict(&reversed_maps(&v)) {
        if encode_canonical_cbor_v1(&rv) != enc {
            oracle.push("edict-encode-depends-on-map-entry-order".into());
        }
    }
    match enc {
        Err(_) => {
            if !has_dup_keys(&v) {
                oracle.push("edict-encode-rejects-valid-value".into());
            }
            format!("edict enc=E oracle={}", fin(&oracle))
        }
        Ok(bytes) => {
            match decode_canonical_cbor_v1(&bytes) {
                Ok(d) => {
                    if !sem_eq(&v, &from_edict(&d)) {
                        oracle.push("edict-rt-value-changed".into());
                    }
                    if encode_canonical_cbor_v1(&d).ok().as_deref() != Some(&bytes[..]) {
                        oracle.push("edict-rt-reencode-differs".into());
                    }
                }
                Err(_) => oracle.push("edict-rt-decode-rejects-own-encoding".into()),
            }
            format!("edict enc={} oracle={}", tohex(&bytes), fin(&oracle))
        }
    }
}

fn edict_bytes(b: &[u8]) -> String {
    match decode_canonical_cbor_v1(b) {
        Err(_) => "edict dec=E oracle=ok".into(),
        Ok(v) => {
            let mut oracle: Vec<String> = Vec::new();
            if encode_canonical_cbor_v1(&v).ok().as_deref() != Some(b) {
                oracle.push("edict-accepted-noncanonical".into());
            }
            format!("edict dec={} oracle={}", shows(&from_edict(&v)), fin(&oracle))
        }
    }
}

// ------------------------------------------------------------------ fixed little-endian records

fn rec_line(name: &str, input: &[u8], re: Option<Vec<u8>>, rt_ok: bool, allow_diff: bool) -> String {
    let mut oracle: Vec<String> = Vec::new();
    if !rt_ok {
        oracle.push(format!("rec-roundtrip:{name}"));
    }
    let r = match re {
        None => "E".to_string(),
        Some(re) => {
            if re == input {
                "same".into()
            } else {
                if !allow_diff {
                    oracle.push(format!("rec-accepted-noncanonical:{name}"));
                }
                tohex(&re)
            }
        }
    };
    format!("rec ok reenc={} oracle={}", r, fin(&oracle))
}

fn rec_case(id: u32, b: &[u8]) -> String {
    macro_rules! plain {
        ($T:ty, $name:expr) => {{
            match <$T>::from_payload_bytes(b) {
                Err(_) => "rec err oracle=ok".to_string(),
                Ok(t) => {
                    let re = t.to_payload_bytes();
                    let rt = <$T>::from_payload_bytes(&re).map(|t2| t2 == t).unwrap_or(false)
                        && t.to_payload_bytes() == re;
                    rec_line($name, b, Some(re), rt, false)
                }
            }
        }};
    }
    match id {
        1 => plain!(cw::SubmissionAcceptanceRecord, "SubmissionAcceptanceRecord"),
        2 => plain!(cw::WalSubmissionEnvelopeRecord, "WalSubmissionEnvelopeRecord"),
        3 => plain!(cw::RetainedMaterialRecord, "RetainedMaterialRecord"),
        4 => plain!(cw::ReadingRefRecord, "ReadingRefRecord"),
        5 => plain!(cw::CheckpointRecord, "CheckpointRecord"),
        6 => plain!(cw::CheckpointPublicationRecord, "CheckpointPublicationRecord"),
        7 => plain!(cw::MaterializationIntentRecord, "MaterializationIntentRecord"),
        8 => plain!(cw::MaterializationObservationRecord, "MaterializationObservationRecord"),
        9 => plain!(cw::StrandDropRecord, "StrandDropRecord"),
        10 => plain!(cw::TopologyBraidEventRecord, "TopologyBraidEventRecord"),
        11 => plain!(cw::BraidShellRetentionRecord, "BraidShellRetentionRecord"),
        12 => plain!(cw::SuffixImportRecord, "SuffixImportRecord"),
        13 => plain!(cw::TickReceiptRecord, "TickReceiptRecord"),
        14 => plain!(cw::StrandForkRecord, "StrandForkRecord"),
        15 => match echo_wasm_abi::unpack_intent_v1(b) {
            Err(_) => "rec err oracle=ok".to_string(),
            Ok((op, vars)) => match echo_wasm_abi::pack_intent_v1(op, vars) {
                Ok(re) => {
                    let rt = echo_wasm_abi::unpack_intent_v1(&re) == Ok((op, vars));
                    rec_line("EintEnvelope", b, Some(re), rt, false)
                }
                // documented: the two reserved op ids are packed only by the dedicated control /
                // import-suffix packers; the generic packer refuses them
                Err(echo_wasm_abi::EnvelopeError::ReservedOpId) if op >= u32::MAX - 1 => {
                    "rec ok reenc=same oracle=ok".to_string()
                }
                Err(_) => rec_line("EintEnvelope", b, None, false, false),
            },
        },
        16 => plain!(cw::WalReceiptCorrelationRecord, "WalReceiptCorrelationRecord"),
        17 => match warp_core::IngressEnvelope::from_retained_bytes(b) {
            Err(_) => "rec err oracle=ok".to_string(),
            Ok(e) => {
                let re = e.to_retained_bytes_v2();
                let rt = warp_core::IngressEnvelope::from_retained_bytes(&re).map(|e2| e2 == e).unwrap_or(false)
                    && e.to_retained_bytes_v2() == re;
                // documented legacy upgrade: a parentless v1 envelope ("EINGR001") is accepted and
                // re-encodes as v2 ("EINGR002"): compare modulo the version byte of the magic
                let mut cmp = b.to_vec();
                if cmp.len() >= 8 && &cmp[..8] == b"EINGR001" {
                    cmp[7] = b'2';
                }
                let line = rec_line("IngressEnvelopeRetained", &cmp, Some(re), rt, false);
                line
            }
        },
        18 => match cw::WalRuntimeStateDeltaRecord::from_payload_bytes(b) {
            Err(_) => "rec err oracle=ok".to_string(),
            Ok(t) => match t.to_payload_bytes() {
                Ok(re) => {
                    let rt = cw::WalRuntimeStateDeltaRecord::from_payload_bytes(&re).map(|t2| t2 == t).unwrap_or(false);
                    rec_line("WalRuntimeStateDeltaRecord", b, Some(re), rt, false)
                }
                Err(_) => rec_line("WalRuntimeStateDeltaRecord", b, None, false, false),
            },
        },
        // frames: round trip and writer determinism only (the property scopes them so; decoders
        // ignore reserved header bytes)
        19 => match warp_core::materialization::decode_frames(b) {
            None => "rec err oracle=ok".to_string(),
            Some(frames) => {
                let re = warp_core::materialization::encode_frames(&frames);
                let rt = warp_core::materialization::decode_frames(&re).as_ref() == Some(&frames)
                    && warp_core::materialization::encode_frames(&frames) == re;
                rec_line("MbusFramesV1", b, Some(re), rt, true)
            }
        },
        20 => match warp_core::materialization::decode_v2_packets(b) {
            Err(_) => "rec err oracle=ok".to_string(),
            Ok(packets) => {
                let mut re = Vec::new();
                let mut ok = true;
                for p in &packets {
                    match warp_core::materialization::encode_v2_packet(&p.header, &p.entries) {
                        Ok(x) => re.extend_from_slice(&x),
                        Err(_) => ok = false,
                    }
                }
                let rt = ok && warp_core::materialization::decode_v2_packets(&re).ok().as_ref() == Some(&packets);
                rec_line("MbusPacketsV2", b, Some(re), rt, true)
            }
        },
        21 => {
            // ELOG: header followed by frames until clean EOF
            let mut cur = std::io::Cursor::new(b);
            match echo_wasm_abi::read_elog_header(&mut cur) {
                Err(_) => "rec err oracle=ok".to_string(),
                Ok(h) => {
                    let mut frames = Vec::new();
                    loop {
                        match echo_wasm_abi::read_elog_frame(&mut cur) {
                            Ok(Some(f)) => frames.push(f),
                            Ok(None) => break,
                            Err(_) => return "rec err oracle=ok".to_string(),
                        }
                    }
                    let mut re = Vec::new();
                    let mut ok = echo_wasm_abi::write_elog_header(&mut re, &h).is_ok();
                    for f in &frames {
                        ok &= echo_wasm_abi::write_elog_frame(&mut re, f).is_ok();
                    }
                    let mut c2 = std::io::Cursor::new(&re[..]);
                    let mut rt = ok && echo_wasm_abi::read_elog_header(&mut c2).ok().as_ref() == Some(&h);
                    for f in &frames {
                        rt &= matches!(echo_wasm_abi::read_elog_frame(&mut c2), Ok(Some(ref g)) if g == f);
                    }
                    // a truncated trailing length prefix (1-3 bytes) is read as a clean end of log
                    rec_line("EintLog", b, Some(re), rt, true)
                }
            }
        }
        // VALUE direction for the retained ingress envelope: the input is a sequence of 177-byte causal-parent
        // records (tag 1/2 + CausalTickReceiptRef) in arbitrary order; the envelope is built through the public
        // constructor, must encode to bytes the decoder accepts and maps back to the same value, and the bytes
        // must not depend on the order in which the parents were supplied
        22 => {
            if b.len() % 177 != 0 {
                return "rec err oracle=ok".to_string();
            }
            let mut parents = Vec::new();
            for rec in b.chunks(177) {
                let mut raw = [0u8; warp_core::CAUSAL_TICK_RECEIPT_REF_LEN];
                raw.copy_from_slice(&rec[1..]);
                let receipt_ref = warp_core::CausalTickReceiptRef::from_canonical_bytes(raw);
                parents.push(match rec[0] {
                    1 => warp_core::IngressCausalParent::TickReceipt { receipt_ref },
                    2 => warp_core::IngressCausalParent::ContractInverseTarget { receipt_ref },
                    _ => return "rec err oracle=ok".to_string(),
                });
            }
            let target = warp_core::IngressTarget::DefaultWriter { worldline_id: warp_core::WorldlineId::from_bytes([7; 32]) };
            let kind = warp_core::make_intent_kind("c12");
            let build = |ps: Vec<warp_core::IngressCausalParent>| {
                std::panic::catch_unwind(|| warp_core::IngressEnvelope::local_intent_with_causal_parents(target.clone(), kind, vec![1, 2, 3], ps)).ok()
            };
            let Some(e) = build(parents.clone()) else { return "rec err oracle=ok".to_string() };
            let enc = e.to_retained_bytes_v2();
            let mut oracle: Vec<String> = Vec::new();
            match warp_core::IngressEnvelope::from_retained_bytes(&enc) {
                Ok(e2) => {
                    if e2 != e || e2.to_retained_bytes_v2() != enc {
                        oracle.push("rec-roundtrip:IngressEnvelopeValue".into());
                    }
                }
                Err(_) => oracle.push("rec-encoder-output-rejected:IngressEnvelopeValue".into()),
            }
            let mut rev = parents.clone();
            rev.reverse();
            if let Some(e3) = build(rev) {
                if e3.to_retained_bytes_v2() != enc || e3.ingress_id() != e.ingress_id() {
                    oracle.push("rec-bytes-depend-on-parent-order:IngressEnvelopeValue".into());
                }
            }
            format!("rec ok reenc=same oracle={}", fin(&oracle))
        }
        // VALUE direction for WalReceiptCorrelationRecord: the input is the child CausalTickReceiptRef followed by parent
        // refs (176 bytes each) in arbitrary order, possibly repeated; the record built from them must encode to bytes the
        // decoder accepts and maps back to the canonical (sorted, deduplicated) value, independent of the supplied order
        23 => {
            const L: usize = warp_core::CAUSAL_TICK_RECEIPT_REF_LEN;
            if b.len() < L || b.len() % L != 0 {
                return "rec err oracle=ok".to_string();
            }
            let refs: Vec<warp_core::CausalTickReceiptRef> = b
                .chunks(L)
                .map(|c| {
                    let mut raw = [0u8; L];
                    raw.copy_from_slice(c);
                    warp_core::CausalTickReceiptRef::from_canonical_bytes(raw)
                })
                .collect();
            let rec = cw::WalReceiptCorrelationRecord { receipt_ref: refs[0], causal_parent_receipts: refs[1..].to_vec() };
            let enc = rec.to_payload_bytes();
            let mut canon = refs[1..].to_vec();
            canon.sort_unstable();
            canon.dedup();
            let mut oracle: Vec<String> = Vec::new();
            match cw::WalReceiptCorrelationRecord::from_payload_bytes(&enc) {
                Ok(d) => {
                    if d.receipt_ref != refs[0] || d.causal_parent_receipts != canon || d.to_payload_bytes() != enc {
                        oracle.push("rec-roundtrip:WalReceiptCorrelationValue".into());
                    }
                }
                Err(_) => oracle.push("rec-encoder-output-rejected:WalReceiptCorrelationValue".into()),
            }
            let mut rev = refs[1..].to_vec();
            rev.reverse();
            if (cw::WalReceiptCorrelationRecord { receipt_ref: refs[0], causal_parent_receipts: rev }).to_payload_bytes() != enc {
                oracle.push("rec-bytes-depend-on-parent-order:WalReceiptCorrelationValue".into());
            }
            format!("rec ok reenc=same oracle={}", fin(&oracle))
        }
        _ => "rec unknown".to_string(),
    }
}

/// A valid WalRuntimeStateDeltaRecord payload built through the public constructors (empty patch,
/// empty receipt), used as a seed for byte-level mutation.
fn gen_state_delta(seed: u64) -> String {
    use warp_core::{
        compute_commit_hash_v2, GlobalTick, HashTriplet, HeadId, ProvenanceEntry, TickCommitStatus, TickReceipt, TxId,
        WarpTickPatchV1, WorldlineId, WorldlineTick, WorldlineTickHeaderV1, WorldlineTickPatchV1, WriterHeadKey,
    };
    let mut rng = Rng(seed);
    let mut h = || {
        let mut x = [0u8; 32];
        for b in x.iter_mut() {
            *b = rng.next() as u8;
        }
        x
    };
    let (w, head, rule_pack, state_root, plan, rewrites, warp) = (h(), h(), h(), h(), h(), h(), h());
    let t = seed % 1000;
    let g = seed % 77 + 1;
    let policy = (seed % 5) as u32;
    let receipt = match TickReceipt::try_from_retained_parts(TxId::from_raw(t + 1), vec![], vec![]) {
        Ok(r) => r,
        Err(_) => return "gen E".into(),
    };
    let pd = WarpTickPatchV1::new(policy, rule_pack, TickCommitStatus::Committed, vec![], vec![], vec![]).digest();
    let patch = WorldlineTickPatchV1 {
        header: WorldlineTickHeaderV1 {
            commit_global_tick: GlobalTick::from_raw(g),
            policy_id: policy,
            rule_pack_id: rule_pack,
            plan_digest: plan,
            decision_digest: receipt.digest(),
            rewrites_digest: rewrites,
        },
        warp_id: warp_core::WarpId(warp),
        ops: vec![],
        in_slots: vec![],
        out_slots: vec![],
        patch_digest: pd,
    };
    let expected = HashTriplet {
        state_root,
        patch_digest: pd,
        commit_hash: compute_commit_hash_v2(&state_root, &[], &pd, policy),
    };
    let wid = WorldlineId::from_bytes(w);
    let entry = ProvenanceEntry::local_commit(
        wid,
        WorldlineTick::from_raw(t),
        GlobalTick::from_raw(g),
        WriterHeadKey { worldline_id: wid, head_id: HeadId::from_bytes(head) },
        vec![],
        expected,
        patch,
        vec![],
        vec![],
    )
    .with_tick_receipt(receipt.clone());
    match cw::WalRuntimeStateDeltaRecord::from_provenance_entry(receipt.digest(), None, entry) {
        Ok(r) => match r.to_payload_bytes() {
            Ok(b) => format!("gen {}", hex::encode(b)),
            Err(_) => "gen E".into(),
        },
        Err(_) => "gen E".into(),
    }
}

fn main() {
    for line in read_cases() {
        let m = kv(&line);
        let res = catch(std::panic::AssertUnwindSafe(|| {
            if let Some(v) = m.get("v") {
                abi_value(v)
            } else if m.get("gen").map(String::as_str) == Some("18") {
                gen_state_delta(m.get("seed").and_then(|x| x.parse().ok()).unwrap_or(1))
            } else if let Some(id) = m.get("rec") {
                rec_case(id.parse().unwrap(), &unhex(m.get("b").map(String::as_str).unwrap_or("-")))
            } else if let Some(v) = m.get("ev") {
                edict_value(v)
            } else if let Some(b) = m.get("eb") {
                edict_bytes(&unhex(b))
            } else if let Some(b) = m.get("b") {
                abi_bytes(&unhex(b))
            } else if let Some(n) = m.get("exh") {
                let p = unhex(m.get("p").map(String::as_str).unwrap_or("-"));
                let want = m.get("rle").map(|s| s == "1").unwrap_or(true);
                abi_exh(n.parse().unwrap(), &p, want)
            } else if m.contains_key("f16tab") {
                f16_table()
            } else if let Some(l) = m.get("fl") {
                fl(l)
            } else if let Some(l) = m.get("w32") {
                w32(l)
            } else {
                "unknown-case".to_string()
            }
        }));
        match res {
            Ok(s) => println!("{s}"),
            Err(p) => println!("panic msg={}", p.replace(' ', "_")),
        }
    }
}
