//! C10 / C11 harness: causal WAL disk-record layer, recovery, filesystem store and trusted host.
//!
//! (c11.rs `include!`s this file: the two properties share one model and one workload builder.)
//!
//! Every case line is `mode=<m> key=value ...`; one canonical output line per case starting with
//! `case=<index>` and ending with `oracle=<ok|FAIL:sig,...>`.  Scratch directories live under
//! `/tmp/<bin>-<pid>-*` and are removed when the case ends.
//!
//! Result notation for one recovery: `ok/<n>/<tail>/<fnv64 of the tx list>` or `err/<class>` where
//! tail = C | N | A<lsn> and the tx list is `txid:commit_digest:first:last:count;...`.
//!
//! C10 modes: store (every byte prefix, store layer), host (every byte prefix, trusted host, faults,
//!            crash-recover-continue), rewrite (kill during the truncation rewrite), bytes.
//! C11 modes: flip (bit flips / zeroed ranges), edit (record delete/dup/swap/transplant at every
//!            layer), api (recover_from_frames_and_commits on edited frame/commit vectors),
//!            meta (ledger / manifest tampering), hostedit (edited host logs reopened by the host).
#![allow(clippy::all)]
use echo_verif_harness::*;
use std::collections::BTreeMap;
use std::fs;
use std::path::{Path, PathBuf};

use echo_registry_api::{
    ArgDef, ContractArtifactVerificationPolicy, ObjectDef, OpDef, OpKind, RegistryInfo,
    RegistryProvider,
};
use warp_core::causal_wal::{
    canonical_segment_path, recover_filesystem_store, recover_from_frames_and_commits,
    recover_wal_segment_bytes, validate_filesystem_manifest, AffectedFrontier,
    AffectedFrontierKind, FilesystemWalFaultPlan, FilesystemWalFaultTarget, FilesystemWalStore,
    Lsn, PayloadCodecId, PayloadSchemaId, RecoveryAccessMode, RecoveryScanReport,
    RecoveryTailPosture, WalAppendAuthority, WalCommittedTransaction, WalDecodeError,
    WalDurabilityMode, WalFrame, WalManifest, WalRecordKind, WalRecoveryError, WalSegmentId,
    WalStoreError, WalStorePort, WalTransactionBuilder, WalTransactionCommit, WalTransactionId,
    WalTransactionKind, WalValidationError,
};
use warp_core::{
    make_head_id, make_intent_kind, make_node_id, make_type_id, ContractMutationHandler,
    ContractPackageIdentity, EngineBuilder, GraphStore, GraphView, Hash, InboxPolicy,
    IngressEnvelope, IngressTarget, IntentOutcome, NodeId, NodeRecord, PatternGraph, PlaybackMode,
    SchedulerKind, TickDelta, TrustedRuntimeHost, TrustedRuntimeHostError, TrustedRuntimeWalConfig,
    TrustedRuntimeWalError, WarpOp, WorldlineId, WorldlineRuntime, WorldlineState, WriterHead,
    WriterHeadKey,
};

// ------------------------------------------------------------------------------------------------
// small helpers

fn digest(label: &str) -> Hash {
    blake3::hash(label.as_bytes()).into()
}

fn fnv64(s: &str) -> u64 {
    let mut h: u64 = 0xcbf29ce484222325;
    for b in s.as_bytes() {
        h ^= *b as u64;
        h = h.wrapping_mul(0x100000001b3);
    }
    h
}

static SCRATCH_N: std::sync::atomic::AtomicU64 = std::sync::atomic::AtomicU64::new(0);
fn scratch(tag: &str) -> PathBuf {
    let exe = std::env::args().next().unwrap_or_default();
    let bin = Path::new(&exe).file_name().and_then(|s| s.to_str()).unwrap_or("c10").to_string();
    let n = SCRATCH_N.fetch_add(1, std::sync::atomic::Ordering::Relaxed);
    let p = PathBuf::from(format!("/tmp/{}-{}-{}-{}", bin, std::process::id(), tag, n));
    let _ = fs::remove_dir_all(&p);
    fs::create_dir_all(&p).expect("scratch dir");
    p
}

fn seg_path(root: &Path) -> PathBuf {
    canonical_segment_path(root, WalSegmentId::from_raw(1))
}
fn ledger_path(root: &Path) -> PathBuf {
    root.join("writer-epochs.ecwal")
}

/// A WAL root holding segment 1 = `seg` and the given ledger / manifest files.
fn make_root(dst: &Path, seg: &[u8], ledger: Option<&[u8]>, manifest: Option<&[u8]>) {
    let _ = fs::remove_dir_all(dst);
    fs::create_dir_all(dst.join("segments")).expect("mkdir");
    fs::write(seg_path(dst), seg).expect("write seg");
    if let Some(l) = ledger {
        fs::write(ledger_path(dst), l).expect("write ledger");
    }
    if let Some(m) = manifest {
        fs::write(dst.join("manifest.ecwal"), m).expect("write manifest");
    }
}

fn first_word(s: String) -> String {
    s.split(|c: char| !c.is_alphanumeric()).next().unwrap_or("").to_string()
}

fn val_class(e: &WalValidationError) -> &'static str {
    use WalValidationError::*;
    match e {
        RecordKindMismatch => "val.kind",
        PayloadDigestMismatch => "val.payload_digest",
        HeaderChecksumMismatch => "val.header_checksum",
        FrameChecksumMismatch => "val.frame_checksum",
        EmptyTransaction => "val.empty",
        TransactionIdMismatch => "val.txid",
        WriterEpochMismatch => "val.epoch",
        TransactionLocalIndexMismatch => "val.local_index",
        LsnContinuityMismatch => "val.lsn",
        FirstLsnMismatch => "val.first_lsn",
        LastLsnMismatch => "val.last_lsn",
        RecordCountMismatch => "val.count",
        RecordsRootMismatch => "val.root",
        AffectedFrontiersRootMismatch => "val.frontiers_root",
        CommitDigestMismatch => "val.commit_digest",
        _ => "val.other",
    }
}
fn store_class(e: &WalStoreError) -> String {
    match e {
        WalStoreError::SegmentRecordDigestMismatch => "store.digest".into(),
        WalStoreError::UnknownDiskRecordKind(_) => "store.unknown_kind".into(),
        WalStoreError::Decode(d) => match d {
            WalDecodeError::UnexpectedEof => "decode.eof".into(),
            WalDecodeError::TrailingBytes => "decode.trailing".into(),
            WalDecodeError::UnknownEnumCode { .. } => "decode.enum".into(),
            WalDecodeError::InvalidEmbeddedFrame => "decode.embedded".into(),
            _ => "decode.other".into(),
        },
        WalStoreError::SegmentMismatch { .. } => "store.segment_mismatch".into(),
        WalStoreError::Validation(v) => val_class(v).into(),
        WalStoreError::MissingWriterEpochLedger => "store.ledger_missing".into(),
        WalStoreError::WriterEpochLedgerDigestMismatch => "store.ledger_digest".into(),
        WalStoreError::UnknownPreviousWriterEpoch => "store.unknown_epoch".into(),
        WalStoreError::WriterEpochChainGap => "store.epoch_chain".into(),
        WalStoreError::WriterEpochFinalCommitDigestMismatch => "store.epoch_final_digest".into(),
        WalStoreError::WriterEpochLsnRegression => "store.epoch_lsn".into(),
        WalStoreError::WriterEpochFencingMismatch => "store.epoch_fencing".into(),
        WalStoreError::Io(_) => "store.io".into(),
        other => format!("store.{}", first_word(format!("{other:?}"))),
    }
}
fn rec_class(e: &WalRecoveryError) -> String {
    match e {
        WalRecoveryError::Validation(v) => val_class(v).into(),
        WalRecoveryError::Store(s) => store_class(s),
        WalRecoveryError::Index(_) => "index".into(),
    }
}

fn tail_str(t: RecoveryTailPosture) -> String {
    match t {
        RecoveryTailPosture::Clean => "C".into(),
        RecoveryTailPosture::TruncatedAll | RecoveryTailPosture::WouldTruncateAll => "N".into(),
        RecoveryTailPosture::TruncatedAfter(l) | RecoveryTailPosture::WouldTruncateAfter(l) => {
            format!("A{}", l.as_u64())
        }
    }
}

fn tx_string(c: &WalTransactionCommit, nframes: usize) -> String {
    format!(
        "{}:{}:{}:{}:{}",
        hex::encode(c.transaction_id.as_hash()),
        hex::encode(c.commit_digest),
        c.first_lsn.as_u64(),
        c.last_lsn.as_u64(),
        nframes
    )
}
fn report_txs(r: &RecoveryScanReport) -> Vec<String> {
    r.transactions.iter().map(|t| tx_string(&t.commit, t.frames.len())).collect()
}
fn report_res(r: &Result<RecoveryScanReport, WalRecoveryError>) -> String {
    match r {
        Ok(rep) => {
            let txs = report_txs(rep);
            format!("ok/{}/{}/{:016x}", txs.len(), tail_str(rep.tail_posture), fnv64(&txs.join(";")))
        }
        Err(e) => format!("err/{}", rec_class(e)),
    }
}
fn bytes_res(seg: &[u8]) -> (String, Option<Vec<String>>) {
    let r = recover_wal_segment_bytes(WalSegmentId::from_raw(1), seg, RecoveryAccessMode::ReadOnly).map(|r| r.report);
    (report_res(&r), r.ok().map(|rep| report_txs(&rep)))
}

fn rle(v: &[String]) -> String {
    let mut out = Vec::new();
    let mut i = 0;
    while i < v.len() {
        let mut j = i;
        while j + 1 < v.len() && v[j + 1] == v[i] {
            j += 1;
        }
        out.push(format!("{}-{}={}", i, j, v[i]));
        i = j + 1;
    }
    if out.is_empty() {
        "-".into()
    } else {
        out.join(",")
    }
}

fn is_prefix(got: &[String], full: &[String]) -> bool {
    got.len() <= full.len() && got[..] == full[..got.len()]
}

/// Offsets (exclusive ends) of the well-formed disk records of a segment, parsed independently
/// of warp-core (framing only: magic(8) kind(1) len(8 LE) payload digest(32)).
fn record_ends(seg: &[u8]) -> Vec<(usize, u8)> {
    let mut v = Vec::new();
    let mut o = 0usize;
    while o + 17 <= seg.len() {
        let kind = seg[o + 8];
        let mut l = [0u8; 8];
        l.copy_from_slice(&seg[o + 9..o + 17]);
        let n = u64::from_le_bytes(l) as usize;
        let Some(end) = o.checked_add(17).and_then(|x| x.checked_add(n)).and_then(|x| x.checked_add(32)) else { break };
        if end > seg.len() {
            break;
        }
        v.push((end, kind));
        o = end;
    }
    v
}
fn ends_str(ends: &[(usize, u8)]) -> String {
    if ends.is_empty() {
        "-".into()
    } else {
        ends.iter().map(|(e, k)| format!("{e}:{k}")).collect::<Vec<_>>().join(",")
    }
}
fn uniq(mut fails: Vec<String>) -> String {
    // the LSN hole left by an idle writer epoch makes every later recovery fail with
    // LsnContinuityMismatch: report the root cause once, not each of its symptoms
    if fails.iter().any(|f| f.starts_with("wal:idle-writer-epoch-skips-lsn")) {
        fails.retain(|f| f.starts_with("wal:idle-writer-epoch-skips-lsn") || !f.contains("val.lsn"));
    }
    fails.sort();
    fails.dedup_by_key(|f| f.split('[').next().unwrap_or("").to_string());
    if fails.is_empty() {
        "ok".into()
    } else {
        format!("FAIL:{}", fails.join(",").replace(' ', "_"))
    }
}
fn list_usize(m: &BTreeMap<String, String>, k: &str, d: &[usize]) -> Vec<usize> {
    m.get(k).map(|s| s.split(',').filter_map(|x| x.parse().ok()).collect()).unwrap_or_else(|| d.to_vec())
}

/// First LSN owned by the active writer epoch recorded in a ledger file (None if no active epoch).

// ------------------------------------------------------------------------------------------------
// store-level workload: real FilesystemWalStore + real transaction builders

#[derive(Clone)]
struct Cursor {
    next_lsn: u64,
    prev_frame: Hash,
    prev_commit: Hash,
}

struct StoreRun {
    root: PathBuf,
    store: FilesystemWalStore,
    epoch: warp_core::causal_wal::WriterEpochId,
    cur: Cursor,
    /// after every operation: (segment length, ledger bytes, number of acknowledged transactions)
    snaps: Vec<(usize, Vec<u8>, usize)>,
    acked: Vec<String>,
    /// the fresh epoch starts beyond the next free LSN (recovered next, epoch start)
    epoch_skip: Option<(u64, u64)>,
}

fn kinds_for(txk: u8) -> (WalTransactionKind, WalAppendAuthority, Vec<WalRecordKind>, Vec<AffectedFrontierKind>) {
    match txk % 3 {
        0 => (
            WalTransactionKind::SubmissionIntake,
            WalAppendAuthority::SubmissionIntake,
            vec![
                WalRecordKind::SubmissionAcceptedRecorded,
                WalRecordKind::SubmissionAcceptanceEvidenceRecorded,
                WalRecordKind::SubmissionEnvelopeRetained,
            ],
            vec![AffectedFrontierKind::SubmissionQueue],
        ),
        1 => (
            WalTransactionKind::SchedulerTick,
            WalAppendAuthority::TrustedScheduler,
            vec![
                WalRecordKind::TickReceiptRecorded,
                WalRecordKind::RuntimeStateDeltaRecorded,
                WalRecordKind::ReceiptCorrelationRecorded,
            ],
            vec![AffectedFrontierKind::ReceiptIndex, AffectedFrontierKind::RuntimeState],
        ),
        _ => (
            WalTransactionKind::TopologyIntent,
            WalAppendAuthority::TrustedScheduler,
            vec![
                WalRecordKind::TopologyStrandForkRecorded,
                WalRecordKind::TopologyStrandDropRecorded,
                WalRecordKind::TopologyBraidEventRecorded,
            ],
            vec![AffectedFrontierKind::TopologyIndex],
        ),
    }
}

impl StoreRun {
    fn open(root: PathBuf) -> Result<Self, String> {
        let mut store = FilesystemWalStore::open(&root, WalSegmentId::from_raw(1)).map_err(|e| store_class(&e))?;
        let report = recover_filesystem_store(&root, RecoveryAccessMode::Writable).map_err(|e| rec_class(&e))?;
        let mut cur = Cursor { next_lsn: 0, prev_frame: digest("prev-frame:genesis"), prev_commit: digest("prev-commit:genesis") };
        let mut acked = Vec::new();
        for t in &report.transactions {
            cur.next_lsn = t.commit.last_lsn.as_u64() + 1;
            cur.prev_commit = t.commit.commit_digest;
            if let Some(f) = t.frames.last() {
                cur.prev_frame = f.digest();
            }
            acked.push(tx_string(&t.commit, t.frames.len()));
        }
        let ep = store.acquire_fresh_writer_epoch(Lsn::from_raw(cur.next_lsn)).map_err(|e| store_class(&e))?;
        // the store does not tie frame LSNs to the epoch start: with committed history this writer keeps
        // appending at the first free LSN (what the host does with the same information is checked in
        // mode=host)
        let epoch_skip = None;
        if report.transactions.is_empty() {
            cur.next_lsn = ep.started_at_lsn.as_u64();
        }
        let mut s = StoreRun { root, store, epoch: ep.epoch_id, cur, snaps: Vec::new(), acked, epoch_skip };
        s.snap();
        Ok(s)
    }
    fn snap(&mut self) {
        let seg = fs::read(seg_path(&self.root)).unwrap_or_default();
        let led = fs::read(ledger_path(&self.root)).unwrap_or_default();
        self.snaps.push((seg.len(), led, self.acked.len()));
    }
    fn build(&self, label: &str, txk: u8, nframes: usize, pay: &[usize], rng: &mut Rng) -> WalCommittedTransaction {
        let (kind, auth, rks, fks) = kinds_for(txk);
        let mut b = WalTransactionBuilder::new(
            self.epoch,
            WalSegmentId::from_raw(1),
            WalTransactionId::from_hash(digest(&format!("tx:{label}"))),
            kind,
            auth,
            Lsn::from_raw(self.cur.next_lsn),
            self.cur.prev_frame,
            self.cur.prev_commit,
            WalDurabilityMode::StrictFilesystem,
            PayloadCodecId::from_hash(digest("codec")),
            PayloadSchemaId::from_hash(digest("schema")),
            1,
            1,
            digest("domain"),
        );
        for i in 0..nframes.max(1) {
            let n = pay[i % pay.len()];
            let bytes: Vec<u8> = (0..n).map(|_| rng.next() as u8).collect();
            b.push_record(rks[i % rks.len()], bytes).expect("push_record");
        }
        let fr: Vec<AffectedFrontier> = fks
            .iter()
            .map(|k| AffectedFrontier { kind: *k, before_digest: digest(&format!("{label}:before")), after_digest: digest(&format!("{label}:after")) })
            .collect();
        b.commit(fr).expect("commit")
    }
    fn append(&mut self, tx: WalCommittedTransaction) -> Result<(), WalStoreError> {
        let commit = tx.commit.clone();
        let nframes = tx.frames.len();
        let last = tx.frames.last().map(WalFrame::digest);
        let r = self.store.append_transaction(tx);
        if r.is_ok() {
            self.cur.next_lsn = commit.last_lsn.as_u64() + 1;
            self.cur.prev_commit = commit.commit_digest;
            if let Some(d) = last {
                self.cur.prev_frame = d;
            }
            self.acked.push(tx_string(&commit, nframes));
        }
        self.snap();
        r
    }
}

struct StoreLog {
    seg: Vec<u8>,
    ledger: Vec<u8>,
    snaps: Vec<(usize, Vec<u8>, usize)>,
    txs: Vec<String>,
    txv: Vec<WalCommittedTransaction>,
}

/// shape = frames per transaction, pay = payload sizes cycled over frames, reopen_at = transaction
/// indices before which the writer is closed and reopened (a fresh writer epoch).
fn build_store_log(seed: u64, shape: &[usize], pay: &[usize], reopen_at: &[usize]) -> Result<StoreLog, String> {
    let root = scratch("store");
    let mut rng = Rng(seed);
    let mut run = StoreRun::open(root.clone())?;
    let mut txv = Vec::new();
    let mut all_snaps: Vec<(usize, Vec<u8>, usize)> = Vec::new();
    for (i, nf) in shape.iter().enumerate() {
        if reopen_at.contains(&i) {
            all_snaps.extend(run.snaps.drain(..));
            drop(run);
            run = StoreRun::open(root.clone())?;
            if let Some((a, b)) = run.epoch_skip {
                return Err(format!("epoch-skip:{a}->{b}"));
            }
        }
        let tx = run.build(&format!("{seed}:{i}"), (seed as u8).wrapping_add(i as u8), *nf, pay, &mut rng);
        txv.push(tx.clone());
        run.append(tx).map_err(|e| format!("append:{}", store_class(&e)))?;
    }
    all_snaps.extend(run.snaps.drain(..));
    let seg = fs::read(seg_path(&root)).map_err(|e| e.to_string())?;
    let ledger = fs::read(ledger_path(&root)).map_err(|e| e.to_string())?;
    let txs = run.acked.clone();
    drop(run);
    let _ = fs::remove_dir_all(&root);
    Ok(StoreLog { seg, ledger, snaps: all_snaps, txs, txv })
}
fn store_log_from(m: &BTreeMap<String, String>) -> Result<StoreLog, String> {
    let seed: u64 = m.get("seed").and_then(|s| s.parse().ok()).unwrap_or(1);
    build_store_log(seed, &list_usize(m, "shape", &[1, 2]), &list_usize(m, "pay", &[4]), &list_usize(m, "reopen", &[]))
}

/// Ledger versions that can coexist with a segment of length k: the ledger is rewritten (atomically)
/// only after the commit marker has been written and synced, so the durable ledger is the one of
/// the last operation that ended at or before k, or - exactly at an operation end - its predecessor.
fn ledgers_for(snaps: &[(usize, Vec<u8>, usize)], k: usize) -> Vec<Vec<u8>> {
    let mut j = 0;
    for (i, s) in snaps.iter().enumerate() {
        if s.0 <= k {
            j = i;
        }
    }
    let mut out = vec![snaps[j].1.clone()];
    if j > 0 && snaps[j].0 == k && snaps[j - 1].1 != snaps[j].1 && snaps[j - 1].0 < k {
        out.push(snaps[j - 1].1.clone());
    }
    out
}

fn run_store(m: &BTreeMap<String, String>) -> String {
    let seed: u64 = m.get("seed").and_then(|s| s.parse().ok()).unwrap_or(1);
    let fsmode = m.get("fs").map(String::as_str).unwrap_or("all");
    let log = match store_log_from(m) {
        Ok(l) => l,
        Err(e) if e.starts_with("epoch-skip") => return format!("oracle=FAIL:wal:idle-writer-epoch-skips-lsn[{e}]"),
        Err(e) => return format!("oracle=FAIL:wal:workload-build-failed[{e}]"),
    };
    let seg = &log.seg;
    let ends = record_ends(seg);
    let commit_ends: Vec<usize> = ends.iter().filter(|(_, k)| *k == 2).map(|(e, _)| *e).collect();
    let mut fails: Vec<String> = Vec::new();
    let mut pref = Vec::with_capacity(seg.len() + 1);
    let mut fs_checked = 0usize;
    let dir = scratch("crash");
    for k in 0..=seg.len() {
        let expect_n = commit_ends.iter().filter(|e| **e <= k).count();
        // layer 1: pure bytes
        let r1 = recover_wal_segment_bytes(WalSegmentId::from_raw(1), &seg[..k], RecoveryAccessMode::ReadOnly).map(|r| r.report);
        let s1 = report_res(&r1);
        match &r1 {
            Ok(rep) => {
                let got = report_txs(rep);
                if got.len() != expect_n || got[..] != log.txs[..expect_n.min(log.txs.len())] {
                    fails.push(format!("wal:prefix-recovery-not-committed-prefix[k={k},got={},want={expect_n}]", got.len()));
                }
                let on_boundary = k == 0 || ends.iter().any(|(e, _)| *e == k);
                let last_is_commit = k == 0 || ends.iter().rev().find(|(e, _)| *e <= k).map(|(_, kd)| *kd == 2).unwrap_or(true);
                if (on_boundary && last_is_commit) != matches!(rep.tail_posture, RecoveryTailPosture::Clean) {
                    fails.push(format!("wal:tail-posture-wrong[k={k}]"));
                }
            }
            Err(e) => fails.push(format!("wal:prefix-recovery-error[k={k},{}]", rec_class(e))),
        }
        pref.push(s1.clone());
        // layers 2/3: the filesystem store on a truncated copy with every coexisting ledger version
        let near = ends.iter().any(|(e, _)| (*e as i64 - k as i64).abs() <= 2) || k <= 1;
        let do_fs = match fsmode {
            "none" => false,
            "all" => true,
            _ => k % 9 == 0 || near,
        };
        if !do_fs {
            continue;
        }
        for led in ledgers_for(&log.snaps, k) {
            fs_checked += 1;
            make_root(&dir, &seg[..k], Some(&led), None);
            let ro = recover_filesystem_store(&dir, RecoveryAccessMode::ReadOnly);
            let sro = report_res(&ro);
            if sro != s1 {
                fails.push(format!("wal:fs-recovery-differs-from-bytes[k={k},{sro},{s1}]"));
            }
            let rw = recover_filesystem_store(&dir, RecoveryAccessMode::Writable);
            if report_res(&rw) != s1 {
                fails.push(format!("wal:fs-writable-recovery-differs[k={k},{}]", report_res(&rw)));
            }
            // idempotence: recovering the repaired store gives the same transactions and a clean tail
            let again = recover_filesystem_store(&dir, RecoveryAccessMode::ReadOnly);
            match (&rw, &again) {
                (Ok(a), Ok(b)) => {
                    if report_txs(a) != report_txs(b) || !matches!(b.tail_posture, RecoveryTailPosture::Clean) {
                        fails.push(format!("wal:recovery-not-idempotent[k={k}]"));
                    }
                }
                (Ok(_), Err(e)) => fails.push(format!("wal:recovery-not-idempotent[k={k},second={}]", rec_class(e))),
                _ => {}
            }
            // continue: reopen as a writer, append one more transaction, recover again
            match StoreRun::open(dir.clone()) {
                Ok(mut run) => {
                    if run.acked[..] != log.txs[..expect_n] {
                        fails.push(format!("wal:reopen-cursor-not-committed-prefix[k={k}]"));
                    }
                    if let Some((a, b)) = run.epoch_skip {
                        fails.push(format!("wal:idle-writer-epoch-skips-lsn[k={k},next={a},epoch_start={b}]"));
                        continue;
                    }
                    let mut rng = Rng(seed ^ 0x5eed);
                    let tx = run.build(&format!("cont:{k}"), 1, 2, &[3], &mut rng);
                    match run.append(tx) {
                        Ok(()) => {
                            let want = run.acked.clone();
                            drop(run);
                            match recover_filesystem_store(&dir, RecoveryAccessMode::ReadOnly) {
                                Ok(rep) => {
                                    if report_txs(&rep) != want || !matches!(rep.tail_posture, RecoveryTailPosture::Clean) {
                                        fails.push(format!("wal:continue-after-recovery-lost-history[k={k}]"));
                                    }
                                }
                                Err(e) => fails.push(format!("wal:continue-after-recovery-unrecoverable[k={k},{}]", rec_class(&e))),
                            }
                        }
                        Err(e) => fails.push(format!("wal:append-after-recovery-failed[k={k},{}]", store_class(&e))),
                    }
                }
                Err(e) => fails.push(format!("wal:reopen-after-crash-failed[k={k},{e}]")),
            }
        }
    }
    let _ = fs::remove_dir_all(&dir);
    format!(
        "len={} seg={} ends={} txs={} pref={} fschecked={} oracle={}",
        seg.len(),
        tohex(seg),
        ends_str(&ends),
        if log.txs.is_empty() { "-".into() } else { log.txs.join(";") },
        rle(&pref),
        fs_checked,
        uniq(fails)
    )
}

/// Runs `f` while no regular file of this process may grow beyond `limit` bytes (RLIMIT_FSIZE with
/// SIGXFSZ ignored: the write that would cross the limit is cut short and fails with EFBIG).  This
/// stops a multi-write operation of the real crate at a chosen byte, deterministically.
fn with_fsize_limit<T>(limit: u64, f: impl FnOnce() -> T) -> T {
    unsafe {
        libc::signal(libc::SIGXFSZ, libc::SIG_IGN);
        let mut old = libc::rlimit { rlim_cur: 0, rlim_max: 0 };
        libc::getrlimit(libc::RLIMIT_FSIZE, &mut old);
        let new = libc::rlimit { rlim_cur: limit as libc::rlim_t, rlim_max: old.rlim_max };
        libc::setrlimit(libc::RLIMIT_FSIZE, &new);
        let r = f();
        libc::setrlimit(libc::RLIMIT_FSIZE, &old);
        r
    }
}

/// The truncation repair (`recover_filesystem_store(Writable)` on a store with an uncommitted tail)
/// interrupted at a chosen byte of the file it is writing: whatever is on disk afterwards must still
/// recover every acknowledged transaction.
fn run_rewrite(m: &BTreeMap<String, String>) -> String {
    let log = match store_log_from(m) {
        Ok(l) => l,
        Err(e) => return format!("oracle=FAIL:wal:workload-build-failed[{e}]"),
    };
    let cut: usize = m.get("cut").and_then(|s| s.parse().ok()).unwrap_or(20);
    let seg = &log.seg[..log.seg.len().saturating_sub(cut)];
    let dir = scratch("rewrite");
    make_root(&dir, seg, Some(&log.ledger), None);
    let mut fails = Vec::new();
    let before = recover_filesystem_store(&dir, RecoveryAccessMode::ReadOnly);
    let acked: Vec<String> = before.as_ref().map(report_txs).unwrap_or_default();
    let rw = recover_filesystem_store(&dir, RecoveryAccessMode::Writable);
    let repaired = fs::read(seg_path(&dir)).unwrap_or_default();
    let rends = record_ends(&repaired);
    // stop points: before the first byte, at every record end of the rewritten file, and inside records
    let mut cuts: Vec<usize> = vec![0];
    for (e, _) in &rends {
        for d in [0usize, 9, 40] {
            if e + d < repaired.len() || d == 0 {
                cuts.push(e + d);
            }
        }
    }
    cuts.sort();
    cuts.dedup();
    let mut states = Vec::new();
    let mut ondisk = Vec::new();
    for c in &cuts {
        make_root(&dir, seg, Some(&log.ledger), None);
        let stopped = with_fsize_limit(*c as u64, || recover_filesystem_store(&dir, RecoveryAccessMode::Writable));
        let left = fs::read(seg_path(&dir)).unwrap_or_default();
        let r = recover_filesystem_store(&dir, RecoveryAccessMode::ReadOnly);
        match &r {
            Ok(rep) => {
                let got = report_txs(rep);
                if got.len() < acked.len() || !is_prefix(&acked, &got) {
                    fails.push(format!(
                        "wal:repair-rewrite-not-crash-atomic[stopped_at_byte={c},repair={},recovered={},acknowledged={}]",
                        if stopped.is_ok() { "ok" } else { "err" },
                        got.len(),
                        acked.len()
                    ));
                }
            }
            Err(e) => fails.push(format!("wal:repair-rewrite-stop-unrecoverable[stopped_at_byte={c},{}]", rec_class(e))),
        }
        states.push(report_res(&r));
        ondisk.push(if left == repaired[..(*c).min(repaired.len())] { "prefix" } else if left == seg { "old" } else { "other" });
    }
    let _ = fs::remove_dir_all(&dir);
    format!(
        "len={} cutseg={} before={} after={} repaired={} rends={} stops={} kills={} ondisk={} oracle={}",
        seg.len(),
        tohex(seg),
        report_res(&before),
        report_res(&rw),
        tohex(&repaired),
        ends_str(&rends),
        cuts.iter().map(|c| c.to_string()).collect::<Vec<_>>().join(","),
        states.join(";"),
        ondisk.join(","),
        uniq(fails)
    )
}

fn run_bytes(m: &BTreeMap<String, String>) -> String {
    let seg = unhex(m.get("seg").map(String::as_str).unwrap_or("-"));
    let (res, txs) = bytes_res(&seg);
    let t = txs.unwrap_or_default().join(";");
    format!("res={} txs={} oracle=ok", res, if t.is_empty() { "-".into() } else { t })
}

// ------------------------------------------------------------------------------------------------
// host-level workload: real TrustedRuntimeHost over the filesystem WAL

const SCHEMA_SHA256_HEX: &str = "0123456789abcdef0123456789abcdef0123456789abcdef0123456789abcdef";
const MUTATION_OP_ID: u32 = 6001;
const RESULT_TYPE: &str = "verif/c10/result";
const MUTATION_RULE_NAME: &str =
    "cmd/contract/0123456789abcdef0123456789abcdef0123456789abcdef0123456789abcdef/6001/increment";
const MUTATION_RULE_ID_LABEL: &str =
    "rule:cmd/contract/0123456789abcdef0123456789abcdef0123456789abcdef0123456789abcdef/6001/increment";

static INCREMENT_ARGS: &[ArgDef] = &[ArgDef { name: "input", ty: "IncrementInput", required: true, list: false }];
static OPS: &[OpDef] = &[OpDef {
    kind: OpKind::Mutation,
    name: "increment",
    op_id: MUTATION_OP_ID,
    args: INCREMENT_ARGS,
    result_ty: "CounterValue",
    directives_json: "{}",
    footprint_certificate: None,
}];
struct StaticRegistry;
impl RegistryProvider for StaticRegistry {
    fn info(&self) -> RegistryInfo {
        RegistryInfo {
            echo_abi_version: 1,
            codec_id: "cbor-canon-v1",
            registry_version: 1,
            schema_sha256_hex: SCHEMA_SHA256_HEX,
            wesley_generator_version: "echo-wesley-gen/0.1.0",
            helper_api_version: 1,
        }
    }
    fn op_by_id(&self, op_id: u32) -> Option<&'static OpDef> {
        OPS.iter().find(|op| op.op_id == op_id)
    }
    fn all_ops(&self) -> &'static [OpDef] {
        OPS
    }
    fn all_enums(&self) -> &'static [echo_registry_api::EnumDef] {
        &[]
    }
    fn all_objects(&self) -> &'static [ObjectDef] {
        &[]
    }
}

fn result_node_id(scope: &NodeId) -> NodeId {
    let mut hasher = blake3::Hasher::new();
    hasher.update(b"verif.c10.result-node");
    hasher.update(scope.as_bytes());
    NodeId(hasher.finalize().into())
}
fn vars_ok(v: Option<&[u8]>) -> bool {
    v.map(|b| b.starts_with(b"amount=")).unwrap_or(false)
}
fn contract_execute(view: GraphView<'_>, scope: &NodeId, delta: &mut TickDelta) {
    let vars = warp_core::eint_vars_for_op(view, scope, MUTATION_OP_ID);
    if !vars_ok(vars) {
        return;
    }
    let bytes = vars.unwrap_or(b"").to_vec();
    let warp_id = view.warp_id();
    let result = result_node_id(scope);
    delta.push(WarpOp::UpsertNode {
        node: warp_core::NodeKey { warp_id, local_id: result },
        record: NodeRecord { ty: make_type_id(RESULT_TYPE) },
    });
    delta.push(WarpOp::SetAttachment {
        key: warp_core::AttachmentKey::node_alpha(warp_core::NodeKey { warp_id, local_id: result }),
        value: Some(warp_core::AttachmentValue::Atom(warp_core::AtomPayload::new(
            make_type_id(RESULT_TYPE),
            bytes::Bytes::from(bytes),
        ))),
    });
}
fn contract_matches(view: GraphView<'_>, scope: &NodeId) -> bool {
    vars_ok(warp_core::eint_vars_for_op(view, scope, MUTATION_OP_ID))
}
fn contract_footprint(view: GraphView<'_>, scope: &NodeId) -> warp_core::Footprint {
    let mut footprint = warp_core::runtime_ingress_eint_read_footprint(view, scope);
    let warp_id = view.warp_id();
    let result = result_node_id(scope);
    footprint.n_write.insert_with_warp(warp_id, result);
    footprint.a_write.insert(warp_core::AttachmentKey::node_alpha(warp_core::NodeKey { warp_id, local_id: result }));
    footprint
}
fn contract_rule() -> warp_core::RewriteRule {
    warp_core::RewriteRule {
        id: make_type_id(MUTATION_RULE_ID_LABEL).0,
        name: MUTATION_RULE_NAME,
        left: PatternGraph { nodes: vec![] },
        matcher: contract_matches,
        executor: contract_execute,
        compute_footprint: contract_footprint,
        factor_mask: 0,
        conflict_policy: warp_core::ConflictPolicy::Abort,
        join_fn: None,
    }
}
fn package() -> warp_core::InstalledContractPackage<'static> {
    static REGISTRY: StaticRegistry = StaticRegistry;
    warp_core::InstalledContractPackage {
        identity: ContractPackageIdentity {
            package_name: "verif-counter",
            package_version: "0.1.0",
            artifact_hash_hex: "bbbbbbbbbbbbbbbbbbbbbbbbbbbbbbbbbbbbbbbbbbbbbbbbbbbbbbbbbbbbbbbb",
        },
        registry: &REGISTRY,
        verification_policy: ContractArtifactVerificationPolicy {
            echo_abi_version: 1,
            codec_id: "cbor-canon-v1",
            registry_version: 1,
            schema_sha256_hex: SCHEMA_SHA256_HEX,
            wesley_generator_version: "echo-wesley-gen/0.1.0",
            helper_api_version: 1,
            footprint_certificates: &[],
            require_mutation_footprint_certificates: false,
        },
        mutation_handlers: vec![ContractMutationHandler { op_id: MUTATION_OP_ID, rule: contract_rule() }],
        inverse_handlers: vec![],
        query_observers: vec![],
    }
}
fn empty_engine() -> warp_core::Engine {
    let mut store = GraphStore::default();
    let root = make_node_id("root");
    store.insert_node(root, NodeRecord { ty: make_type_id("world") });
    EngineBuilder::new(store, root).scheduler(SchedulerKind::Radix).workers(1).build()
}
fn wl() -> WorldlineId {
    WorldlineId::from_bytes([1; 32])
}
fn fresh_runtime() -> WorldlineRuntime {
    let mut runtime = WorldlineRuntime::new();
    runtime.register_worldline(wl(), WorldlineState::empty()).expect("worldline");
    runtime
        .register_writer_head(WriterHead::with_routing(
            WriterHeadKey { worldline_id: wl(), head_id: make_head_id("default") },
            PlaybackMode::Play,
            InboxPolicy::AcceptAll,
            None,
            true,
        ))
        .expect("head");
    runtime
}
fn envelope(i: usize) -> IngressEnvelope {
    IngressEnvelope::local_intent(
        IngressTarget::DefaultWriter { worldline_id: wl() },
        make_intent_kind("echo.intent/eint-v1"),
        echo_wasm_abi::pack_intent_v1(MUTATION_OP_ID, format!("amount={i}").as_bytes()).expect("pack"),
    )
}

fn host_err(e: &TrustedRuntimeHostError) -> String {
    match e {
        TrustedRuntimeHostError::Wal(w) => wal_err(w),
        other => format!("host.{}", first_word(format!("{other:?}"))),
    }
}
fn wal_err(w: &TrustedRuntimeWalError) -> String {
    match w {
        TrustedRuntimeWalError::Recovery(r) => format!("wal.recovery.{}", rec_class(r)),
        TrustedRuntimeWalError::Store(s) => format!("wal.store.{}", store_class(s)),
        other => format!("wal.{}", first_word(format!("{other:?}"))),
    }
}

fn open_host(root: &Path) -> Result<TrustedRuntimeHost, String> {
    let mut host = TrustedRuntimeHost::new(fresh_runtime(), empty_engine()).map_err(|e| host_err(&e))?;
    host.enable_runtime_wal(TrustedRuntimeWalConfig::filesystem(root)).map_err(|e| host_err(&e))?;
    host.register_contract_package(package()).map_err(|e| format!("register.{}", first_word(format!("{e:?}"))))?;
    Ok(host)
}

/// An LSN hole between two consecutive frames of the segment in `root`: (lsn before, lsn after,
/// whether the writer epoch changes across the hole).  Frame payloads start with version(2)
/// epoch(32) segment(8) lsn(8).
fn lsn_hole(root: &Path) -> Option<(u64, u64, bool)> {
    let seg = fs::read(seg_path(root)).ok()?;
    let mut prev: Option<(u64, Vec<u8>)> = None;
    for (k, rec) in records_of(&seg) {
        if k != 1 || rec.len() < 17 + 50 {
            continue;
        }
        let p = &rec[17..];
        let mut l = [0u8; 8];
        l.copy_from_slice(&p[42..50]);
        let lsn = u64::from_le_bytes(l);
        let ep = p[2..34].to_vec();
        if let Some((pl, pe)) = &prev {
            if lsn != pl + 1 {
                return Some((*pl, lsn, *pe != ep));
            }
        }
        prev = Some((lsn, ep));
    }
    None
}
/// Names the root cause when a recovery failed with LsnContinuityMismatch.
fn classify_lsn(fails: &mut Vec<String>, root: &Path, what: &str) {
    if !what.contains("val.lsn") {
        return;
    }
    match lsn_hole(root) {
        Some((a, b, true)) => fails.push(format!("wal:idle-writer-epoch-skips-lsn[hole={a}->{b},acknowledged-log-unrecoverable]")),
        Some((a, b, false)) => fails.push(format!("wal:lsn-hole-inside-epoch[hole={a}->{b}]")),
        None => {}
    }
}

/// What a host exposes that the property talks about.
#[derive(Clone, PartialEq, Eq, Debug)]
struct Obs {
    /// submission index -> (submission id, outcome; the volatile staging detail of Pending removed)
    subs: BTreeMap<usize, (Hash, String)>,
    /// number of witnessed submissions (also those whose id the caller never learned)
    witnessed: usize,
    state_root: Hash,
    frontier_tick: u64,
    committed: usize,
}

/// `GlobalTick(17)` -> `GlobalTick(_)`
fn norm_ticks(s: &str) -> String {
    let mut out = String::new();
    let mut rest = s;
    while let Some(p) = rest.find("GlobalTick(") {
        out.push_str(&rest[..p + 11]);
        rest = &rest[p + 11..];
        let q = rest.find(')').unwrap_or(0);
        out.push('_');
        rest = &rest[q..];
    }
    out.push_str(rest);
    out
}

fn outcome_canon(o: &IntentOutcome) -> String {
    match o {
        IntentOutcome::Pending { submission_id, submission_generation, .. } => {
            format!("pending:{}:{:?}", hex::encode(submission_id), submission_generation)
        }
        other => format!("{other:?}").replace(' ', ""),
    }
}

fn observe(host: &mut TrustedRuntimeHost, ids: &BTreeMap<usize, Hash>) -> Result<(Obs, u64), String> {
    let mut subs = BTreeMap::new();
    for (i, id) in ids {
        if host.runtime().witnessed_submission(id).is_some() {
            let o = host.app().observe_intent_outcome(id);
            subs.insert(*i, (*id, outcome_canon(&o)));
        }
    }
    let frontier = host.runtime().worldlines().get(&wl()).ok_or("no worldline")?;
    let state_root = frontier.state().state_root();
    let frontier_tick = frontier.frontier_tick().as_u64();
    let global_tick = host.runtime().global_tick().as_u64();
    let committed = host
        .runtime_wal()
        .ok_or("no wal")?
        .recover_read_only()
        .map_err(|e| format!("recover_read_only.{}", wal_err(&e)))?
        .certificate
        .committed_transactions_replayed as usize;
    let witnessed = host.runtime().witnessed_submission_count();
    Ok((Obs { subs, witnessed, state_root, frontier_tick, committed }, global_tick))
}

#[derive(Clone, Debug)]
enum Op {
    Submit(usize),
    Stage(usize),
    Tick,
    Reopen,
    Fault(FilesystemWalFaultTarget),
    /// crash inside the previous operation: keep all but the last n bytes it wrote
    Kill(usize),
}
fn parse_ops(s: &str) -> Vec<Op> {
    s.split(',')
        .filter(|t| !t.is_empty())
        .map(|t| {
            let (h, r) = t.split_at(1);
            match h {
                "s" => Op::Submit(r.parse().unwrap_or(0)),
                "g" => Op::Stage(r.parse().unwrap_or(0)),
                "R" => Op::Reopen,
                "K" => Op::Kill(r.parse().unwrap_or(1)),
                "F" => Op::Fault(match r {
                    "a" => FilesystemWalFaultTarget::AppendFrame,
                    "f" => FilesystemWalFaultTarget::FlushCommit,
                    "c" => FilesystemWalFaultTarget::CommitMarkerSynced,
                    _ => FilesystemWalFaultTarget::PublishManifest,
                }),
                _ => Op::Tick,
            }
        })
        .collect()
}

type HostSnap = (usize, Vec<u8>, Obs, BTreeMap<usize, Hash>);

struct HostRun {
    root: PathBuf,
    host: Option<TrustedRuntimeHost>,
    ids: BTreeMap<usize, Hash>,
    /// what the caller was told: submission index acknowledged
    acked: BTreeMap<usize, Hash>,
    log: Vec<String>,
    fails: Vec<String>,
    snaps: Vec<HostSnap>,
    armed: bool,
    last_seg: Vec<u8>,
    /// the segment was rewritten by a repair: (snapshot index, file length right after the rewrite)
    rewrite: (usize, usize),
}
impl HostRun {
    fn start(root: PathBuf) -> Result<Self, String> {
        let host = open_host(&root)?;
        let mut r = HostRun { root, host: Some(host), ids: BTreeMap::new(), acked: BTreeMap::new(), log: Vec::new(), fails: Vec::new(), snaps: Vec::new(), armed: false, last_seg: Vec::new(), rewrite: (0, 0) };
        r.snap()?;
        Ok(r)
    }
    fn snap(&mut self) -> Result<(), String> {
        let seg = fs::read(seg_path(&self.root)).unwrap_or_default();
        let led = fs::read(ledger_path(&self.root)).unwrap_or_default();
        let ids = self.ids.clone();
        let (o, _) = observe(self.host.as_mut().ok_or("closed")?, &ids)?;
        if !seg.starts_with(&self.last_seg) {
            self.rewrite = (self.snaps.len(), seg.len());
        }
        self.last_seg = seg.clone();
        self.snaps.push((seg.len(), led, o, self.acked.clone()));
        Ok(())
    }
    fn reopen(&mut self) -> Result<(), String> {
        self.host = None;
        match open_host(&self.root) {
            Ok(h) => self.host = Some(h),
            Err(e) => {
                classify_lsn(&mut self.fails, &self.root, &e);
                return Err(e);
            }
        }
        Ok(())
    }
    fn apply(&mut self, op: &Op) -> Result<(), String> {
        let before = if self.armed { self.snaps.last().map(|s| s.2.clone()) } else { None };
        let mut failed = false;
        match op {
            Op::Submit(i) => {
                let host = self.host.as_mut().ok_or("closed")?;
                match host.app().submit_intent_with_runtime_wal_ack(envelope(*i)) {
                    Ok(h) => {
                        self.ids.insert(*i, h.submission_id);
                        self.acked.insert(*i, h.submission_id);
                        self.log.push(format!("s{i}:{}", if h.duplicate { "dup" } else { "ack" }));
                    }
                    Err(e) => {
                        failed = true;
                        self.log.push(format!("s{i}:err.{}", host_err(&e)))
                    }
                }
            }
            Op::Stage(i) => {
                let host = self.host.as_mut().ok_or("closed")?;
                if let Some(id) = self.ids.get(i).copied() {
                    match host.admit_installed_contract_submission(id) {
                        Ok(_) => self.log.push(format!("g{i}:ok")),
                        Err(e) => self.log.push(format!("g{i}:err.{}", first_word(format!("{e:?}")))),
                    }
                } else {
                    self.log.push(format!("g{i}:skip"));
                }
            }
            Op::Tick => {
                let host = self.host.as_mut().ok_or("closed")?;
                match host.run_until_idle(8) {
                    Ok(r) => self.log.push(format!("t:{}", r.committed_steps)),
                    Err(e) => {
                        failed = true;
                        self.log.push(format!("t:err.{}", host_err(&e)))
                    }
                }
            }
            Op::Reopen => {
                self.reopen()?;
                self.log.push("R:ok".into());
            }
            Op::Fault(t) => {
                let host = self.host.as_mut().ok_or("closed")?;
                host.inject_runtime_wal_filesystem_fault_for_test(FilesystemWalFaultPlan::fail_next(*t)).map_err(|e| host_err(&e))?;
                self.log.push(format!("F:{t:?}"));
                self.armed = true;
                return Ok(());
            }
            Op::Kill(n) => {
                // the previous operation is cut short: its last n bytes never reached the disk, its
                // ledger update did not happen, and its acknowledgement was never returned
                let cur = self.snaps.len() - 1;
                if cur == 0 {
                    return Ok(());
                }
                let (len, _, _, _) = self.snaps[cur].clone();
                let (plen, pled, _, packed) = self.snaps[cur - 1].clone();
                let keep = len.saturating_sub(*n).max(plen);
                self.host = None;
                let seg = fs::read(seg_path(&self.root)).unwrap_or_default();
                if keep < len {
                    fs::write(seg_path(&self.root), &seg[..keep.min(seg.len())]).map_err(|e| e.to_string())?;
                    fs::write(ledger_path(&self.root), &pled).map_err(|e| e.to_string())?;
                    self.acked = packed;
                }
                self.reopen()?;
                self.log.push(format!("K:{}", len - keep));
                // everything acknowledged must still be there
                let ids = self.ids.clone();
                let (o, _) = observe(self.host.as_mut().ok_or("closed")?, &ids)?;
                for (i, id) in &self.acked {
                    if !o.subs.contains_key(i) {
                        self.fails.push(format!("wal:acked-submission-lost[after-kill,s{i},{}]", hex::encode(&id[..4])));
                    }
                }
            }
        }
        if let Some(b) = before {
            self.armed = false;
            // an operation that reported failure must leave nothing visible
            if failed {
                let ids = self.ids.clone();
                let (o, _) = observe(self.host.as_mut().ok_or("closed")?, &ids)?;
                if o.subs != b.subs || o.witnessed != b.witnessed || o.state_root != b.state_root || o.committed != b.committed {
                    self.fails.push(format!("wal:failed-operation-left-visible-state[{op:?}]"));
                }
            }
        }
        self.snap()
    }
}

fn parse_host(m: &BTreeMap<String, String>) -> (Vec<Op>, PathBuf, Result<HostRun, String>) {
    let ops = parse_ops(m.get("ops").map(String::as_str).unwrap_or("s0,g0,t"));
    let root = scratch("host");
    let mut run = HostRun::start(root.clone());
    if let Ok(r) = run.as_mut() {
        for op in &ops {
            if let Err(e) = r.apply(op) {
                let root2 = r.root.clone();
                classify_lsn(&mut r.fails, &root2, &e);
                r.fails.push(format!("wal:host-op-failed[{op:?},{e}]"));
                break;
            }
        }
        r.host = None;
    }
    (ops, root, run)
}

fn run_host(m: &BTreeMap<String, String>) -> String {
    let stride: usize = m.get("stride").and_then(|s| s.parse().ok()).unwrap_or(1);
    let cont = m.get("cont").map(String::as_str).unwrap_or("bound");
    let near_w: i64 = m.get("near").and_then(|s| s.parse().ok()).unwrap_or(1);
    let (ops, root, run) = parse_host(m);
    let mut run = match run {
        Ok(r) => r,
        Err(e) => return format!("oracle=FAIL:wal:host-open-failed[{e}]"),
    };
    let mut fails = std::mem::take(&mut run.fails);
    let snaps = std::mem::take(&mut run.snaps);
    let final_obs = snaps.last().map(|s| s.2.clone());
    let all_ids = run.ids.clone();
    let seg = fs::read(seg_path(&root)).unwrap_or_default();
    let ends = record_ends(&seg);
    let (rw_snap, rw_floor) = run.rewrite;
    let mut pref = Vec::new();
    let dir = scratch("hcrash");
    let dir2 = scratch("hcont");
    let (mut reopened, mut continued) = (0usize, 0usize);
    for k in 0..=seg.len() {
        let (s1, _) = bytes_res(&seg[..k]);
        pref.push(s1);
        let near = ends.iter().any(|(e, _)| (*e as i64 - k as i64).abs() <= near_w) || k <= 1;
        // bytes below rw_floor were laid out by a repair rewrite: prefixes of them are states of a kill
        // *during* that rewrite (mode=rewrite covers those), not of the acknowledged history
        if !(k % stride == 0 || near) || k < rw_floor {
            continue;
        }
        let mut j = rw_snap;
        for (i, s) in snaps.iter().enumerate() {
            if i >= rw_snap && s.0 <= k {
                j = i;
            }
        }
        let mut variants = vec![snaps[j].1.clone()];
        if j > 0 && snaps[j].0 == k && snaps[j - 1].1 != snaps[j].1 && snaps[j - 1].0 < k {
            variants.push(snaps[j - 1].1.clone());
        }
        for led in variants {
            make_root(&dir, &seg[..k], Some(&led), None);
            let want = &snaps[j].2;
            let mut host = match open_host(&dir) {
                Ok(h) => h,
                Err(e) => {
                    classify_lsn(&mut fails, &dir, &e);
                    fails.push(format!("wal:host-reopen-after-crash-failed[k={k},{e}]"));
                    continue;
                }
            };
            reopened += 1;
            match observe(&mut host, &all_ids) {
                Ok((got, _)) => {
                    for (i, id) in &snaps[j].3 {
                        if !got.subs.contains_key(i) {
                            fails.push(format!("wal:acked-submission-lost[k={k},s{i},{}]", hex::encode(&id[..4])));
                        }
                    }
                    if got.subs.keys().any(|i| !want.subs.contains_key(i)) {
                        fails.push(format!("wal:uncommitted-submission-visible[k={k}]"));
                    }
                    if got != *want {
                        fails.push(format!(
                            "wal:recovered-host-differs-from-acked-state[k={k},root={},subs={},committed={}/{}]",
                            got.state_root == want.state_root,
                            got.subs == want.subs,
                            got.committed,
                            want.committed
                        ));
                    }
                }
                Err(e) => fails.push(format!("wal:host-observe-after-crash-failed[k={k},{e}]")),
            }
            // idempotence: a second recovery of the (now repaired) directory sees the same thing
            drop(host);
            match open_host(&dir) {
                Ok(mut host2) => match observe(&mut host2, &all_ids) {
                    Ok((got, _)) => {
                        if got != *want {
                            fails.push(format!("wal:host-recovery-not-idempotent[k={k}]"));
                        }
                    }
                    Err(e) => fails.push(format!("wal:second-recovery-observe-failed[k={k},{e}]")),
                },
                Err(e) => {
                    classify_lsn(&mut fails, &dir, &e);
                    fails.push(format!("wal:second-recovery-failed[k={k},{e}]"))
                }
            }
            // continue (on a fresh copy, one recovery only): retry every submission, finish the workload
            let do_cont = match cont {
                "none" => false,
                "all" => true,
                _ => near,
            };
            if !do_cont {
                continue;
            }
            continued += 1;
            make_root(&dir2, &seg[..k], Some(&led), None);
            let mut run2 = match HostRun::start(dir2.clone()) {
                Ok(r) => r,
                Err(e) => {
                    fails.push(format!("wal:host-reopen-after-crash-failed[k={k},{e}]"));
                    continue;
                }
            };
            let mut ok = true;
            for op in ops.iter().filter(|o| !matches!(o, Op::Fault(_) | Op::Kill(_) | Op::Reopen)) {
                if let Err(e) = run2.apply(op) {
                    classify_lsn(&mut fails, &dir2, &e);
                    fails.push(format!("wal:continue-op-failed[k={k},{op:?},{e}]"));
                    ok = false;
                    break;
                }
            }
            if !ok {
                continue;
            }
            for (i, id) in &snaps[j].3 {
                if run2.ids.get(i) != Some(id) {
                    fails.push(format!("wal:retry-not-deduplicated[k={k},s{i}]"));
                }
                if !run2.log.iter().any(|l| l == &format!("s{i}:dup")) {
                    fails.push(format!("wal:retry-of-acked-submission-not-duplicate[k={k},s{i}]"));
                }
            }
            // (with injected faults the original run skipped operations the retry performs)
            let has_fault = ops.iter().any(|o| matches!(o, Op::Fault(_) | Op::Kill(_)));
            if let (Some(last), Some(fin), false) = (run2.snaps.last(), &final_obs, has_fault) {
                let got = &last.2;
                // Idle scheduler passes advance the in-memory global tick and are not durable; the repo's own
                // recovery tests compare the recovered global tick with the last *committed* tick.  Following
                // that convention, receipts of later ticks are compared modulo their global-tick stamps.
                let norm = |m: &BTreeMap<usize, (Hash, String)>| -> Vec<(usize, Hash, String)> {
                    m.iter().map(|(i, (h, o))| (*i, *h, norm_ticks(o))).collect()
                };
                if norm(&got.subs) != norm(&fin.subs) || got.state_root != fin.state_root || got.frontier_tick != fin.frontier_tick {
                    let mut why = String::new();
                    for (i, (_, o)) in &fin.subs {
                        if let Some((_, g)) = got.subs.get(i) {
                            if g != o {
                                // first differing field of the outcome
                                let (a, b): (Vec<&str>, Vec<&str>) = (o.split(',').collect(), g.split(',').collect());
                                if let Some(p) = a.iter().zip(b.iter()).position(|(x, y)| x != y) {
                                    why = format!("s{i}:{}<>{}", a[p].chars().take(60).collect::<String>(), b[p].chars().take(60).collect::<String>());
                                }
                                break;
                            }
                        }
                    }
                    fails.push(format!(
                        "wal:continued-host-diverges[k={k},root={},subs={},why={why},log={}]",
                        got.state_root == fin.state_root,
                        got.subs == fin.subs,
                        run2.log.join("/")
                    ));
                }
            }
            fails.extend(run2.fails.drain(..));
            run2.host = None;
            if let Err(e) = recover_filesystem_store(&dir2, RecoveryAccessMode::ReadOnly) {
                classify_lsn(&mut fails, &dir2, &rec_class(&e));
                fails.push(format!("wal:continued-log-unrecoverable[k={k},{}]", rec_class(&e)));
            }
        }
    }
    // the final directory itself must recover to what the caller saw last
    match (open_host(&root), &final_obs) {
        (Ok(mut h), Some(fin)) => match observe(&mut h, &all_ids) {
            Ok((got, _)) => {
                if got != *fin {
                    fails.push("wal:final-recovery-differs-from-last-visible-state".into());
                }
            }
            Err(e) => fails.push(format!("wal:final-recovery-observe-failed[{e}]")),
        },
        (Err(e), _) => {
            classify_lsn(&mut fails, &root, &e);
            fails.push(format!("wal:final-recovery-failed[{e}]"))
        }
        _ => {}
    }
    let _ = fs::remove_dir_all(&dir);
    let _ = fs::remove_dir_all(&dir2);
    let _ = fs::remove_dir_all(&root);
    let txs = bytes_res(&seg).1.unwrap_or_default().join(";");
    format!(
        "len={} seg={} ends={} txs={} pref={} log={} reopened={} continued={} oracle={}",
        seg.len(),
        tohex(&seg),
        ends_str(&ends),
        if txs.is_empty() { "-".into() } else { txs },
        rle(&pref),
        run.log.join("/"),
        reopened,
        continued,
        uniq(fails)
    )
}

// ------------------------------------------------------------------------------------------------
// C11: damage and structural edits

fn flip(seg: &[u8], bit: usize) -> Vec<u8> {
    let mut v = seg.to_vec();
    v[bit / 8] ^= 1 << (bit % 8);
    v
}
fn zeroed(seg: &[u8], off: usize, len: usize) -> Vec<u8> {
    let mut v = seg.to_vec();
    for b in v.iter_mut().skip(off).take(len) {
        *b = 0;
    }
    v
}

/// Typed error, or a prefix of the committed history: anything else is a violation.
fn damage_verdict(res: &Result<RecoveryScanReport, WalRecoveryError>, full: &[String]) -> Option<String> {
    match res {
        Err(_) => None,
        Ok(rep) => {
            let got = report_txs(rep);
            if is_prefix(&got, full) {
                None
            } else {
                Some(format!("got={},committed={}", got.len(), full.len()))
            }
        }
    }
}

const ZERO_LENS: [usize; 7] = [1, 2, 4, 8, 16, 32, 64];

fn run_flip(m: &BTreeMap<String, String>) -> String {
    let log = match store_log_from(m) {
        Ok(l) => l,
        Err(e) => return format!("oracle=FAIL:wal:workload-build-failed[{e}]"),
    };
    let seg = &log.seg;
    let nbits = seg.len() * 8;
    let bits: Vec<usize> = match m.get("bits").map(String::as_str) {
        Some("all") | None => (0..nbits).collect(),
        Some(s) => s.split(',').filter_map(|x| x.parse().ok()).filter(|b| *b < nbits).collect(),
    };
    let zeros: Vec<(usize, usize)> = match m.get("zeros").map(String::as_str) {
        Some("all") | None => ZERO_LENS.iter().flat_map(|l| (0..seg.len()).step_by(*l).map(move |o| (o, *l))).collect(),
        Some("-") => Vec::new(),
        Some(s) => s.split(',').filter_map(|x| x.split_once(':')).filter_map(|(a, b)| Some((a.parse().ok()?, b.parse().ok()?))).collect(),
    };
    let fsn: usize = m.get("fsevery").and_then(|s| s.parse().ok()).unwrap_or(16);
    let dir = scratch("flip");
    let mut fails = Vec::new();
    let mut fres = Vec::with_capacity(bits.len());
    let mut fs_checked = 0usize;
    let check = |tag: &str, idx: usize, d: &[u8], fails: &mut Vec<String>, fs_checked: &mut usize| -> String {
        let r = recover_wal_segment_bytes(WalSegmentId::from_raw(1), d, RecoveryAccessMode::ReadOnly).map(|r| r.report);
        if d == &seg[..] {
            return report_res(&r);
        }
        if let Some(v) = damage_verdict(&r, &log.txs) {
            fails.push(format!("wal:damage-accepted-as-different-history[{tag},{v}]"));
        }
        if idx % fsn == 0 {
            *fs_checked += 1;
            make_root(&dir, d, Some(&log.ledger), None);
            let fsr = recover_filesystem_store(&dir, RecoveryAccessMode::ReadOnly);
            if let Some(v) = damage_verdict(&fsr, &log.txs) {
                fails.push(format!("wal:damage-accepted-as-different-history[fs,{tag},{v}]"));
            }
            if report_res(&fsr) != report_res(&r) {
                fails.push(format!("wal:fs-recovery-differs-from-bytes[{tag},{},{}]", report_res(&fsr), report_res(&r)));
            }
        }
        report_res(&r)
    };
    for (i, b) in bits.iter().enumerate() {
        let d = flip(seg, *b);
        fres.push(check(&format!("bit={b}"), i, &d, &mut fails, &mut fs_checked));
    }
    let mut zres = Vec::with_capacity(zeros.len());
    for (i, (o, l)) in zeros.iter().enumerate() {
        let d = zeroed(seg, *o, *l);
        zres.push(check(&format!("zero={o}:{l}"), i, &d, &mut fails, &mut fs_checked));
    }
    let _ = fs::remove_dir_all(&dir);
    format!(
        "len={} seg={} ends={} txs={} nbits={} flips={} nzeros={} zeros={} fschecked={} oracle={}",
        seg.len(),
        tohex(seg),
        ends_str(&record_ends(seg)),
        log.txs.join(";"),
        bits.len(),
        rle(&fres),
        zeros.len(),
        rle(&zres),
        fs_checked,
        uniq(fails)
    )
}

/// Splits a segment into its disk records.
fn records_of(seg: &[u8]) -> Vec<(u8, Vec<u8>)> {
    let mut out = Vec::new();
    let mut o = 0;
    for (e, k) in record_ends(seg) {
        out.push((k, seg[o..e].to_vec()));
        o = e;
    }
    out
}
fn join(recs: &[(u8, Vec<u8>)]) -> Vec<u8> {
    recs.iter().flat_map(|(_, b)| b.iter().copied()).collect()
}

/// All single-record structural edits of a log (and transplants from `other`), by name.
fn edits_of(recs: &[(u8, Vec<u8>)], other: &[(u8, Vec<u8>)]) -> Vec<(String, Vec<(u8, Vec<u8>)>)> {
    let mut out = Vec::new();
    let kn = |k: u8| if k == 2 { "c" } else { "f" };
    for i in 0..recs.len() {
        let mut v = recs.to_vec();
        v.remove(i);
        out.push((format!("del{}:{i}", kn(recs[i].0)), v));
        let mut v = recs.to_vec();
        v.insert(i, recs[i].clone());
        out.push((format!("dup{}:{i}", kn(recs[i].0)), v));
        // a copy of record i appended at the very end
        let mut v = recs.to_vec();
        v.push(recs[i].clone());
        out.push((format!("app{}:{i}", kn(recs[i].0)), v));
        if i + 1 < recs.len() {
            let mut v = recs.to_vec();
            v.swap(i, i + 1);
            out.push((format!("swap{}{}:{i}", kn(recs[i].0), kn(recs[i + 1].0)), v));
        }
    }
    // commit markers exchanged (every pair)
    let cpos: Vec<usize> = recs.iter().enumerate().filter(|(_, r)| r.0 == 2).map(|(i, _)| i).collect();
    for a in 0..cpos.len() {
        for b in a + 1..cpos.len() {
            let mut v = recs.to_vec();
            v.swap(cpos[a], cpos[b]);
            out.push((format!("xchgc:{}:{}", cpos[a], cpos[b]), v));
        }
    }
    for (j, r) in other.iter().enumerate() {
        for i in [0usize, recs.len() / 2, recs.len()] {
            let mut v = recs.to_vec();
            v.insert(i.min(recs.len()), r.clone());
            out.push((format!("ins{}:{j}@{i}", kn(r.0)), v));
        }
        if j < recs.len() {
            let mut v = recs.to_vec();
            v[j] = r.clone();
            out.push((format!("repl{}:{j}", kn(r.0)), v));
        }
    }
    // a whole transaction of the other log appended / prepended
    if !other.is_empty() {
        let mut first_tx: Vec<(u8, Vec<u8>)> = Vec::new();
        for r in other {
            first_tx.push(r.clone());
            if r.0 == 2 {
                break;
            }
        }
        let mut v = recs.to_vec();
        v.extend(first_tx.clone());
        out.push(("apptx:0".into(), v));
        let mut v = first_tx;
        v.extend(recs.to_vec());
        out.push(("pretx:0".into(), v));
    }
    out
}

fn edit_signature(name: &str) -> &'static str {
    if name.starts_with("delc") {
        "wal:commit-marker-removed-accepted"
    } else if name.starts_with("dupc") || name.starts_with("appc") {
        "wal:commit-marker-duplicated-accepted"
    } else if name.starts_with("xchgc") || name.starts_with("swapcc") {
        "wal:commit-markers-reordered-accepted"
    } else if name.starts_with("ins") || name.starts_with("repl") || name.starts_with("apptx") || name.starts_with("pretx") {
        "wal:transplanted-record-accepted"
    } else {
        "wal:edited-log-accepted-as-different-history"
    }
}

fn run_edit(m: &BTreeMap<String, String>) -> String {
    let log = match store_log_from(m) {
        Ok(l) => l,
        Err(e) => return format!("oracle=FAIL:wal:workload-build-failed[{e}]"),
    };
    let oseed: u64 = m.get("oseed").and_then(|s| s.parse().ok()).unwrap_or(77);
    let other = match build_store_log(oseed, &list_usize(m, "oshape", &[2, 1]), &list_usize(m, "pay", &[4]), &[]) {
        Ok(l) => l,
        Err(e) => return format!("oracle=FAIL:wal:workload-build-failed[{e}]"),
    };
    let recs = records_of(&log.seg);
    let orecs = records_of(&other.seg);
    let dir = scratch("edit");
    let mut fails = Vec::new();
    let mut out = Vec::new();
    for (name, v) in edits_of(&recs, &orecs) {
        let d = join(&v);
        // layer 1: bytes
        let r1 = recover_wal_segment_bytes(WalSegmentId::from_raw(1), &d, RecoveryAccessMode::ReadOnly).map(|r| r.report);
        // layer 2: filesystem store (read-only), layer 3: store opened as a writer
        make_root(&dir, &d, Some(&log.ledger), None);
        let r2 = recover_filesystem_store(&dir, RecoveryAccessMode::ReadOnly);
        let r3 = match StoreRun::open(dir.clone()) {
            Ok(run) => format!("open/{}", run.acked.len()),
            Err(e) => format!("err/{e}"),
        };
        if d != log.seg {
            if let Some(v) = damage_verdict(&r1, &log.txs) {
                fails.push(format!("{}[bytes,{name},{v}]", edit_signature(&name)));
            }
            if let Some(v) = damage_verdict(&r2, &log.txs) {
                fails.push(format!("{}[fs,{name},{v}]", edit_signature(&name)));
            }
        }
        out.push(format!("{name}={}|{}|{}", report_res(&r1), report_res(&r2), r3));
    }
    let _ = fs::remove_dir_all(&dir);
    format!(
        "len={} seg={} ends={} oseg={} oends={} txs={} edits={} oracle={}",
        log.seg.len(),
        tohex(&log.seg),
        ends_str(&record_ends(&log.seg)),
        tohex(&other.seg),
        ends_str(&record_ends(&other.seg)),
        log.txs.join(";"),
        out.join(";"),
        uniq(fails)
    )
}

/// recover_from_frames_and_commits on edited frame / commit vectors built by the real builders.
fn run_api(m: &BTreeMap<String, String>) -> String {
    let log = match store_log_from(m) {
        Ok(l) => l,
        Err(e) => return format!("oracle=FAIL:wal:workload-build-failed[{e}]"),
    };
    let frames: Vec<WalFrame> = log.txv.iter().flat_map(|t| t.frames.iter().cloned()).collect();
    let commits: Vec<WalTransactionCommit> = log.txv.iter().map(|t| t.commit.clone()).collect();
    let full = log.txs.clone();
    let mut fails = Vec::new();
    let mut out = Vec::new();
    let mut run = |name: String, f: Vec<WalFrame>, c: Vec<WalTransactionCommit>, fails: &mut Vec<String>, must_detect: bool| {
        let r = recover_from_frames_and_commits(&f, &c, RecoveryAccessMode::ReadOnly);
        if let Some(v) = damage_verdict(&r, &full) {
            fails.push(format!("{}[api,{name},{v}]", edit_signature(&name)));
        } else if must_detect {
            if let Ok(rep) = &r {
                if report_txs(rep).len() == full.len() && matches!(rep.tail_posture, RecoveryTailPosture::Clean) {
                    fails.push(format!("wal:frame-edit-undetected[api,{name}]"));
                }
            }
        }
        out.push(format!("{name}={}", report_res(&r)));
    };
    run("id".into(), frames.clone(), commits.clone(), &mut fails, false);
    for i in 0..commits.len() {
        let mut c = commits.clone();
        c.remove(i);
        run(format!("delc:{i}"), frames.clone(), c, &mut fails, false);
        let mut c = commits.clone();
        c.insert(i, commits[i].clone());
        run(format!("dupc:{i}"), frames.clone(), c, &mut fails, false);
        if i + 1 < commits.len() {
            let mut c = commits.clone();
            c.swap(i, i + 1);
            run(format!("swapcc:{i}"), frames.clone(), c, &mut fails, false);
        }
    }
    for i in 0..frames.len() {
        let mut f = frames.clone();
        f.remove(i);
        run(format!("delf:{i}"), f, commits.clone(), &mut fails, true);
        let mut f = frames.clone();
        f.insert(i, frames[i].clone());
        run(format!("dupf:{i}"), f, commits.clone(), &mut fails, true);
        if i + 1 < frames.len() {
            let mut f = frames.clone();
            f.swap(i, i + 1);
            run(format!("swapff:{i}"), f, commits.clone(), &mut fails, false);
        }
        // a re-sealed frame with a different payload: integrity passes, the records root must not
        let mut f = frames.clone();
        let mut p = f[i].payload.clone();
        p.canonical_bytes.push(0x5a);
        let mut h = f[i].header.clone();
        h.payload_digest = p.digest();
        h.payload_len = p.canonical_bytes.len() as u64;
        f[i] = WalFrame::new(h, p);
        run(format!("resealf:{i}"), f, commits.clone(), &mut fails, true);
        // raw field tampering without re-sealing
        let mut f = frames.clone();
        f[i].header.transaction_local_index =
            warp_core::causal_wal::TransactionLocalIndex::from_raw(f[i].header.transaction_local_index.as_u32() + 1);
        run(format!("idxf:{i}"), f, commits.clone(), &mut fails, true);
        let mut f = frames.clone();
        f[i].payload.canonical_bytes.push(1);
        run(format!("payf:{i}"), f, commits.clone(), &mut fails, true);
    }
    for i in 0..commits.len() {
        let mut c = commits.clone();
        c[i].record_count += 1;
        run(format!("cntc:{i}"), frames.clone(), c, &mut fails, true);
        let mut c = commits.clone();
        c[i].records_root[0] ^= 1;
        run(format!("rootc:{i}"), frames.clone(), c, &mut fails, true);
        let mut c = commits.clone();
        c[i].previous_committed_transaction_digest[0] ^= 1;
        run(format!("prevc:{i}"), frames.clone(), c, &mut fails, true);
    }
    format!("seg={} txs={} edits={} oracle={}", tohex(&log.seg), full.join(";"), out.join(";"), uniq(fails))
}

/// Ledger / manifest tampering on a store-level log.
fn run_meta(m: &BTreeMap<String, String>) -> String {
    let log = match store_log_from(m) {
        Ok(l) => l,
        Err(e) => return format!("oracle=FAIL:wal:workload-build-failed[{e}]"),
    };
    let dir = scratch("meta");
    let mut fails = Vec::new();
    let mut out = Vec::new();
    let open_res = |dir: &Path| -> String {
        match StoreRun::open(dir.to_path_buf()) {
            Ok(r) => format!("open/{}", r.acked.len()),
            Err(e) => format!("err/{e}"),
        }
    };
    // ledger: bit flips (every `every`-th bit), truncations, deletion
    let every: usize = m.get("every").and_then(|s| s.parse().ok()).unwrap_or(7);
    let mut lres = Vec::new();
    for b in (0..log.ledger.len() * 8).step_by(every.max(1)) {
        let l = flip(&log.ledger, b);
        make_root(&dir, &log.seg, Some(&l), None);
        let r = open_res(&dir);
        if r.starts_with("open/") {
            fails.push(format!("wal:ledger-damage-undetected[bit={b},{r}]"));
        }
        lres.push(r);
    }
    out.push(format!("ledgerflips={}", rle(&lres)));
    let mut tres = Vec::new();
    for n in 0..log.ledger.len() {
        make_root(&dir, &log.seg, Some(&log.ledger[..n]), None);
        let r = open_res(&dir);
        if r.starts_with("open/") {
            fails.push(format!("wal:ledger-truncation-undetected[len={n}]"));
        }
        tres.push(r);
    }
    out.push(format!("ledgertrunc={}", rle(&tres)));
    make_root(&dir, &log.seg, None, None);
    let r = open_res(&dir);
    if r.starts_with("open/") && !log.txs.is_empty() {
        fails.push("wal:missing-ledger-undetected".into());
    }
    out.push(format!("ledgermissing={r}"));
    // manifest: publish the true manifest with the real store, then tamper with manifest and segment
    make_root(&dir, &log.seg, Some(&log.ledger), None);
    let last = log.txv.last().map(|t| t.commit.clone());
    let manifest = WalManifest {
        manifest_digest: digest("manifest"),
        last_committed_lsn: last.as_ref().map(|c| c.last_lsn),
        last_commit_digest: last.as_ref().map(|c| c.commit_digest),
        sealed_segment_count: 1,
    };
    match StoreRun::open(dir.clone()) {
        Ok(mut run) => {
            if let Err(e) = run.store.publish_manifest(run.epoch, manifest) {
                fails.push(format!("wal:manifest-publish-failed[{}]", store_class(&e)));
            }
        }
        Err(e) => fails.push(format!("wal:reopen-after-crash-failed[{e}]")),
    }
    let mbytes = fs::read(dir.join("manifest.ecwal")).unwrap_or_default();
    let vr = |dir: &Path| match validate_filesystem_manifest(dir) {
        Ok(_) => "ok".to_string(),
        Err(e) => format!("err/{}", store_class(&e)),
    };
    let base = vr(&dir);
    if base != "ok" {
        fails.push(format!("wal:true-manifest-rejected[{base}]"));
    }
    let mut mres = Vec::new();
    for b in 0..mbytes.len() * 8 {
        if b / 8 < 32 {
            continue; // manifest_digest is an opaque caller-supplied label, compared with nothing
        }
        fs::write(dir.join("manifest.ecwal"), flip(&mbytes, b)).expect("write");
        let r = vr(&dir);
        if r == "ok" {
            fails.push(format!("wal:manifest-damage-undetected[bit={b}]"));
        }
        mres.push(r);
    }
    out.push(format!("manifestflips={}", rle(&mres)));
    // the manifest pins the last commit: dropping the last transaction from the segment must be noticed
    fs::write(dir.join("manifest.ecwal"), &mbytes).expect("write");
    let ends = record_ends(&log.seg);
    let commit_ends: Vec<usize> = ends.iter().filter(|(_, k)| *k == 2).map(|(e, _)| *e).collect();
    if commit_ends.len() >= 2 {
        let cut = commit_ends[commit_ends.len() - 2];
        fs::write(seg_path(&dir), &log.seg[..cut]).expect("write");
        let r = vr(&dir);
        if r == "ok" {
            fails.push("wal:manifest-misses-dropped-transaction".into());
        }
        out.push(format!("manifestdrop={r}"));
    }
    let _ = fs::remove_dir_all(&dir);
    format!("seg={} ledger={} {} oracle={}", tohex(&log.seg), tohex(&log.ledger), out.join(" "), uniq(fails))
}

/// Structural edits / bit flips of a log written by the real host, reopened by the real host.
fn run_hostedit(m: &BTreeMap<String, String>) -> String {
    let (_ops, root, run) = parse_host(m);
    let mut run = match run {
        Ok(r) => r,
        Err(e) => return format!("oracle=FAIL:wal:host-open-failed[{e}]"),
    };
    let mut fails = std::mem::take(&mut run.fails);
    let snaps = std::mem::take(&mut run.snaps);
    let all_ids = run.ids.clone();
    let seg = fs::read(seg_path(&root)).unwrap_or_default();
    let ledger = fs::read(ledger_path(&root)).unwrap_or_default();
    let full = bytes_res(&seg).1.unwrap_or_default();
    let recs = records_of(&seg);
    let dir = scratch("hedit");
    let mut out = Vec::new();
    let bits = list_usize(m, "bits", &[]);
    let mut variants: Vec<(String, Vec<u8>)> = edits_of(&recs, &[]).into_iter().map(|(n, v)| (n, join(&v))).collect();
    for b in bits {
        if b < seg.len() * 8 {
            variants.push((format!("bit:{b}"), flip(&seg, b)));
        }
    }
    // distinct states the original run went through (= what committed prefixes look like)
    let mut prefixes: Vec<&Obs> = Vec::new();
    for s in &snaps {
        if !prefixes.iter().any(|p| **p == s.2) {
            prefixes.push(&s.2);
        }
    }
    for (name, d) in variants {
        if d == seg {
            continue;
        }
        let (b1, _) = bytes_res(&d);
        make_root(&dir, &d, Some(&ledger), None);
        let hres = match open_host(&dir) {
            Err(e) => format!("err/{e}"),
            Ok(mut h) => match observe(&mut h, &all_ids) {
                Err(e) => format!("err/observe.{e}"),
                Ok((got, _)) => match prefixes.iter().position(|p| p.subs == got.subs && p.state_root == got.state_root && p.frontier_tick == got.frontier_tick) {
                    Some(i) if prefixes[i].committed == got.committed => format!("ok/prefix{i}/{}", got.committed),
                    Some(i) => {
                        fails.push(format!("{}[host-count,{name},committed={}/{}]", edit_signature(&name), got.committed, prefixes[i].committed));
                        format!("ok/prefix{i}-count{}", got.committed)
                    }
                    None => {
                        fails.push(format!("{}[host,{name},committed={}]", edit_signature(&name), got.committed));
                        format!("ok/DIFFERENT/{}", got.committed)
                    }
                },
            },
        };
        out.push(format!("{name}={b1}|{hres}"));
    }
    let _ = fs::remove_dir_all(&dir);
    let _ = fs::remove_dir_all(&root);
    format!(
        "len={} seg={} ends={} txs={} log={} edits={} oracle={}",
        seg.len(),
        tohex(&seg),
        ends_str(&record_ends(&seg)),
        full.join(";"),
        run.log.join("/"),
        out.join(";"),
        uniq(fails)
    )
}

pub fn main() {
    for (idx, line) in read_cases().into_iter().enumerate() {
        let m = kv(&line);
        let mode = m.get("mode").cloned().unwrap_or_default();
        let out = match catch(std::panic::AssertUnwindSafe(|| match mode.as_str() {
            "store" => run_store(&m),
            "rewrite" => run_rewrite(&m),
            "bytes" => run_bytes(&m),
            "host" => run_host(&m),
            "flip" => run_flip(&m),
            "edit" => run_edit(&m),
            "api" => run_api(&m),
            "meta" => run_meta(&m),
            "hostedit" => run_hostedit(&m),
            other => format!("oracle=FAIL:wal:unknown-mode[{other}]"),
        })) {
            Ok(s) => s,
            Err(p) => format!("oracle=FAIL:wal:harness-panic[{}]", p.replace(' ', "_").chars().take(160).collect::<String>()),
        };
        println!("case={idx} mode={mode} {out}");
    }
}
