//! C10 / C11 harness: causal WAL disk-record layer, recovery, filesystem store and trusted host.
//!
//! (c11.rs `include!`s this file: the two properties share one model and one workload builder.)
//!
//! Every case line is `mode=<m> key=value ...`; one canonical output line per case starting with
//! `case=<index>` and ending with `oracle=<ok|FAIL:sig,...>`.  Scratch directories live under
//! `/tmp/<bin>-<pid>-*` and are removed when the case ends.
//!
//! Result notation for one recovery: `ok/<n>/<tail>/<fnv64 of the tx list>` or `err/<class>` where
//! tail = C | N | A<lsn> and the tx list is `txid:commit_digest:first:last:count;...`.
#![allow(clippy::all)]
use echo_verif_harness::*;
use std::collections::BTreeMap;
use std::fs;
use std::path::{Path, PathBuf};

use echo_registry_api::{
    ArgDef, ContractArtifactVerificationPolicy, ObjectDef, OpDef, OpKind, RegistryInfo,
    RegistryProvider,
};
use warp_core::causal_wal::{
    canonical_segment_path, recover_filesystem_store, recover_from_frames_and_commits,
    recover_wal_segment_bytes, validate_filesystem_manifest, AffectedFrontier,
    AffectedFrontierKind, FilesystemWalFaultPlan, FilesystemWalFaultTarget, FilesystemWalStore,
    Lsn, PayloadCodecId, PayloadSchemaId, RecoveryAccessMode, RecoveryScanReport,
    RecoveryTailPosture, WalAppendAuthority, WalCommittedTransaction, WalDecodeError,
    WalDurabilityMode, WalFrame, WalManifest, WalRecordKind, WalRecoveryError, WalSegmentId,
    WalStoreError, WalStorePort, WalTransactionBuilder, WalTransactionCommit, WalTransactionId,
    WalTransactionKind, WalValidationError,
};
use warp_core::{
    make_head_id, make_intent_kind, make_node_id, make_type_id, ContractMutationHandler,
    ContractPackageIdentity, EngineBuilder, GraphStore, GraphView, Hash, InboxPolicy,
    IngressEnvelope, IngressTarget, IntentOutcome, NodeId, NodeRecord, PatternGraph, PlaybackMode,
    SchedulerKind, TickDelta, TrustedRuntimeHost, TrustedRuntimeHostError, TrustedRuntimeWalConfig,
    TrustedRuntimeWalError, WarpOp, WorldlineId, WorldlineRuntime, WorldlineState, WriterHead,
    WriterHeadKey,
};

// ------------------------------------------------------------------------------------------------
// small helpers

fn digest(label: &str) -> Hash {
    blake3::hash(label.as_bytes()).into()
}

fn fnv64(s: &str) -> u64 {
    let mut h: u64 = 0xcbf29ce484222325;
    for b in s.as_bytes() {
        h ^= *b as u64;
        h = h.wrapping_mul(0x100000001b3);
    }
    h
}

static mut SCRATCH_N: u64 = 0;
fn scratch(tag: &str) -> PathBuf {
    let exe = std::env::args().next().unwrap_or_default();
    let bin = Path::new(&exe).file_name().and_then(|s| s.to_str()).unwrap_or("c10").to_string();
    let n = unsafe {
        SCRATCH_N += 1;
        SCRATCH_N
    };
    let p = PathBuf::from(format!("/tmp/{}-{}-{}-{}", bin, std::process::id(), tag, n));
    let _ = fs::remove_dir_all(&p);
    fs::create_dir_all(&p).expect("scratch dir");
    p
}

fn seg_path(root: &Path) -> PathBuf {
    canonical_segment_path(root, WalSegmentId::from_raw(1))
}
fn ledger_path(root: &Path) -> PathBuf {
    root.join("writer-epochs.ecwal")
}

/// Copies a WAL root (segment 1 + ledger [+ manifest]) with the segment replaced by `seg`.
fn make_root(dst: &Path, seg: &[u8], ledger: Option<&[u8]>, manifest: Option<&[u8]>) {
    let _ = fs::remove_dir_all(dst);
    fs::create_dir_all(dst.join("segments")).expect("mkdir");
    fs::write(seg_path(dst), seg).expect("write seg");
    if let Some(l) = ledger {
        fs::write(ledger_path(dst), l).expect("write ledger");
    }
    if let Some(m) = manifest {
        fs::write(dst.join("manifest.ecwal"), m).expect("write manifest");
    }
}

fn val_class(e: &WalValidationError) -> &'static str {
    use WalValidationError::*;
    match e {
        RecordKindMismatch => "val.kind",
        PayloadDigestMismatch => "val.payload_digest",
        HeaderChecksumMismatch => "val.header_checksum",
        FrameChecksumMismatch => "val.frame_checksum",
        EmptyTransaction => "val.empty",
        TransactionIdMismatch => "val.txid",
        WriterEpochMismatch => "val.epoch",
        TransactionLocalIndexMismatch => "val.local_index",
        LsnContinuityMismatch => "val.lsn",
        FirstLsnMismatch => "val.first_lsn",
        LastLsnMismatch => "val.last_lsn",
        RecordCountMismatch => "val.count",
        RecordsRootMismatch => "val.root",
        AffectedFrontiersRootMismatch => "val.frontiers_root",
        CommitDigestMismatch => "val.commit_digest",
        _ => "val.other",
    }
}
fn store_class(e: &WalStoreError) -> String {
    match e {
        WalStoreError::SegmentRecordDigestMismatch => "store.digest".into(),
        WalStoreError::UnknownDiskRecordKind(_) => "store.unknown_kind".into(),
        WalStoreError::Decode(d) => match d {
            WalDecodeError::UnexpectedEof => "decode.eof".into(),
            WalDecodeError::TrailingBytes => "decode.trailing".into(),
            WalDecodeError::UnknownEnumCode { .. } => "decode.enum".into(),
            WalDecodeError::InvalidEmbeddedFrame => "decode.embedded".into(),
            _ => "decode.other".into(),
        },
        WalStoreError::SegmentMismatch { .. } => "store.segment_mismatch".into(),
        WalStoreError::Validation(v) => val_class(v).into(),
        WalStoreError::MissingWriterEpochLedger => "store.ledger_missing".into(),
        WalStoreError::WriterEpochLedgerDigestMismatch => "store.ledger_digest".into(),
        WalStoreError::UnknownPreviousWriterEpoch => "store.unknown_epoch".into(),
        WalStoreError::WriterEpochChainGap => "store.epoch_chain".into(),
        WalStoreError::WriterEpochFinalCommitDigestMismatch => "store.epoch_final_digest".into(),
        WalStoreError::WriterEpochLsnRegression => "store.epoch_lsn".into(),
        WalStoreError::WriterEpochFencingMismatch => "store.epoch_fencing".into(),
        WalStoreError::Io(_) => "store.io".into(),
        other => format!("store.other[{}]", format!("{other:?}").split(|c: char| !c.is_alphanumeric()).next().unwrap_or("")),
    }
}
fn rec_class(e: &WalRecoveryError) -> String {
    match e {
        WalRecoveryError::Validation(v) => val_class(v).into(),
        WalRecoveryError::Store(s) => store_class(s),
        WalRecoveryError::Index(_) => "index".into(),
    }
}

fn tail_str(t: RecoveryTailPosture) -> String {
    match t {
        RecoveryTailPosture::Clean => "C".into(),
        RecoveryTailPosture::TruncatedAll | RecoveryTailPosture::WouldTruncateAll => "N".into(),
        RecoveryTailPosture::TruncatedAfter(l) | RecoveryTailPosture::WouldTruncateAfter(l) => {
            format!("A{}", l.as_u64())
        }
    }
}

fn tx_string(c: &WalTransactionCommit, nframes: usize) -> String {
    format!(
        "{}:{}:{}:{}:{}",
        hex::encode(c.transaction_id.as_hash()),
        hex::encode(c.commit_digest),
        c.first_lsn.as_u64(),
        c.last_lsn.as_u64(),
        nframes
    )
}
fn report_txs(r: &RecoveryScanReport) -> Vec<String> {
    r.transactions.iter().map(|t| tx_string(&t.commit, t.frames.len())).collect()
}
fn report_res(r: &Result<RecoveryScanReport, WalRecoveryError>) -> String {
    match r {
        Ok(rep) => {
            let txs = report_txs(rep);
            format!("ok/{}/{}/{:016x}", txs.len(), tail_str(rep.tail_posture), fnv64(&txs.join(";")))
        }
        Err(e) => format!("err/{}", rec_class(e)),
    }
}

fn rle(v: &[String]) -> String {
    let mut out = Vec::new();
    let mut i = 0;
    while i < v.len() {
        let mut j = i;
        while j + 1 < v.len() && v[j + 1] == v[i] {
            j += 1;
        }
        out.push(format!("{}-{}={}", i, j, v[i]));
        i = j + 1;
    }
    if out.is_empty() {
        "-".into()
    } else {
        out.join(",")
    }
}

/// Offsets (exclusive ends) of the well-formed disk records of a segment, parsed independently
/// of warp-core (framing only: magic(8) kind(1) len(8 LE) payload digest(32)).
fn record_ends(seg: &[u8]) -> Vec<(usize, u8)> {
    let mut v = Vec::new();
    let mut o = 0usize;
    while o + 17 <= seg.len() {
        let kind = seg[o + 8];
        let mut l = [0u8; 8];
        l.copy_from_slice(&seg[o + 9..o + 17]);
        let n = u64::from_le_bytes(l) as usize;
        let Some(end) = o.checked_add(17).and_then(|x| x.checked_add(n)).and_then(|x| x.checked_add(32)) else { break };
        if end > seg.len() {
            break;
        }
        v.push((end, kind));
        o = end;
    }
    v
}

// ------------------------------------------------------------------------------------------------
// store-level workload: real FilesystemWalStore + real transaction builders

#[derive(Clone)]
struct Cursor {
    next_lsn: u64,
    prev_frame: Hash,
    prev_commit: Hash,
}

struct StoreRun {
    root: PathBuf,
    store: FilesystemWalStore,
    epoch: warp_core::causal_wal::WriterEpochId,
    cur: Cursor,
    /// after every operation: (segment length, ledger bytes, number of acknowledged transactions)
    snaps: Vec<(usize, Vec<u8>, usize)>,
    acked: Vec<String>,
    chain_const: bool,
}

fn kinds_for(txk: u8) -> (WalTransactionKind, WalAppendAuthority, Vec<WalRecordKind>, Vec<AffectedFrontierKind>) {
    match txk % 3 {
        0 => (
            WalTransactionKind::SubmissionIntake,
            WalAppendAuthority::SubmissionIntake,
            vec![
                WalRecordKind::SubmissionAcceptedRecorded,
                WalRecordKind::SubmissionAcceptanceEvidenceRecorded,
                WalRecordKind::SubmissionEnvelopeRetained,
            ],
            vec![AffectedFrontierKind::SubmissionQueue],
        ),
        1 => (
            WalTransactionKind::SchedulerTick,
            WalAppendAuthority::TrustedScheduler,
            vec![
                WalRecordKind::TickReceiptRecorded,
                WalRecordKind::RuntimeStateDeltaRecorded,
                WalRecordKind::ReceiptCorrelationRecorded,
            ],
            vec![AffectedFrontierKind::ReceiptIndex, AffectedFrontierKind::RuntimeState],
        ),
        _ => (
            WalTransactionKind::TopologyIntent,
            WalAppendAuthority::TrustedScheduler,
            vec![
                WalRecordKind::TopologyStrandForkRecorded,
                WalRecordKind::TopologyStrandDropRecorded,
                WalRecordKind::TopologyBraidEventRecorded,
            ],
            vec![AffectedFrontierKind::TopologyIndex],
        ),
    }
}

impl StoreRun {
    fn open(root: PathBuf, chain_const: bool) -> Result<Self, String> {
        let mut store = FilesystemWalStore::open(&root, WalSegmentId::from_raw(1)).map_err(|e| store_class(&e))?;
        let report = recover_filesystem_store(&root, RecoveryAccessMode::Writable).map_err(|e| rec_class(&e))?;
        let mut cur = Cursor { next_lsn: 0, prev_frame: digest("prev-frame:genesis"), prev_commit: digest("prev-commit:genesis") };
        let mut acked = Vec::new();
        for t in &report.transactions {
            cur.next_lsn = t.commit.last_lsn.as_u64() + 1;
            cur.prev_commit = t.commit.commit_digest;
            if let Some(f) = t.frames.last() {
                cur.prev_frame = f.digest();
            }
            acked.push(tx_string(&t.commit, t.frames.len()));
        }
        let ep = store.acquire_fresh_writer_epoch(Lsn::from_raw(cur.next_lsn)).map_err(|e| store_class(&e))?;
        cur.next_lsn = ep.started_at_lsn.as_u64();
        let mut s = StoreRun { root, store, epoch: ep.epoch_id, cur, snaps: Vec::new(), acked, chain_const };
        s.snap();
        Ok(s)
    }
    fn snap(&mut self) {
        let seg = fs::read(seg_path(&self.root)).unwrap_or_default();
        let led = fs::read(ledger_path(&self.root)).unwrap_or_default();
        self.snaps.push((seg.len(), led, self.acked.len()));
    }
    fn build(&self, label: &str, txk: u8, nframes: usize, pay: &[usize], rng: &mut Rng) -> WalCommittedTransaction {
        let (kind, auth, rks, fks) = kinds_for(txk);
        let (pf, pc) = if self.chain_const {
            (digest("previous-frame"), digest("previous-commit"))
        } else {
            (self.cur.prev_frame, self.cur.prev_commit)
        };
        let mut b = WalTransactionBuilder::new(
            self.epoch,
            WalSegmentId::from_raw(1),
            WalTransactionId::from_hash(digest(&format!("tx:{label}"))),
            kind,
            auth,
            Lsn::from_raw(self.cur.next_lsn),
            pf,
            pc,
            WalDurabilityMode::StrictFilesystem,
            PayloadCodecId::from_hash(digest("codec")),
            PayloadSchemaId::from_hash(digest("schema")),
            1,
            1,
            digest("domain"),
        );
        for i in 0..nframes.max(1) {
            let n = pay[i % pay.len()];
            let bytes: Vec<u8> = (0..n).map(|_| rng.next() as u8).collect();
            b.push_record(rks[i % rks.len()], bytes).expect("push_record");
        }
        let fr: Vec<AffectedFrontier> = fks
            .iter()
            .map(|k| AffectedFrontier { kind: *k, before_digest: digest(&format!("{label}:before")), after_digest: digest(&format!("{label}:after")) })
            .collect();
        b.commit(fr).expect("commit")
    }
    fn append(&mut self, tx: WalCommittedTransaction) -> Result<(), WalStoreError> {
        let commit = tx.commit.clone();
        let nframes = tx.frames.len();
        let last = tx.frames.last().map(WalFrame::digest);
        let r = self.store.append_transaction(tx);
        if r.is_ok() {
            self.cur.next_lsn = commit.last_lsn.as_u64() + 1;
            self.cur.prev_commit = commit.commit_digest;
            if let Some(d) = last {
                self.cur.prev_frame = d;
            }
            self.acked.push(tx_string(&commit, nframes));
        }
        self.snap();
        r
    }
}

struct StoreLog {
    seg: Vec<u8>,
    ledger: Vec<u8>,
    snaps: Vec<(usize, Vec<u8>, usize)>,
    txs: Vec<String>,
    txv: Vec<WalCommittedTransaction>,
}

/// shape = frames per transaction, pay = payload sizes cycled over frames.
fn build_store_log(seed: u64, shape: &[usize], pay: &[usize], chain_const: bool, reopen_at: &[usize]) -> Result<StoreLog, String> {
    let root = scratch("store");
    let mut rng = Rng(seed);
    let mut run = StoreRun::open(root.clone(), chain_const)?;
    let mut txv = Vec::new();
    let mut all_snaps: Vec<(usize, Vec<u8>, usize)> = Vec::new();
    for (i, nf) in shape.iter().enumerate() {
        if reopen_at.contains(&i) {
            all_snaps.extend(run.snaps.drain(..));
            drop(run);
            run = StoreRun::open(root.clone(), chain_const)?;
        }
        let tx = run.build(&format!("{seed}:{i}"), (seed as u8).wrapping_add(i as u8), *nf, pay, &mut rng);
        txv.push(tx.clone());
        run.append(tx).map_err(|e| format!("append:{}", store_class(&e)))?;
    }
    all_snaps.extend(run.snaps.drain(..));
    let seg = fs::read(seg_path(&root)).map_err(|e| e.to_string())?;
    let ledger = fs::read(ledger_path(&root)).map_err(|e| e.to_string())?;
    let txs = run.acked.clone();
    drop(run);
    let _ = fs::remove_dir_all(&root);
    Ok(StoreLog { seg, ledger, snaps: all_snaps, txs, txv })
}

/// Ledger versions that can coexist with a segment of length k (see props/c10.py for the argument).
fn ledgers_for(snaps: &[(usize, Vec<u8>, usize)], k: usize) -> Vec<(Vec<u8>, usize)> {
    let mut out: Vec<(Vec<u8>, usize)> = Vec::new();
    let mut j = 0;
    for (i, s) in snaps.iter().enumerate() {
        if s.0 <= k {
            j = i;
        }
    }
    out.push((snaps[j].1.clone(), snaps[j].2));
    if j > 0 && snaps[j].0 == k && snaps[j - 1].1 != snaps[j].1 {
        // the commit marker is durable, the ledger rewrite that follows it is not yet
        out.push((snaps[j - 1].1.clone(), snaps[j].2));
    }
    out
}

fn run_store(m: &BTreeMap<String, String>) -> String {
    let seed: u64 = m.get("seed").and_then(|s| s.parse().ok()).unwrap_or(1);
    let shape: Vec<usize> = m.get("shape").map(|s| s.split(',').filter_map(|x| x.parse().ok()).collect()).unwrap_or_else(|| vec![1, 2]);
    let pay: Vec<usize> = m.get("pay").map(|s| s.split(',').filter_map(|x| x.parse().ok()).collect()).unwrap_or_else(|| vec![4]);
    let reopen: Vec<usize> = m.get("reopen").map(|s| s.split(',').filter_map(|x| x.parse().ok()).collect()).unwrap_or_default();
    let fsmode = m.get("fs").map(String::as_str).unwrap_or("all");
    let log = match build_store_log(seed, &shape, &pay, false, &reopen) {
        Ok(l) => l,
        Err(e) => return format!("build=FAIL:{e} oracle=FAIL:wal:workload-build-failed[{e}]"),
    };
    let seg = &log.seg;
    let ends = record_ends(seg);
    let commit_ends: Vec<usize> = ends.iter().filter(|(_, k)| *k == 2).map(|(e, _)| *e).collect();
    let mut fails: Vec<String> = Vec::new();
    let mut pref = Vec::with_capacity(seg.len() + 1);
    let mut fsres = Vec::with_capacity(seg.len() + 1);
    let mut fs_checked = 0usize;
    let dir = scratch("crash");
    for k in 0..=seg.len() {
        let expect_n = commit_ends.iter().filter(|e| **e <= k).count();
        // layer 1: pure bytes
        let r1 = recover_wal_segment_bytes(WalSegmentId::from_raw(1), &seg[..k], RecoveryAccessMode::ReadOnly).map(|r| r.report);
        let s1 = report_res(&r1);
        match &r1 {
            Ok(rep) => {
                let got = report_txs(rep);
                if got.len() != expect_n || got[..] != log.txs[..expect_n.min(log.txs.len())] {
                    fails.push(format!("wal:prefix-recovery-not-committed-prefix[k={k},got={},want={expect_n}]", got.len()));
                }
                let on_boundary = k == 0 || ends.iter().any(|(e, _)| *e == k);
                let last_end_is_commit = k == 0 || ends.iter().rev().find(|(e, _)| *e <= k).map(|(_, kd)| *kd == 2).unwrap_or(true);
                let clean = on_boundary && last_end_is_commit;
                if clean != matches!(rep.tail_posture, RecoveryTailPosture::Clean) {
                    fails.push(format!("wal:tail-posture-wrong[k={k}]"));
                }
            }
            Err(e) => fails.push(format!("wal:prefix-recovery-error[k={k},{}]", rec_class(e))),
        }
        pref.push(s1.clone());
        // layer 2/3: filesystem store on a truncated copy with every coexisting ledger version
        let do_fs = match fsmode {
            "none" => false,
            "all" => true,
            _ => k % 7 == 0 || ends.iter().any(|(e, _)| (*e as i64 - k as i64).abs() <= 2),
        };
        if do_fs {
            let mut agg = Vec::new();
            for (led, _) in ledgers_for(&log.snaps, k) {
                fs_checked += 1;
                make_root(&dir, &seg[..k], Some(&led), None);
                let ro = recover_filesystem_store(&dir, RecoveryAccessMode::ReadOnly);
                let sro = report_res(&ro);
                if sro != s1 {
                    fails.push(format!("wal:fs-recovery-differs-from-bytes[k={k},{sro},{s1}]"));
                }
                let rw = recover_filesystem_store(&dir, RecoveryAccessMode::Writable);
                let srw = report_res(&rw);
                if srw != s1 {
                    fails.push(format!("wal:fs-writable-recovery-differs[k={k},{srw}]"));
                }
                // idempotence: recovering the repaired store gives the same transactions, clean tail
                let again = recover_filesystem_store(&dir, RecoveryAccessMode::ReadOnly);
                match (&rw, &again) {
                    (Ok(a), Ok(b)) => {
                        if report_txs(a) != report_txs(b) || !matches!(b.tail_posture, RecoveryTailPosture::Clean) {
                            fails.push(format!("wal:recovery-not-idempotent[k={k}]"));
                        }
                    }
                    (Ok(_), Err(e)) => fails.push(format!("wal:recovery-not-idempotent[k={k},second={}]", rec_class(e))),
                    _ => {}
                }
                // continue: reopen as a writer, append one more transaction, recover again
                match StoreRun::open(dir.clone(), false) {
                    Ok(mut run) => {
                        if run.acked[..] != log.txs[..expect_n] {
                            fails.push(format!("wal:reopen-cursor-not-committed-prefix[k={k}]"));
                        }
                        let mut rng = Rng(seed ^ 0x5eed);
                        let tx = run.build(&format!("cont:{k}"), 1, 2, &[3], &mut rng);
                        match run.append(tx) {
                            Ok(()) => {
                                let want = run.acked.clone();
                                drop(run);
                                match recover_filesystem_store(&dir, RecoveryAccessMode::ReadOnly) {
                                    Ok(rep) => {
                                        if report_txs(&rep) != want || !matches!(rep.tail_posture, RecoveryTailPosture::Clean) {
                                            fails.push(format!("wal:continue-after-recovery-lost-history[k={k}]"));
                                        }
                                    }
                                    Err(e) => fails.push(format!("wal:continue-after-recovery-unrecoverable[k={k},{}]", rec_class(&e))),
                                }
                            }
                            Err(e) => fails.push(format!("wal:append-after-recovery-failed[k={k},{}]", store_class(&e))),
                        }
                    }
                    Err(e) => fails.push(format!("wal:reopen-after-crash-failed[k={k},{e}]")),
                }
                agg.push(sro);
            }
            agg.dedup();
            fsres.push(agg.join("|"));
        } else {
            fsres.push("skip".into());
        }
    }
    let _ = fs::remove_dir_all(&dir);
    let fs_same = fsres.iter().zip(pref.iter()).all(|(a, b)| a == b || a == "skip");
    fails.sort();
    fails.dedup_by_key(|f| f.split('[').next().unwrap_or("").to_string());
    format!(
        "len={} seg={} ends={} txs={} pref={} fs={} fschecked={} oracle={}",
        seg.len(),
        tohex(seg),
        ends.iter().map(|(e, k)| format!("{e}:{k}")).collect::<Vec<_>>().join(","),
        if log.txs.is_empty() { "-".into() } else { log.txs.join(";") },
        rle(&pref),
        if fs_same { "same".to_string() } else { rle(&fsres) },
        fs_checked,
        if fails.is_empty() { "ok".into() } else { format!("FAIL:{}", fails.join(",")) }
    )
}

// ------------------------------------------------------------------------------------------------
// raw bytes: recover a given byte string (model correspondence on arbitrary / damaged input)

fn run_bytes(m: &BTreeMap<String, String>) -> String {
    let seg = unhex(m.get("seg").map(String::as_str).unwrap_or("-"));
    let sid: u64 = m.get("sid").and_then(|s| s.parse().ok()).unwrap_or(1);
    let r = recover_wal_segment_bytes(WalSegmentId::from_raw(sid), &seg, RecoveryAccessMode::ReadOnly).map(|r| r.report);
    let txs = match &r {
        Ok(rep) => report_txs(rep).join(";"),
        Err(_) => String::new(),
    };
    format!("res={} txs={} oracle=ok", report_res(&r), if txs.is_empty() { "-".into() } else { txs })
}

// ------------------------------------------------------------------------------------------------
// host-level workload: real TrustedRuntimeHost over the filesystem WAL

const SCHEMA_SHA256_HEX: &str = "0123456789abcdef0123456789abcdef0123456789abcdef0123456789abcdef";
const MUTATION_OP_ID: u32 = 6001;
const RESULT_TYPE: &str = "verif/c10/result";
const MUTATION_RULE_NAME: &str =
    "cmd/contract/0123456789abcdef0123456789abcdef0123456789abcdef0123456789abcdef/6001/increment";
const MUTATION_RULE_ID_LABEL: &str =
    "rule:cmd/contract/0123456789abcdef0123456789abcdef0123456789abcdef0123456789abcdef/6001/increment";

static INCREMENT_ARGS: &[ArgDef] = &[ArgDef { name: "input", ty: "IncrementInput", required: true, list: false }];
static OPS: &[OpDef] = &[OpDef {
    kind: OpKind::Mutation,
    name: "increment",
    op_id: MUTATION_OP_ID,
    args: INCREMENT_ARGS,
    result_ty: "CounterValue",
    directives_json: "{}",
    footprint_certificate: None,
}];
struct StaticRegistry;
impl RegistryProvider for StaticRegistry {
    fn info(&self) -> RegistryInfo {
        RegistryInfo {
            echo_abi_version: 1,
            codec_id: "cbor-canon-v1",
            registry_version: 1,
            schema_sha256_hex: SCHEMA_SHA256_HEX,
            wesley_generator_version: "echo-wesley-gen/0.1.0",
            helper_api_version: 1,
        }
    }
    fn op_by_id(&self, op_id: u32) -> Option<&'static OpDef> {
        OPS.iter().find(|op| op.op_id == op_id)
    }
    fn all_ops(&self) -> &'static [OpDef] {
        OPS
    }
    fn all_enums(&self) -> &'static [echo_registry_api::EnumDef] {
        &[]
    }
    fn all_objects(&self) -> &'static [ObjectDef] {
        &[]
    }
}

fn result_node_id(scope: &NodeId) -> NodeId {
    let mut hasher = blake3::Hasher::new();
    hasher.update(b"verif.c10.result-node");
    hasher.update(scope.as_bytes());
    NodeId(hasher.finalize().into())
}
fn vars_ok(v: Option<&[u8]>) -> bool {
    v.map(|b| b.starts_with(b"amount=")).unwrap_or(false)
}
fn contract_execute(view: GraphView<'_>, scope: &NodeId, delta: &mut TickDelta) {
    let vars = warp_core::eint_vars_for_op(view, scope, MUTATION_OP_ID);
    if !vars_ok(vars) {
        return;
    }
    let bytes = vars.unwrap_or(b"").to_vec();
    let warp_id = view.warp_id();
    let result = result_node_id(scope);
    delta.push(WarpOp::UpsertNode {
        node: warp_core::NodeKey { warp_id, local_id: result },
        record: NodeRecord { ty: make_type_id(RESULT_TYPE) },
    });
    delta.push(WarpOp::SetAttachment {
        key: warp_core::AttachmentKey::node_alpha(warp_core::NodeKey { warp_id, local_id: result }),
        value: Some(warp_core::AttachmentValue::Atom(warp_core::AtomPayload::new(
            make_type_id(RESULT_TYPE),
            bytes::Bytes::from(bytes),
        ))),
    });
}
fn contract_matches(view: GraphView<'_>, scope: &NodeId) -> bool {
    vars_ok(warp_core::eint_vars_for_op(view, scope, MUTATION_OP_ID))
}
fn contract_footprint(view: GraphView<'_>, scope: &NodeId) -> warp_core::Footprint {
    let mut footprint = warp_core::runtime_ingress_eint_read_footprint(view, scope);
    let warp_id = view.warp_id();
    let result = result_node_id(scope);
    footprint.n_write.insert_with_warp(warp_id, result);
    footprint.a_write.insert(warp_core::AttachmentKey::node_alpha(warp_core::NodeKey { warp_id, local_id: result }));
    footprint
}
fn contract_rule() -> warp_core::RewriteRule {
    warp_core::RewriteRule {
        id: make_type_id(MUTATION_RULE_ID_LABEL).0,
        name: MUTATION_RULE_NAME,
        left: PatternGraph { nodes: vec![] },
        matcher: contract_matches,
        executor: contract_execute,
        compute_footprint: contract_footprint,
        factor_mask: 0,
        conflict_policy: warp_core::ConflictPolicy::Abort,
        join_fn: None,
    }
}
fn package() -> warp_core::InstalledContractPackage<'static> {
    static REGISTRY: StaticRegistry = StaticRegistry;
    warp_core::InstalledContractPackage {
        identity: ContractPackageIdentity {
            package_name: "verif-counter",
            package_version: "0.1.0",
            artifact_hash_hex: "bbbbbbbbbbbbbbbbbbbbbbbbbbbbbbbbbbbbbbbbbbbbbbbbbbbbbbbbbbbbbbbb",
        },
        registry: &REGISTRY,
        verification_policy: ContractArtifactVerificationPolicy {
            echo_abi_version: 1,
            codec_id: "cbor-canon-v1",
            registry_version: 1,
            schema_sha256_hex: SCHEMA_SHA256_HEX,
            wesley_generator_version: "echo-wesley-gen/0.1.0",
            helper_api_version: 1,
            footprint_certificates: &[],
            require_mutation_footprint_certificates: false,
        },
        mutation_handlers: vec![ContractMutationHandler { op_id: MUTATION_OP_ID, rule: contract_rule() }],
        inverse_handlers: vec![],
        query_observers: vec![],
    }
}
fn empty_engine() -> warp_core::Engine {
    let mut store = GraphStore::default();
    let root = make_node_id("root");
    store.insert_node(root, NodeRecord { ty: make_type_id("world") });
    EngineBuilder::new(store, root).scheduler(SchedulerKind::Radix).workers(1).build()
}
fn wl() -> WorldlineId {
    WorldlineId::from_bytes([1; 32])
}
fn fresh_runtime() -> WorldlineRuntime {
    let mut runtime = WorldlineRuntime::new();
    runtime.register_worldline(wl(), WorldlineState::empty()).expect("worldline");
    runtime
        .register_writer_head(WriterHead::with_routing(
            WriterHeadKey { worldline_id: wl(), head_id: make_head_id("default") },
            PlaybackMode::Play,
            InboxPolicy::AcceptAll,
            None,
            true,
        ))
        .expect("head");
    runtime
}
fn envelope(i: usize) -> IngressEnvelope {
    IngressEnvelope::local_intent(
        IngressTarget::DefaultWriter { worldline_id: wl() },
        make_intent_kind("echo.intent/eint-v1"),
        echo_wasm_abi::pack_intent_v1(MUTATION_OP_ID, format!("amount={i}").as_bytes()).expect("pack"),
    )
}

fn host_err(e: &TrustedRuntimeHostError) -> String {
    match e {
        TrustedRuntimeHostError::Wal(w) => match w {
            TrustedRuntimeWalError::Recovery(r) => format!("wal.recovery.{}", rec_class(r)),
            TrustedRuntimeWalError::Store(s) => format!("wal.store.{}", store_class(s)),
            other => {
                let d = format!("{other:?}");
                format!("wal.{}", d.split(|c: char| !c.is_alphanumeric()).next().unwrap_or("other"))
            }
        },
        other => {
            let d = format!("{other:?}");
            format!("host.{}", d.split(|c: char| !c.is_alphanumeric()).next().unwrap_or("other"))
        }
    }
}

fn open_host(root: &Path, plan: Option<FilesystemWalFaultPlan>) -> Result<TrustedRuntimeHost, String> {
    let mut host = TrustedRuntimeHost::new(fresh_runtime(), empty_engine()).map_err(|e| host_err(&e))?;
    let cfg = match plan {
        Some(p) => TrustedRuntimeWalConfig::filesystem_with_fault_plan_for_test(root, p),
        None => TrustedRuntimeWalConfig::filesystem(root),
    };
    host.enable_runtime_wal(cfg).map_err(|e| host_err(&e))?;
    host.register_contract_package(package()).map_err(|e| format!("register:{e:?}"))?;
    Ok(host)
}

/// What a host exposes that the property talks about.
#[derive(Clone, PartialEq, Eq, Debug)]
struct Obs {
    /// submission index -> (submission id, outcome with the non-durable staging detail removed)
    subs: BTreeMap<usize, (Hash, String)>,
    state_root: Hash,
    frontier_tick: u64,
    global_tick: u64,
    committed: usize,
}

fn outcome_canon(o: &IntentOutcome) -> String {
    match o {
        IntentOutcome::Pending { submission_id, submission_generation, .. } => {
            format!("pending:{}:{:?}", hex::encode(submission_id), submission_generation)
        }
        other => format!("{other:?}"),
    }
}

fn observe(host: &mut TrustedRuntimeHost, ids: &BTreeMap<usize, Hash>) -> Result<Obs, String> {
    let mut subs = BTreeMap::new();
    for (i, id) in ids {
        if host.runtime().witnessed_submission(id).is_some() {
            let o = host.app().observe_intent_outcome(id);
            subs.insert(*i, (*id, outcome_canon(&o)));
        }
    }
    let frontier = host.runtime().worldlines().get(&wl()).ok_or("no worldline")?;
    let state_root = frontier.state().state_root();
    let frontier_tick = frontier.frontier_tick().as_u64();
    let global_tick = host.runtime().global_tick().as_u64();
    let committed = host
        .runtime_wal()
        .ok_or("no wal")?
        .recover_read_only()
        .map_err(|e| format!("recover_read_only:{e:?}"))?
        .certificate
        .committed_transactions_replayed as usize;
    Ok(Obs { subs, state_root, frontier_tick, global_tick, committed })
}

#[derive(Clone, Debug)]
enum Op {
    Submit(usize),
    Stage(usize),
    Tick,
    Reopen,
    Fault(FilesystemWalFaultTarget),
}
fn parse_ops(s: &str) -> Vec<Op> {
    s.split(',')
        .filter(|t| !t.is_empty())
        .map(|t| {
            let (h, r) = t.split_at(1);
            match h {
                "s" => Op::Submit(r.parse().unwrap_or(0)),
                "g" => Op::Stage(r.parse().unwrap_or(0)),
                "t" => Op::Tick,
                "R" => Op::Reopen,
                "F" => Op::Fault(match r {
                    "a" => FilesystemWalFaultTarget::AppendFrame,
                    "f" => FilesystemWalFaultTarget::FlushCommit,
                    "c" => FilesystemWalFaultTarget::CommitMarkerSynced,
                    _ => FilesystemWalFaultTarget::PublishManifest,
                }),
                _ => Op::Tick,
            }
        })
        .collect()
}

struct HostRun {
    root: PathBuf,
    host: Option<TrustedRuntimeHost>,
    ids: BTreeMap<usize, Hash>,
    /// what the caller was told: submission index acknowledged / tick published
    acked: BTreeMap<usize, Hash>,
    log: Vec<String>,
}
impl HostRun {
    fn apply(&mut self, op: &Op) -> Result<(), String> {
        match op {
            Op::Submit(i) => {
                let host = self.host.as_mut().ok_or("closed")?;
                match host.app().submit_intent_with_runtime_wal_ack(envelope(*i)) {
                    Ok(h) => {
                        self.ids.insert(*i, h.submission_id);
                        self.acked.insert(*i, h.submission_id);
                        self.log.push(format!("s{i}:{}", if h.duplicate { "dup" } else { "ack" }));
                    }
                    Err(e) => self.log.push(format!("s{i}:err.{}", host_err(&e))),
                }
            }
            Op::Stage(i) => {
                let host = self.host.as_mut().ok_or("closed")?;
                if let Some(id) = self.ids.get(i).copied() {
                    match host.admit_installed_contract_submission(id) {
                        Ok(_) => self.log.push(format!("g{i}:ok")),
                        Err(e) => self.log.push(format!("g{i}:err.{}", format!("{e:?}").split(|c: char| !c.is_alphanumeric()).next().unwrap_or("x"))),
                    }
                } else {
                    self.log.push(format!("g{i}:skip"));
                }
            }
            Op::Tick => {
                let host = self.host.as_mut().ok_or("closed")?;
                match host.run_until_idle(6) {
                    Ok(r) => self.log.push(format!("t:{}", r.committed_steps)),
                    Err(e) => self.log.push(format!("t:err.{}", host_err(&e))),
                }
            }
            Op::Reopen => {
                self.host = None;
                self.host = Some(open_host(&self.root, None)?);
                self.log.push("R:ok".into());
            }
            Op::Fault(t) => {
                let host = self.host.as_mut().ok_or("closed")?;
                host.inject_runtime_wal_filesystem_fault_for_test(FilesystemWalFaultPlan::fail_next(*t))
                    .map_err(|e| host_err(&e))?;
                self.log.push(format!("F:{t:?}"));
            }
        }
        Ok(())
    }
}

fn run_host(m: &BTreeMap<String, String>) -> String {
    let ops = parse_ops(m.get("ops").map(String::as_str).unwrap_or("s0,g0,t"));
    let stride: usize = m.get("stride").and_then(|s| s.parse().ok()).unwrap_or(1);
    let cont = m.get("cont").map(String::as_str).unwrap_or("bound");
    let root = scratch("host");
    let mut fails: Vec<String> = Vec::new();
    let host = match open_host(&root, None) {
        Ok(h) => h,
        Err(e) => return format!("oracle=FAIL:wal:host-open-failed[{e}]"),
    };
    let mut run = HostRun { root: root.clone(), host: Some(host), ids: BTreeMap::new(), acked: BTreeMap::new(), log: Vec::new() };
    // snapshots: (segment length, ledger bytes, observation, acked set)
    let mut snaps: Vec<(usize, Vec<u8>, Obs, BTreeMap<usize, Hash>)> = Vec::new();
    let snap = |run: &mut HostRun| -> Result<(usize, Vec<u8>, Obs, BTreeMap<usize, Hash>), String> {
        let seg = fs::read(seg_path(&run.root)).unwrap_or_default();
        let led = fs::read(ledger_path(&run.root)).unwrap_or_default();
        let ids = run.ids.clone();
        let o = observe(run.host.as_mut().ok_or("closed")?, &ids)?;
        Ok((seg.len(), led, o, run.acked.clone()))
    };
    match snap(&mut run) {
        Ok(s) => snaps.push(s),
        Err(e) => return format!("oracle=FAIL:wal:host-observe-failed[{e}]"),
    }
    for op in &ops {
        if let Err(e) = run.apply(op) {
            fails.push(format!("wal:host-op-failed[{op:?},{e}]"));
            break;
        }
        match snap(&mut run) {
            Ok(s) => snaps.push(s),
            Err(e) => {
                fails.push(format!("wal:host-observe-failed[{e}]"));
                break;
            }
        }
    }
    let final_obs = snaps.last().map(|s| s.2.clone());
    let all_ids = run.ids.clone();
    run.host = None;
    let seg = fs::read(seg_path(&root)).unwrap_or_default();
    let ends = record_ends(&seg);
    // segment lengths must never shrink during an uninterrupted run, except by a repair rewrite
    let mut pref = Vec::new();
    let dir = scratch("hcrash");
    let mut reopened = 0usize;
    let mut continued = 0usize;
    for k in 0..=seg.len() {
        let r1 = recover_wal_segment_bytes(WalSegmentId::from_raw(1), &seg[..k], RecoveryAccessMode::ReadOnly).map(|r| r.report);
        pref.push(report_res(&r1));
        let near = ends.iter().any(|(e, _)| (*e as i64 - k as i64).abs() <= 1) || k == 0;
        if !(k % stride == 0 || near) {
            continue;
        }
        // which snapshot is the durable one at this crash point
        let mut j = 0;
        for (i, s) in snaps.iter().enumerate() {
            if s.0 <= k {
                j = i;
            }
        }
        // a repair rewrite (after an injected fault) may shrink the file; only use monotone histories
        if snaps.iter().take(j + 1).any(|s| s.0 > snaps[j].0) {
            continue;
        }
        let mut variants = vec![snaps[j].1.clone()];
        if j > 0 && snaps[j].0 == k && snaps[j - 1].1 != snaps[j].1 {
            variants.push(snaps[j - 1].1.clone());
        }
        for led in variants {
            make_root(&dir, &seg[..k], Some(&led), None);
            let want = &snaps[j].2;
            let mut host = match open_host(&dir, None) {
                Ok(h) => h,
                Err(e) => {
                    fails.push(format!("wal:host-reopen-after-crash-failed[k={k},{e}]"));
                    continue;
                }
            };
            reopened += 1;
            match observe(&mut host, &all_ids) {
                Ok(got) => {
                    for (i, id) in &snaps[j].3 {
                        if !got.subs.contains_key(i) {
                            fails.push(format!("wal:acked-submission-lost[k={k},s{i},{}]", hex::encode(&id[..4])));
                        }
                    }
                    if got.subs.keys().any(|i| !want.subs.contains_key(i)) {
                        fails.push(format!("wal:uncommitted-submission-visible[k={k}]"));
                    }
                    if got != *want {
                        fails.push(format!(
                            "wal:recovered-host-differs-from-acked-state[k={k},root={},tick={}/{},committed={}/{}]",
                            got.state_root == want.state_root, got.global_tick, want.global_tick, got.committed, want.committed
                        ));
                    }
                }
                Err(e) => fails.push(format!("wal:host-observe-after-crash-failed[k={k},{e}]")),
            }
            // idempotence: a second recovery of the (now repaired) directory sees the same thing
            drop(host);
            let mut host2 = match open_host(&dir, None) {
                Ok(h) => h,
                Err(e) => {
                    fails.push(format!("wal:second-recovery-failed[k={k},{e}]"));
                    continue;
                }
            };
            match observe(&mut host2, &all_ids) {
                Ok(got) => {
                    if got != *want {
                        fails.push(format!("wal:host-recovery-not-idempotent[k={k}]"));
                    }
                }
                Err(e) => fails.push(format!("wal:second-recovery-observe-failed[k={k},{e}]")),
            }
            // continue: retry every submission (duplicates must be recognised), finish the workload
            let do_cont = match cont {
                "none" => false,
                "all" => true,
                _ => near,
            };
            if do_cont {
                continued += 1;
                let mut run2 = HostRun { root: dir.clone(), host: Some(host2), ids: BTreeMap::new(), acked: BTreeMap::new(), log: Vec::new() };
                let mut ok = true;
                for op in ops.iter().filter(|o| !matches!(o, Op::Fault(_))) {
                    if let Err(e) = run2.apply(op) {
                        fails.push(format!("wal:continue-op-failed[k={k},{op:?},{e}]"));
                        ok = false;
                        break;
                    }
                }
                if ok {
                    for (i, id) in &snaps[j].3 {
                        if run2.ids.get(i) != Some(id) {
                            fails.push(format!("wal:retry-not-deduplicated[k={k},s{i}]"));
                        }
                        if !run2.log.iter().any(|l| l == &format!("s{i}:dup")) {
                            fails.push(format!("wal:retry-of-acked-submission-not-duplicate[k={k},s{i}]"));
                        }
                    }
                    let ids2 = run2.ids.clone();
                    match (observe(run2.host.as_mut().unwrap(), &ids2), &final_obs) {
                        (Ok(got), Some(fin)) => {
                            if got.subs != fin.subs || got.state_root != fin.state_root || got.frontier_tick != fin.frontier_tick {
                                fails.push(format!(
                                    "wal:continued-host-diverges[k={k},root={},subs={},log={}]",
                                    got.state_root == fin.state_root,
                                    got.subs == fin.subs,
                                    run2.log.join("/")
                                ));
                            }
                        }
                        (Err(e), _) => fails.push(format!("wal:continue-observe-failed[k={k},{e}]")),
                        _ => {}
                    }
                    // and the continued history must itself be recoverable
                    run2.host = None;
                    if let Err(e) = recover_filesystem_store(&dir, RecoveryAccessMode::ReadOnly) {
                        fails.push(format!("wal:continued-log-unrecoverable[k={k},{}]", rec_class(&e)));
                    }
                }
            }
        }
    }
    let _ = fs::remove_dir_all(&dir);
    let _ = fs::remove_dir_all(&root);
    fails.sort();
    fails.dedup_by_key(|f| f.split('[').next().unwrap_or("").to_string());
    let txs = match recover_wal_segment_bytes(WalSegmentId::from_raw(1), &seg, RecoveryAccessMode::ReadOnly) {
        Ok(r) => report_txs(&r.report).join(";"),
        Err(_) => String::new(),
    };
    format!(
        "len={} seg={} ends={} txs={} pref={} log={} reopened={} continued={} oracle={}",
        seg.len(),
        tohex(&seg),
        ends.iter().map(|(e, k)| format!("{e}:{k}")).collect::<Vec<_>>().join(","),
        if txs.is_empty() { "-".into() } else { txs },
        rle(&pref),
        run.log.join("/"),
        reopened,
        continued,
        if fails.is_empty() { "ok".into() } else { format!("FAIL:{}", fails.join(",")) }
    )
}

// ------------------------------------------------------------------------------------------------
// C11 modes (damage / structural edits) -- filled in below
fn run_c11(mode: &str, _m: &BTreeMap<String, String>) -> String {
    format!("oracle=FAIL:wal:unknown-mode[{mode}]")
}

fn main() {
    for (idx, line) in read_cases().into_iter().enumerate() {
        let m = kv(&line);
        let mode = m.get("mode").cloned().unwrap_or_default();
        let out = match catch(std::panic::AssertUnwindSafe(|| match mode.as_str() {
            "store" => run_store(&m),
            "bytes" => run_bytes(&m),
            "host" => run_host(&m),
            other => run_c11(other, &m),
        })) {
            Ok(s) => s,
            Err(p) => format!("oracle=FAIL:wal:harness-panic[{}]", p.replace(' ', "_").chars().take(160).collect::<String>()),
        };
        println!("case={idx} mode={mode} {out}");
    }
}
