//! Shared engine-tick machinery for the C01 / C02 / C14 harness binaries.
//!
//! Graph spec   g=<item>;...      item: `I<w>.<root>`            root instance w with root node
//!                                       `P<w>.<root>.<pw>.<pn>`   child instance w opened from node (pw,pn) attachment
//!                                       `N<w>.<n>.<ty>`  `E<w>.<e>.<from>.<to>.<ty>`
//!                                       `A<w>.<n>.<hex>` node atom   `B<w>.<e>.<hex>` edge atom
//! Programs     r=<idx>:<ins>,<ins>...;...   (rule idx 0..7)  ins:
//!     [?<tgt>=<hex>| !<tgt>=<hex>|]  guard on the node attachment bytes of tgt (reads it)
//!     sa.<tgt>.<hex|->   set node attachment      un.<n>.<ty>  upsert node     dn.<n>  delete node
//!     ue.<e>.<tgt>.<to>.<ty>  upsert edge         de.<tgt>.<e> delete edge     se.<e>.<hex|-> set edge attachment
//!     rn.<tgt> read node   ra.<tgt> read adjacency (count -> nothing)   ca.<tgt> set attachment of tgt to [#edges_from(scope)]
//!     he.<e> has_edge      re.<e> read edge attachment
//!     xw.<w>.<n> upsert node in ANOTHER warp (violation)   io.<w> emit UpsertWarpInstance (violation)   pn panic after emitting
//!   tgt = `s` (scope) or a node number.
//! Footprint omissions (C14): omit=<idx>:<set>:<key>;...  removes one declared key from rule idx's footprint
use std::collections::{BTreeMap, BTreeSet};
use std::sync::Mutex;

use echo_verif_harness::*;
use warp_core::{
    AtomPayload, AttachmentKey, AttachmentOwner, AttachmentPlane, AttachmentValue, ConflictPolicy, EdgeId,
    EdgeKey, EdgeRecord, Engine, EngineBuilder, Footprint, GraphView, Hash, NodeId, NodeKey, NodeRecord,
    PatternGraph, RewriteRule, SchedulerKind, TickDelta, TickReceiptDisposition, TypeId, WarpId, WarpInstance, WarpOp,
    WarpState,
};

pub fn wid(w: u64) -> WarpId {
    let mut b = [0u8; 32];
    b[24..].copy_from_slice(&w.to_be_bytes());
    WarpId(b)
}
/// node id: first byte = low byte of n (selects the shard), n big-endian at the end (injective)
pub fn nid(n: u64) -> NodeId {
    let mut b = [0u8; 32];
    b[0] = (n & 0xff) as u8;
    b[24..].copy_from_slice(&n.to_be_bytes());
    NodeId(b)
}
pub fn eid(e: u64) -> EdgeId {
    let mut b = [0u8; 32];
    b[0] = 0xee;
    b[24..].copy_from_slice(&e.to_be_bytes());
    EdgeId(b)
}
pub fn tyid(t: u64) -> TypeId {
    let mut b = [0u8; 32];
    b[0] = 0x77;
    b[24..].copy_from_slice(&t.to_be_bytes());
    TypeId(b)
}
fn atom(bytes: &[u8]) -> AttachmentValue {
    AttachmentValue::Atom(AtomPayload::new(tyid(1), bytes::Bytes::copy_from_slice(bytes)))
}

#[derive(Clone, Debug)]
pub enum Tgt {
    Scope,
    Node(u64),
}
impl Tgt {
    fn parse(s: &str) -> Tgt {
        if s == "s" {
            Tgt::Scope
        } else {
            Tgt::Node(s.parse().unwrap())
        }
    }
    fn node(&self, scope: &NodeId) -> NodeId {
        match self {
            Tgt::Scope => *scope,
            Tgt::Node(n) => nid(*n),
        }
    }
}

#[derive(Clone, Debug)]
pub enum Op {
    SetAtt(Tgt, Option<Vec<u8>>),
    UpNode(u64, u64),
    DelNode(u64),
    UpEdge(u64, Tgt, u64, u64),
    DelEdge(Tgt, u64),
    SetEAtt(u64, Option<Vec<u8>>),
    ReadNode(Tgt),
    ReadAdj(Tgt),
    CountAdj(Tgt),
    HasEdge(u64),
    ReadEAtt(u64),
    CrossWarp(u64, u64),
    InstOp(u64),
    /// `op.<n>.<w>`: OpenPortal { RequireExisting } on the alpha slot of node n towards instance w; the slot IS declared in
    /// a_write, so the only thing wrong is that a user rule emits an instance-level op
    OpenExisting(u64, u64),
    Panic,
}

#[derive(Clone, Debug)]
pub struct Ins {
    pub guard: Option<(Tgt, Vec<u8>, bool)>,
    pub op: Op,
}

pub const NRULES: usize = 8;
static PROGRAMS: Mutex<Vec<Vec<Ins>>> = Mutex::new(Vec::new());
static OMIT: Mutex<Vec<(usize, String, String)>> = Mutex::new(Vec::new());

pub fn parse_programs(spec: &str) -> Vec<Vec<Ins>> {
    let mut progs: Vec<Vec<Ins>> = vec![Vec::new(); NRULES];
    for it in items(spec) {
        let (idx, body) = it.split_once(':').unwrap();
        let idx: usize = idx.parse().unwrap();
        for ins in body.split(',').filter(|s| !s.is_empty()) {
            let (guard, rest) = if let Some(r) = ins.strip_prefix('?') {
                let (g, rest) = r.split_once('|').unwrap();
                let (t, h) = g.split_once('=').unwrap();
                (Some((Tgt::parse(t), unhex(h), true)), rest)
            } else if let Some(r) = ins.strip_prefix('!') {
                let (g, rest) = r.split_once('|').unwrap();
                let (t, h) = g.split_once('=').unwrap();
                (Some((Tgt::parse(t), unhex(h), false)), rest)
            } else {
                (None, ins)
            };
            let f: Vec<&str> = rest.split('.').collect();
            let optb = |s: &str| if s == "-" { None } else { Some(unhex(s)) };
            let op = match f[0] {
                "sa" => Op::SetAtt(Tgt::parse(f[1]), optb(f[2])),
                "un" => Op::UpNode(f[1].parse().unwrap(), f[2].parse().unwrap()),
                "dn" => Op::DelNode(f[1].parse().unwrap()),
                "ue" => Op::UpEdge(f[1].parse().unwrap(), Tgt::parse(f[2]), f[3].parse().unwrap(), f[4].parse().unwrap()),
                "de" => Op::DelEdge(Tgt::parse(f[1]), f[2].parse().unwrap()),
                "se" => Op::SetEAtt(f[1].parse().unwrap(), optb(f[2])),
                "rn" => Op::ReadNode(Tgt::parse(f[1])),
                "ra" => Op::ReadAdj(Tgt::parse(f[1])),
                "ca" => Op::CountAdj(Tgt::parse(f[1])),
                "he" => Op::HasEdge(f[1].parse().unwrap()),
                "re" => Op::ReadEAtt(f[1].parse().unwrap()),
                "xw" => Op::CrossWarp(f[1].parse().unwrap(), f[2].parse().unwrap()),
                "io" => Op::InstOp(f[1].parse().unwrap()),
                "op" => Op::OpenExisting(f[1].parse().unwrap(), f[2].parse().unwrap()),
                "pn" => Op::Panic,
                x => panic!("unknown instruction {x}"),
            };
            progs[idx].push(Ins { guard, op });
        }
    }
    progs
}

pub fn install(progs: Vec<Vec<Ins>>, omit: &str) {
    *PROGRAMS.lock().unwrap() = progs;
    let mut o = Vec::new();
    for it in items(omit) {
        let f: Vec<&str> = it.split(':').collect();
        o.push((f[0].parse().unwrap(), f[1].to_string(), f[2].to_string()));
    }
    *OMIT.lock().unwrap() = o;
}

fn program(idx: usize) -> Vec<Ins> {
    PROGRAMS.lock().unwrap().get(idx).cloned().unwrap_or_default()
}

/// A read performed through the view (recorded by the tracing run used as reference in C14).
#[derive(Clone, Debug, PartialEq, Eq)]
pub enum Acc {
    Node(NodeId),
    Adj(NodeId),
    NodeAtt(NodeId),
    EdgeAtt(EdgeId),
    HasEdge(EdgeId),
}

thread_local! {
    static RECORDER: std::cell::RefCell<Option<Vec<Acc>>> = const { std::cell::RefCell::new(None) };
}
fn record(a: Acc) {
    RECORDER.with(|r| {
        if let Some(v) = r.borrow_mut().as_mut() {
            v.push(a);
        }
    });
}

/// Runs rule `idx` at `scope` on an UNGUARDED view and returns (reads in order, emitted ops, panicked).
pub fn trace_run(idx: usize, view: GraphView<'_>, scope: &NodeId) -> (Vec<Acc>, Vec<WarpOp>, bool) {
    RECORDER.with(|r| *r.borrow_mut() = Some(Vec::new()));
    let mut delta = TickDelta::new();
    let res = std::panic::catch_unwind(std::panic::AssertUnwindSafe(|| exec(idx, view, scope, &mut delta)));
    let reads = RECORDER.with(|r| r.borrow_mut().take()).unwrap_or_default();
    (reads, delta.into_ops_unsorted(), res.is_err())
}

fn guard_holds(view: GraphView<'_>, scope: &NodeId, g: &Option<(Tgt, Vec<u8>, bool)>) -> bool {
    match g {
        None => true,
        Some((t, bytes, positive)) => {
            let n = t.node(scope);
            record(Acc::NodeAtt(n));
            let eq = matches!(view.node_attachment(&n), Some(AttachmentValue::Atom(a)) if a.bytes.as_ref() == bytes.as_slice());
            eq == *positive
        }
    }
}

fn exec(idx: usize, view: GraphView<'_>, scope: &NodeId, delta: &mut TickDelta) {
    let w = view.warp_id();
    for ins in program(idx) {
        if !guard_holds(view, scope, &ins.guard) {
            continue;
        }
        match &ins.op {
            Op::SetAtt(t, v) => delta.push(WarpOp::SetAttachment {
                key: AttachmentKey::node_alpha(NodeKey { warp_id: w, local_id: t.node(scope) }),
                value: v.as_ref().map(|b| atom(b)),
            }),
            Op::UpNode(n, ty) => delta.push(WarpOp::UpsertNode {
                node: NodeKey { warp_id: w, local_id: nid(*n) },
                record: NodeRecord { ty: tyid(*ty) },
            }),
            Op::DelNode(n) => delta.push(WarpOp::DeleteNode { node: NodeKey { warp_id: w, local_id: nid(*n) } }),
            Op::UpEdge(e, from, to, ty) => delta.push(WarpOp::UpsertEdge {
                warp_id: w,
                record: EdgeRecord { id: eid(*e), from: from.node(scope), to: nid(*to), ty: tyid(*ty) },
            }),
            Op::DelEdge(from, e) => delta.push(WarpOp::DeleteEdge { warp_id: w, from: from.node(scope), edge_id: eid(*e) }),
            Op::SetEAtt(e, v) => delta.push(WarpOp::SetAttachment {
                key: AttachmentKey::edge_beta(EdgeKey { warp_id: w, local_id: eid(*e) }),
                value: v.as_ref().map(|b| atom(b)),
            }),
            Op::ReadNode(t) => {
                record(Acc::Node(t.node(scope)));
                let _ = view.node(&t.node(scope));
            }
            Op::ReadAdj(t) => {
                record(Acc::Adj(t.node(scope)));
                let _ = view.edges_from(&t.node(scope)).count();
            }
            Op::CountAdj(t) => {
                record(Acc::Adj(*scope));
                let c = view.edges_from(scope).count() as u8;
                delta.push(WarpOp::SetAttachment {
                    key: AttachmentKey::node_alpha(NodeKey { warp_id: w, local_id: t.node(scope) }),
                    value: Some(atom(&[c])),
                });
            }
            Op::HasEdge(e) => {
                record(Acc::HasEdge(eid(*e)));
                let _ = view.has_edge(&eid(*e));
            }
            Op::ReadEAtt(e) => {
                record(Acc::EdgeAtt(eid(*e)));
                let _ = view.edge_attachment(&eid(*e));
            }
            Op::CrossWarp(ow, n) => delta.push(WarpOp::UpsertNode {
                node: NodeKey { warp_id: wid(*ow), local_id: nid(*n) },
                record: NodeRecord { ty: tyid(9) },
            }),
            Op::InstOp(ow) => delta.push(WarpOp::UpsertWarpInstance {
                instance: WarpInstance { warp_id: wid(*ow), root_node: nid(1), parent: None },
            }),
            Op::OpenExisting(n, cw) => delta.push(WarpOp::OpenPortal {
                key: AttachmentKey::node_alpha(NodeKey { warp_id: view.warp_id(), local_id: nid(*n) }),
                child_warp: wid(*cw),
                child_root: nid(1),
                init: warp_core::PortalInit::RequireExisting,
            }),
            Op::Panic => std::panic::panic_any("verif: scripted executor panic"),
        }
    }
}

/// The honest footprint of a program: every location any branch may read or write.
pub fn honest_fp(idx: usize, w: WarpId, scope: &NodeId) -> Footprint {
    // masks are sound (every bit set), so the legacy scheduler must agree with the radix one
    let mut fp = Footprint { factor_mask: u64::MAX, ..Footprint::default() };
    let nk = |n: NodeId| NodeKey { warp_id: w, local_id: n };
    // the matcher reads the scope node
    fp.n_read.insert(nk(*scope));
    for ins in program(idx) {
        if let Some((t, _, _)) = &ins.guard {
            fp.a_read.insert(AttachmentKey::node_alpha(nk(t.node(scope))));
        }
        match &ins.op {
            Op::SetAtt(t, _) | Op::CountAdj(t) => {
                fp.a_write.insert(AttachmentKey::node_alpha(nk(t.node(scope))));
                if matches!(ins.op, Op::CountAdj(_)) {
                    fp.n_read.insert(nk(*scope));
                }
            }
            Op::UpNode(n, _) => fp.n_write.insert(nk(nid(*n))),
            Op::DelNode(n) => {
                fp.n_write.insert(nk(nid(*n)));
                fp.a_write.insert(AttachmentKey::node_alpha(nk(nid(*n))));
            }
            Op::UpEdge(e, from, _, _) => {
                fp.n_write.insert(nk(from.node(scope)));
                fp.e_write.insert(EdgeKey { warp_id: w, local_id: eid(*e) });
            }
            Op::DelEdge(from, e) => {
                fp.n_write.insert(nk(from.node(scope)));
                fp.e_write.insert(EdgeKey { warp_id: w, local_id: eid(*e) });
                fp.a_write.insert(AttachmentKey::edge_beta(EdgeKey { warp_id: w, local_id: eid(*e) }));
            }
            Op::SetEAtt(e, _) => fp.a_write.insert(AttachmentKey::edge_beta(EdgeKey { warp_id: w, local_id: eid(*e) })),
            Op::ReadNode(t) | Op::ReadAdj(t) => fp.n_read.insert(nk(t.node(scope))),
            Op::HasEdge(e) => fp.e_read.insert(EdgeKey { warp_id: w, local_id: eid(*e) }),
            Op::ReadEAtt(e) => fp.a_read.insert(AttachmentKey::edge_beta(EdgeKey { warp_id: w, local_id: eid(*e) })),
            Op::OpenExisting(n, _) => fp.a_write.insert(AttachmentKey::node_alpha(nk(nid(*n)))),
            Op::CrossWarp(..) | Op::InstOp(_) | Op::Panic => {}
        }
    }
    fp
}

fn fp_with_omissions(idx: usize, w: WarpId, scope: &NodeId) -> Footprint {
    let honest = honest_fp(idx, w, scope);
    let omit = OMIT.lock().unwrap().clone();
    if !omit.iter().any(|(i, _, _)| *i == idx) {
        return honest;
    }
    let dump = dump_fp(&honest);
    let mut fp = Footprint { factor_mask: u64::MAX, ..Footprint::default() };
    for (set, keys) in dump {
        for k in keys {
            if omit.iter().any(|(i, s, kk)| *i == idx && *s == set && *kk == k.1) {
                continue;
            }
            match set.as_str() {
                "nr" => fp.n_read.insert(NodeKey { warp_id: w, local_id: NodeId(k.0) }),
                "nw" => fp.n_write.insert(NodeKey { warp_id: w, local_id: NodeId(k.0) }),
                "er" => fp.e_read.insert(EdgeKey { warp_id: w, local_id: EdgeId(k.0) }),
                "ew" => fp.e_write.insert(EdgeKey { warp_id: w, local_id: EdgeId(k.0) }),
                "ar" => fp.a_read.insert(k.2.unwrap()),
                "aw" => fp.a_write.insert(k.2.unwrap()),
                _ => {}
            }
        }
    }
    fp
}

/// (set name, [(local id bytes, printable key, attachment key)]) in a fixed order
pub fn dump_fp(fp: &Footprint) -> Vec<(String, Vec<([u8; 32], String, Option<AttachmentKey>)>)> {
    let att = |k: &AttachmentKey| -> ([u8; 32], String, Option<AttachmentKey>) {
        let (o, id, code) = match k.owner {
            AttachmentOwner::Node(n) => ("n", n.local_id.0, 0u8),
            AttachmentOwner::Edge(e) => ("e", e.local_id.0, 2u8),
        };
        let p = if k.plane == AttachmentPlane::Alpha { 0u8 } else { 1u8 };
        (id, format!("{o}{}{}", hex::encode(&id[24..]), code + p), Some(*k))
    };
    vec![
        ("nr".into(), fp.n_read.iter().map(|k| (k.local_id.0, hex::encode(&k.local_id.0[24..]), None)).collect()),
        ("nw".into(), fp.n_write.iter().map(|k| (k.local_id.0, hex::encode(&k.local_id.0[24..]), None)).collect()),
        ("er".into(), fp.e_read.iter().map(|k| (k.local_id.0, hex::encode(&k.local_id.0[24..]), None)).collect()),
        ("ew".into(), fp.e_write.iter().map(|k| (k.local_id.0, hex::encode(&k.local_id.0[24..]), None)).collect()),
        ("ar".into(), fp.a_read.iter().map(att).collect()),
        ("aw".into(), fp.a_write.iter().map(att).collect()),
    ]
}

fn matcher(_idx: usize, view: GraphView<'_>, scope: &NodeId) -> bool {
    view.node(scope).is_some()
}

macro_rules! rule_fns {
    ($($i:literal $m:ident $e:ident $f:ident $name:literal),*) => {
        $(
            fn $m(v: GraphView<'_>, s: &NodeId) -> bool { matcher($i, v, s) }
            fn $e(v: GraphView<'_>, s: &NodeId, d: &mut TickDelta) { exec($i, v, s, d) }
            fn $f(v: GraphView<'_>, s: &NodeId) -> Footprint { fp_with_omissions($i, v.warp_id(), s) }
        )*
        pub fn rules() -> Vec<RewriteRule> {
            vec![$(RewriteRule {
                id: rule_id($i),
                name: $name,
                left: PatternGraph { nodes: Vec::new() },
                matcher: $m,
                executor: $e,
                compute_footprint: $f,
                factor_mask: 0,
                conflict_policy: ConflictPolicy::Abort,
                join_fn: None,
            }),*]
        }
        pub fn exec_fn(i: usize) -> warp_core::ExecuteFn { match i { $($i => $e,)* _ => panic!("rule idx") } }
        pub fn rule_name(i: usize) -> &'static str { match i { $($i => $name,)* _ => panic!("rule idx") } }
    };
}
rule_fns!(0 m0 e0 f0 "verif/r0", 1 m1 e1 f1 "verif/r1", 2 m2 e2 f2 "verif/r2", 3 m3 e3 f3 "verif/r3",
          4 m4 e4 f4 "verif/r4", 5 m5 e5 f5 "verif/r5", 6 m6 e6 f6 "verif/r6", 7 m7 e7 f7 "verif/r7");

pub fn rule_id(i: usize) -> Hash {
    *blake3::hash(format!("verif-rule-{i}").as_bytes()).as_bytes()
}

// ---------------------------------------------------------------------------- graphs

pub struct Graph {
    pub state: WarpState,
    pub root: NodeKey,
    pub warps: Vec<u64>,
    /// child warp -> (parent warp, portal owner node)
    pub parents: BTreeMap<u64, (u64, u64)>,
}

/// When set, `run_tick` passes the descent chain (the portal attachment slots root -> ... -> instance) to
/// `apply_in_warp` for candidates inside descended instances, as the engine's Stage B1 law requires.
pub static USE_DESCENT_STACK: std::sync::atomic::AtomicBool = std::sync::atomic::AtomicBool::new(false);

pub fn descent_stack(g: &Graph, w: u64) -> Vec<AttachmentKey> {
    let mut chain = Vec::new();
    let mut cur = w;
    while let Some((pw, pn)) = g.parents.get(&cur) {
        chain.push(AttachmentKey::node_alpha(NodeKey { warp_id: wid(*pw), local_id: nid(*pn) }));
        cur = *pw;
    }
    chain.reverse();
    chain
}

pub fn build_graph(spec: &str) -> Graph {
    let mut state = WarpState::new();
    let mut root = None;
    let mut warps = Vec::new();
    let mut parents = BTreeMap::new();
    let apply = |state: &mut WarpState, ops: Vec<WarpOp>| {
        warp_core::verif_hooks::apply_ops_to_state(state, &ops).unwrap_or_else(|e| panic!("graph spec op failed: {e:?}"));
    };
    for it in items(spec) {
        let (k, rest) = it.split_at(1);
        let f: Vec<&str> = rest.split('.').collect();
        let u = |i: usize| -> u64 { f[i].parse().unwrap() };
        match k {
            "I" => {
                apply(&mut state, vec![WarpOp::UpsertWarpInstance { instance: WarpInstance { warp_id: wid(u(0)), root_node: nid(u(1)), parent: None } }]);
                apply(&mut state, vec![WarpOp::UpsertNode { node: NodeKey { warp_id: wid(u(0)), local_id: nid(u(1)) }, record: NodeRecord { ty: tyid(0) } }]);
                if root.is_none() {
                    root = Some(NodeKey { warp_id: wid(u(0)), local_id: nid(u(1)) });
                }
                warps.push(u(0));
            }
            "P" => {
                apply(&mut state, vec![WarpOp::OpenPortal {
                    key: AttachmentKey::node_alpha(NodeKey { warp_id: wid(u(2)), local_id: nid(u(3)) }),
                    child_warp: wid(u(0)),
                    child_root: nid(u(1)),
                    init: warp_core::PortalInit::Empty { root_record: NodeRecord { ty: tyid(0) } },
                }]);
                warps.push(u(0));
                parents.insert(u(0), (u(2), u(3)));
            }
            "N" => apply(&mut state, vec![WarpOp::UpsertNode { node: NodeKey { warp_id: wid(u(0)), local_id: nid(u(1)) }, record: NodeRecord { ty: tyid(u(2)) } }]),
            "E" => apply(&mut state, vec![WarpOp::UpsertEdge { warp_id: wid(u(0)), record: EdgeRecord { id: eid(u(1)), from: nid(u(2)), to: nid(u(3)), ty: tyid(u(4)) } }]),
            "A" => apply(&mut state, vec![WarpOp::SetAttachment { key: AttachmentKey::node_alpha(NodeKey { warp_id: wid(u(0)), local_id: nid(u(1)) }), value: Some(atom(&unhex(f[2]))) }]),
            "B" => apply(&mut state, vec![WarpOp::SetAttachment { key: AttachmentKey::edge_beta(EdgeKey { warp_id: wid(u(0)), local_id: eid(u(1)) }), value: Some(atom(&unhex(f[2]))) }]),
            x => panic!("graph item {x}"),
        }
    }
    Graph { state, root: root.expect("graph needs a root instance"), warps, parents }
}

fn n64(id: &[u8; 32]) -> u64 {
    u64::from_be_bytes([id[24], id[25], id[26], id[27], id[28], id[29], id[30], id[31]])
}

/// `<n|e><a|b><warp>.<id>` for an attachment key
pub fn att_key_s(k: &AttachmentKey) -> String {
    let (o, w, id) = match k.owner {
        AttachmentOwner::Node(n) => ("n", n.warp_id.0, n.local_id.0),
        AttachmentOwner::Edge(e) => ("e", e.warp_id.0, e.local_id.0),
    };
    let p = if k.plane == AttachmentPlane::Alpha { "a" } else { "b" };
    format!("{o}{p}{}.{}", n64(&w), n64(&id))
}

fn att_val_s(v: &Option<AttachmentValue>) -> String {
    match v {
        None => "-".into(),
        Some(AttachmentValue::Atom(a)) => format!("atom_{}_{}", n64(&a.type_id.0), tohex(a.bytes.as_ref())),
        Some(AttachmentValue::Descend(w)) => format!("descend_{}", n64(&w.0)),
    }
}

/// Full rendering of ops (content included) for the Patch model: `UN.w.n.ty` `DN.w.n` `UE.w.e.from.to.ty`
/// `DE.w.from.e` `SA.<key>.<atom_ty_hex|descend_w|->` `UW.w.root` `DW.w` `OP.<key>.cw.cr.<ty|->`, joined by `+`.
pub fn render_ops(ops: &[WarpOp]) -> String {
    ops.iter()
        .map(|op| match op {
            WarpOp::UpsertNode { node, record } => format!("UN.{}.{}.{}", n64(&node.warp_id.0), n64(&node.local_id.0), n64(&record.ty.0)),
            WarpOp::DeleteNode { node } => format!("DN.{}.{}", n64(&node.warp_id.0), n64(&node.local_id.0)),
            WarpOp::UpsertEdge { warp_id, record } => format!("UE.{}.{}.{}.{}.{}", n64(&warp_id.0), n64(&record.id.0), n64(&record.from.0), n64(&record.to.0), n64(&record.ty.0)),
            WarpOp::DeleteEdge { warp_id, from, edge_id } => format!("DE.{}.{}.{}", n64(&warp_id.0), n64(&from.0), n64(&edge_id.0)),
            WarpOp::SetAttachment { key, value } => format!("SA.{}.{}", att_key_s(key).replace('.', "_"), att_val_s(value)),
            WarpOp::UpsertWarpInstance { instance } => format!("UW.{}.{}", n64(&instance.warp_id.0), n64(&instance.root_node.0)),
            WarpOp::DeleteWarpInstance { warp_id } => format!("DW.{}", n64(&warp_id.0)),
            WarpOp::OpenPortal { key, child_warp, child_root, .. } => format!("OP.{}.{}.{}", att_key_s(key).replace('.', "_"), n64(&child_warp.0), n64(&child_root.0)),
        })
        .collect::<Vec<_>>()
        .join("+")
}

/// Canonical dump of a state (sorted, hex) through public accessors.
pub fn dump_state(state: &WarpState, warps: &[u64]) -> String {
    let mut out = String::new();
    let mut ws: Vec<u64> = warps.to_vec();
    ws.sort_unstable();
    for w in ws {
        let Some(store) = state.store(&wid(w)) else {
            out.push_str(&format!("W{w}:absent|"));
            continue;
        };
        let inst = state.instance(&wid(w));
        out.push_str(&format!("W{w}:root={}:parent={}|", inst.map(|i| hex::encode(&i.root_node.0[24..])).unwrap_or_default(),
            inst.and_then(|i| i.parent).map(|p| att_key_s(&p)).unwrap_or_else(|| "-".into())));
        let mut nodes: Vec<_> = store.iter_nodes().map(|(id, r)| (id.0, r.ty.0)).collect();
        nodes.sort();
        for (id, ty) in nodes {
            out.push_str(&format!("n{}:{},", hex::encode(&id[24..]), hex::encode(&ty[24..])));
        }
        let mut edges: Vec<_> = store.iter_edges().flat_map(|(_, v)| v.iter()).map(|e| (e.id.0, e.from.0, e.to.0, e.ty.0)).collect();
        edges.sort();
        for (id, from, to, ty) in edges {
            out.push_str(&format!("e{}:{}>{}:{},", hex::encode(&id[24..]), hex::encode(&from[24..]), hex::encode(&to[24..]), hex::encode(&ty[24..])));
        }
        let av = |v: &AttachmentValue| match v {
            AttachmentValue::Atom(a) => format!("atom:{}:{}", hex::encode(&a.type_id.0[24..]), tohex(a.bytes.as_ref())),
            AttachmentValue::Descend(c) => format!("descend:{}", hex::encode(&c.0[24..])),
        };
        let mut na: Vec<_> = store.iter_node_attachments().map(|(id, v)| (id.0, av(v))).collect();
        na.sort();
        for (id, v) in na {
            out.push_str(&format!("a{}={},", hex::encode(&id[24..]), v));
        }
        let mut ea: Vec<_> = store.iter_edge_attachments().map(|(id, v)| (id.0, av(v))).collect();
        ea.sort();
        for (id, v) in ea {
            out.push_str(&format!("b{}={},", hex::encode(&id[24..]), v));
        }
        out.push('|');
    }
    out
}

// ---------------------------------------------------------------------------- candidates and ticks

/// One enqueue request: (rule idx, warp, scope node).
pub type Req = (usize, u64, u64);

pub fn parse_enq(spec: &str) -> Vec<Req> {
    items(spec)
        .iter()
        .map(|it| {
            let f: Vec<&str> = it.split('.').collect();
            (f[0].parse().unwrap(), f[1].parse().unwrap(), f[2].parse().unwrap())
        })
        .collect()
}

pub struct TickOutcome {
    /// `Ok(line)` = canonical commit line, `Err(kind)` = error / panic class
    pub result: Result<String, String>,
    pub receipt: Vec<(Hash, Hash, bool, Vec<u32>)>, // (scope_hash, rule_id, applied, blockers)
    pub post_dump: String,
    pub post_root: Hash,
}

pub fn new_engine(g: &Graph, kind: SchedulerKind, workers: usize) -> Engine {
    let mut e = EngineBuilder::from_state(g.state.clone(), g.root).scheduler(kind).workers(workers).build().expect("engine");
    for r in rules() {
        e.register_rule(r).expect("register");
    }
    e
}

/// Runs one tick on a fresh engine: applies `enq` in order, commits.
pub fn run_tick(g: &Graph, kind: SchedulerKind, workers: usize, enq: &[Req], script: Option<Vec<usize>>) -> TickOutcome {
    let mut engine = new_engine(g, kind, workers);
    run_tick_on(&mut engine, g, enq, script)
}

/// Two ticks on ONE long-lived engine (`warm`, then `enq`), and the second tick again on a fresh engine built from a
/// clone of the state the first tick left: a tick's outcome must be a function of its pre-tick state and candidate set,
/// not of what earlier ticks of the same engine admitted (recycled scheduler state, caches).  Returns None when the
/// warm tick does not commit.  The commit id legitimately differs (the long-lived engine chains to the first commit),
/// so callers compare receipts, post-states, roots and the digests of the result line other than `commit=`.
pub fn run_warm_then(g: &Graph, kind: SchedulerKind, workers: usize, warm: &[Req], enq: &[Req]) -> Option<(TickOutcome, TickOutcome)> {
    let mut engine = new_engine(g, kind, workers);
    let first = run_tick_on(&mut engine, g, warm, None);
    if first.result.is_err() {
        return None;
    }
    let g1 = Graph { state: engine.state().clone(), root: g.root, warps: g.warps.clone(), parents: g.parents.clone() };
    let long_lived = run_tick_on(&mut engine, &g1, enq, None);
    let fresh = run_tick(&g1, kind, workers, enq, None);
    Some((long_lived, fresh))
}

/// the result line without its `commit=` field
pub fn sans_commit(r: &Result<String, String>) -> Result<String, String> {
    r.clone().map(|l| l.split(' ').filter(|t| !t.starts_with("commit=")).collect::<Vec<_>>().join(" "))
}

/// One tick on the given engine (`g` supplies the pre-tick state for the replay check, the instance list and the
/// descent chains).
pub fn run_tick_on(engine: &mut Engine, g: &Graph, enq: &[Req], script: Option<Vec<usize>>) -> TickOutcome {
    let tx = engine.begin();
    let use_descent = USE_DESCENT_STACK.load(std::sync::atomic::Ordering::Relaxed);
    for (r, w, n) in enq {
        let stack = if use_descent { descent_stack(g, *w) } else { Vec::new() };
        let _ = engine.apply_in_warp(tx, wid(*w), rule_name(*r), &nid(*n), &stack);
    }
    warp_core::verif_hooks::set_claim_script(script);
    let res = std::panic::catch_unwind(std::panic::AssertUnwindSafe(|| engine.commit_with_receipt(tx)));
    warp_core::verif_hooks::set_claim_script(None);
    let post_dump = dump_state(engine.state(), &g.warps);
    let post_root = engine.snapshot().state_root;
    match res {
        Ok(Ok((snap, receipt, patch))) => {
            let rc: Vec<(Hash, Hash, bool, Vec<u32>)> = receipt
                .entries()
                .iter()
                .enumerate()
                .map(|(i, e)| (e.scope_hash, e.rule_id, e.disposition == TickReceiptDisposition::Applied, receipt.blocked_by(i).to_vec()))
                .collect();
            // the emitted patch must replay to the post state (C04's oracle, cheap to include)
            let mut replay = g.state.clone();
            let replay_ok = patch.apply_to_state(&mut replay).is_ok() && dump_state(&replay, &g.warps) == post_dump;
            let line = format!(
                "root={} patch={} commit={} plan={} rew={} dec={} rcd={} replay={} post={}",
                hex::encode(snap.state_root),
                hex::encode(snap.patch_digest),
                hex::encode(snap.hash),
                hex::encode(&snap.plan_digest[..8]),
                hex::encode(&snap.rewrites_digest[..8]),
                hex::encode(&snap.decision_digest[..8]),
                hex::encode(&receipt.digest()[..8]),
                replay_ok,
                hex::encode(&blake3::hash(post_dump.as_bytes()).as_bytes()[..8])
            );
            TickOutcome { result: Ok(line), receipt: rc, post_dump, post_root }
        }
        Ok(Err(e)) => TickOutcome { result: Err(format!("EngineError:{}", format!("{e:?}").split(['(', ' ']).next().unwrap_or(""))), receipt: Vec::new(), post_dump, post_root },
        Err(p) => {
            let kind = if let Some(v) = p.downcast_ref::<warp_core::FootprintViolation>() {
                format!("FootprintViolation:{}", format!("{:?}", v.kind).split(['(', ' ', '{']).next().unwrap_or(""))
            } else if let Some(v) = p.downcast_ref::<warp_core::FootprintViolationWithPanic>() {
                format!("FootprintViolationWithPanic:{}", format!("{:?}", v.violation.kind).split(['(', ' ', '{']).next().unwrap_or(""))
            } else if let Some(s) = p.downcast_ref::<&str>() {
                format!("Panic:{}", s.replace(' ', "_"))
            } else if let Some(s) = p.downcast_ref::<String>() {
                format!("Panic:{}", s.replace(' ', "_").chars().take(60).collect::<String>())
            } else {
                "Panic:other".to_string()
            };
            TickOutcome { result: Err(kind), receipt: Vec::new(), post_dump, post_root }
        }
    }
}

/// The candidate table of a case: one row per distinct (rule, warp, scope) that matches.
pub struct Row {
    pub req: Req,
    pub scope_hash: Hash,
    pub compact: u32,
    pub fp: Footprint,
    pub ops: Vec<WarpOp>,
}

pub fn table(g: &Graph, enq: &[Req]) -> Vec<Row> {
    let mut seen = BTreeSet::new();
    let mut rows = Vec::new();
    for req in enq {
        if !seen.insert(*req) {
            continue;
        }
        let (r, w, n) = *req;
        let Some(store) = g.state.store(&wid(w)) else { continue };
        let view = GraphView::new(store);
        if !matcher(r, view, &nid(n)) {
            continue;
        }
        let mut fp = fp_with_omissions(r, wid(w), &nid(n));
        if USE_DESCENT_STACK.load(std::sync::atomic::Ordering::Relaxed) {
            // Engine::apply_in_warp adds the descent chain (portal slots owned by ancestor instances) to a_read: the
            // admitted footprint of a descended candidate reaches into its ancestors' instances
            for key in descent_stack(g, w) {
                fp.a_read.insert(key);
            }
        }
        let mut delta = TickDelta::new();
        let ops = match std::panic::catch_unwind(std::panic::AssertUnwindSafe(|| {
            exec(r, view, &nid(n), &mut delta);
        })) {
            Ok(()) => delta.into_ops_unsorted(),
            Err(_) => Vec::new(),
        };
        rows.push(Row {
            req: *req,
            scope_hash: warp_core::scope_hash(&rule_id(r), &NodeKey { warp_id: wid(w), local_id: nid(n) }),
            compact: r as u32, // rules are registered in index order
            fp,
            ops,
        });
    }
    rows
}

/// Reference merge (sort by the real sort_key, reject divergent, dedupe) of the ops of the accepted rows.
pub fn reference_merge(rows: &[&Row]) -> Result<Vec<WarpOp>, String> {
    let mut flat: Vec<WarpOp> = rows.iter().flat_map(|r| r.ops.iter().cloned()).collect();
    flat.sort_by(|a, b| a.sort_key().cmp(&b.sort_key()));
    for w in flat.windows(2) {
        if w[0].sort_key() == w[1].sort_key() && w[0] != w[1] {
            return Err("MergeConflict".into());
        }
    }
    flat.dedup_by(|a, b| a.sort_key() == b.sort_key());
    Ok(flat)
}

/// Renders the table for the model: rows `scopehash:compact:warp:node:fp:ops` where ops are `rank.content.target`.
pub fn render_table(rows: &[Row]) -> String {
    let mut all: Vec<&WarpOp> = rows.iter().flat_map(|r| r.ops.iter()).collect();
    all.sort_by(|a, b| a.sort_key().cmp(&b.sort_key()));
    let mut ranks: Vec<&WarpOp> = Vec::new(); // one representative per distinct key
    for op in &all {
        if ranks.last().map(|l| l.sort_key() != op.sort_key()).unwrap_or(true) {
            ranks.push(op);
        }
    }
    let mut distinct: Vec<&WarpOp> = Vec::new();
    for op in &all {
        if !distinct.iter().any(|d| d == op) {
            distinct.push(op);
        }
    }
    let target = |op: &WarpOp| -> String {
        let w = match op {
            WarpOp::UpsertNode { node, .. } | WarpOp::DeleteNode { node } => node.warp_id,
            WarpOp::UpsertEdge { warp_id, .. } | WarpOp::DeleteEdge { warp_id, .. } => *warp_id,
            WarpOp::SetAttachment { key, .. } | WarpOp::OpenPortal { key, .. } => match key.owner {
                AttachmentOwner::Node(n) => n.warp_id,
                AttachmentOwner::Edge(e) => e.warp_id,
            },
            WarpOp::UpsertWarpInstance { instance } => instance.warp_id,
            WarpOp::DeleteWarpInstance { warp_id } => *warp_id,
        };
        hex::encode(&w.0[24..])
    };
    rows.iter()
        .map(|r| {
            let fp = dump_fp(&r.fp)
                .iter()
                .map(|(_, keys)| {
                    if keys.is_empty() {
                        "-".to_string()
                    } else {
                        // a resource of ANOTHER instance than the candidate's own (descent-chain reads) is printed as
                        // `W<warp>~<key>`; the model qualifies every resource with its instance
                        keys.iter()
                            .map(|k| match k.2 {
                                Some(ak) => {
                                    let kw = match ak.owner {
                                        AttachmentOwner::Node(n) => n.warp_id,
                                        AttachmentOwner::Edge(e) => e.warp_id,
                                    };
                                    if kw == wid(r.req.1) { k.1.clone() } else { format!("W{}~{}", u64::from_be_bytes(kw.0[24..].try_into().unwrap()), k.1) }
                                }
                                None => k.1.clone(),
                            })
                            .collect::<Vec<_>>()
                            .join("+")
                    }
                })
                .collect::<Vec<_>>()
                .join("/");
            let ops = r
                .ops
                .iter()
                .map(|op| {
                    let rank = ranks.iter().position(|x| x.sort_key() == op.sort_key()).unwrap();
                    let content = distinct.iter().position(|x| *x == op).unwrap();
                    format!("{rank}.{content}.{}", target(op))
                })
                .collect::<Vec<_>>()
                .join("+");
            format!(
                "{}:{}:{}:{}:{}:{}",
                hex::encode(r.scope_hash),
                r.compact,
                r.req.1,
                hex::encode(nid(r.req.2).0),
                fp,
                if ops.is_empty() { "-".to_string() } else { ops }
            )
        })
        .collect::<Vec<_>>()
        .join(";")
}

pub fn content_ids(rows: &[Row], merged: &[WarpOp]) -> String {
    let mut all: Vec<&WarpOp> = rows.iter().flat_map(|r| r.ops.iter()).collect();
    all.sort_by(|a, b| a.sort_key().cmp(&b.sort_key()));
    let mut distinct: Vec<&WarpOp> = Vec::new();
    for op in &all {
        if !distinct.iter().any(|d| d == op) {
            distinct.push(op);
        }
    }
    merged.iter().map(|op| distinct.iter().position(|x| *x == op).map(|p| p.to_string()).unwrap_or_else(|| "?".into())).collect::<Vec<_>>().join(",")
}

pub fn row_index(rows: &[Row], scope_hash: &Hash, rule: &Hash) -> Option<usize> {
    rows.iter().position(|r| &r.scope_hash == scope_hash && &rule_id(r.compact as usize) == rule)
}

pub fn btree_dummy() -> BTreeMap<u8, u8> {
    BTreeMap::new()
}
