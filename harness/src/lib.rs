//! Shared helpers for the per-property harness binaries.
//!
//! Every binary reads a case file (one case per line, `key=value` tokens) and prints one
//! canonical result line per case.  Nothing here is property specific.
#![allow(clippy::all)]

use std::collections::BTreeMap;

/// 32-byte id from a hex string (left-padded with zeros if shorter).
pub fn hex32(s: &str) -> [u8; 32] {
    let mut out = [0u8; 32];
    let s = s.trim();
    let padded = format!("{:0>64}", s);
    let v = hex::decode(&padded).unwrap_or_else(|e| panic!("bad hex32 {s}: {e}"));
    out.copy_from_slice(&v);
    out
}

/// Hex -> bytes (`-` or empty is the empty string).
pub fn unhex(s: &str) -> Vec<u8> {
    if s.is_empty() || s == "-" {
        return Vec::new();
    }
    hex::decode(s).unwrap_or_else(|e| panic!("bad hex {s}: {e}"))
}

/// Bytes -> hex (`-` for empty).
pub fn tohex(b: &[u8]) -> String {
    if b.is_empty() {
        "-".to_string()
    } else {
        hex::encode(b)
    }
}

/// Splits a line into `key=value` tokens (space separated).
pub fn kv(line: &str) -> BTreeMap<String, String> {
    let mut m = BTreeMap::new();
    for tok in line.split_whitespace() {
        if let Some((k, v)) = tok.split_once('=') {
            m.insert(k.to_string(), v.to_string());
        }
    }
    m
}

/// Splits `a;b;c` (empty string or `-` gives no items).
pub fn items(s: &str) -> Vec<&str> {
    if s.is_empty() || s == "-" {
        Vec::new()
    } else {
        s.split(';').collect()
    }
}

/// SplitMix64: the only source of randomness inside harness binaries.
pub struct Rng(pub u64);
impl Rng {
    pub fn next(&mut self) -> u64 {
        self.0 = self.0.wrapping_add(0x9E37_79B9_7F4A_7C15);
        let mut z = self.0;
        z = (z ^ (z >> 30)).wrapping_mul(0xBF58_476D_1CE4_E5B9);
        z = (z ^ (z >> 27)).wrapping_mul(0x94D0_49BB_1331_11EB);
        z ^ (z >> 31)
    }
    pub fn below(&mut self, n: usize) -> usize {
        if n == 0 {
            0
        } else {
            (self.next() % (n as u64)) as usize
        }
    }
    pub fn shuffle<T>(&mut self, v: &mut [T]) {
        for i in (1..v.len()).rev() {
            let j = self.below(i + 1);
            v.swap(i, j);
        }
    }
}

/// Calls `f` on every permutation of `0..n` (Heap's algorithm); stops early when `f` returns false.
pub fn for_each_perm(n: usize, mut f: impl FnMut(&[usize]) -> bool) {
    let mut a: Vec<usize> = (0..n).collect();
    let mut c = vec![0usize; n];
    if !f(&a) {
        return;
    }
    let mut i = 0;
    while i < n {
        if c[i] < i {
            if i % 2 == 0 {
                a.swap(0, i);
            } else {
                a.swap(c[i], i);
            }
            if !f(&a) {
                return;
            }
            c[i] += 1;
            i = 0;
        } else {
            c[i] = 0;
            i += 1;
        }
    }
}

/// Reads the case file named by argv[1], skipping blank and `#` lines.
pub fn read_cases() -> Vec<String> {
    let path = std::env::args().nth(1).expect("usage: <bin> <cases-file>");
    let text = std::fs::read_to_string(&path).unwrap_or_else(|e| panic!("read {path}: {e}"));
    text.lines()
        .map(str::trim)
        .filter(|l| !l.is_empty() && !l.starts_with('#'))
        .map(str::to_string)
        .collect()
}

/// Runs `f` catching panics; returns `Err(message)` on panic.
pub fn catch<T>(f: impl FnOnce() -> T + std::panic::UnwindSafe) -> Result<T, String> {
    std::panic::catch_unwind(f).map_err(|e| {
        if let Some(s) = e.downcast_ref::<&str>() {
            (*s).to_string()
        } else if let Some(s) = e.downcast_ref::<String>() {
            s.clone()
        } else {
            "panic(non-string payload)".to_string()
        }
    })
}
